# Integer mode for word-by-word Montgomery code (DESIGN.md section 1.4): uint64 values are mathematical integers
# (z3 Int terms) with a tracked interval; bits.Add64/Sub64/Mul64 introduce fresh words linked by one exact linear
# equation.  A product of two symbolic words is a fresh integer P_xy (shared by (x,y) and (y,x)); the specification
# side uses the same P_xy.  A discarded sum word is proved to be zero with a small bit-vector query over a sliced
# definition of the operands, and the fact is added as an equation.
import z3
import gosym
from gosym import Unsupported, GoPanic

W = 1 << 64


class IV:
    """integer-mode value: term (python int or z3 Int), interval [lo, hi], optional 64-bit bit-vector shadow"""
    __slots__ = ('t', 'lo', 'hi', 'bv', 'mask')
    _is_iv = True

    def __init__(self, t, lo, hi, bv=None):
        self.t, self.lo, self.hi, self.bv = t, lo, hi, bv
        self.mask = None   # z3 Bool: value is all-ones when true, zero otherwise (conditional-move masks)

    def __repr__(self):
        return 'IV(%s in [%d,%d])' % (self.t, self.lo, self.hi)


def iv(v):
    if isinstance(v, IV):
        return v
    if isinstance(v, int):
        return IV(v, v, v, z3.BitVecVal(v & (W - 1), 64))
    raise Unsupported('integer mode: unexpected value %r' % (v,))


class IntMode:
    def __init__(self, eng):
        self.e = eng
        self.eqs = []          # exact linear equations (z3 Bool)
        self.ranges = []       # range facts of fresh words
        self.prod = {}         # (id x, id y) sorted -> P var
        self.prod_list = []    # (x IV, y IV, P)
        self.mulconst = []     # (x IV, const) in call order
        self.obligations = []  # (description, z3 formula that must be valid under eqs+ranges)
        self.lemmas = 0
        self.n = 0
        self.used_extract = {}
        eng.iv_mode = self
        I = eng.intercepts
        I['math/bits.Add64'] = self.add64
        I['math/bits.Sub64'] = self.sub64
        I['math/bits.Mul64'] = self.mul64

    def fresh(self, name, lo, hi, bvterm=None):
        self.n += 1
        t = z3.Int('%s!%d' % (name, self.n))
        self.ranges.append(z3.And(t >= lo, t <= hi))
        return IV(t, lo, hi, bvterm if bvterm is not None else z3.BitVec('%s_bv!%d' % (name, self.n), 64))

    def word(self, name):
        return self.fresh(name, 0, W - 1)

    # ---- which results of a tuple-returning call are used (to find discarded sum words)
    def extracts_used(self, f, callname):
        key = f['name']
        if key not in self.used_extract:
            m = {}
            used_regs = set()
            for b in f['blocks']:
                for ins in b['instrs']:
                    for a in ins['a']:
                        if a.get('k') == 'reg':
                            used_regs.add(a['n'])
            for b in f['blocks']:
                for ins in b['instrs']:
                    if ins['op'] == 'Extract' and ins.get('name') in used_regs:   # go/ssa emits an Extract for `_` too
                        m.setdefault(ins['a'][0]['n'], set()).add(ins['x']['index'])
            self.used_extract[key] = m
        return self.used_extract[key].get(callname, set())

    def add64(self, e, a, ins):
        x, y, c = [iv(v) for v in a]
        tot = x.t + y.t + c.t
        lo, hi = x.lo + y.lo + c.lo, x.hi + y.hi + c.hi
        bvsum = None
        if x.bv is not None and y.bv is not None and c.bv is not None:
            bvsum = x.bv + y.bv + c.bv
        if hi < W:
            return (IV(tot, lo, hi, bvsum), IV(0, 0, 0, z3.BitVecVal(0, 64)))
        s = self.word('sum')
        s.bv = bvsum if bvsum is not None else s.bv
        k = self.fresh('carry', 0, min(1, hi // W))
        self.eqs.append(tot == s.t + W * k.t)
        # discarded sum word?
        if ins is not None and 'name' in ins:
            used = self.extracts_used(self.cur_func, ins['name'])
            if 0 not in used and bvsum is not None:
                sol = z3.Solver()
                sol.set('timeout', 20000)
                if sol.check(bvsum != 0) == z3.unsat:
                    self.eqs.append(s.t == 0)
                    self.lemmas += 1
                else:
                    self.obligations.append(('discarded sum word at %s not provably zero' % ins.get('pos'), z3.BoolVal(False)))
        return (s, k)

    def sub64(self, e, a, ins):
        x, y, b = [iv(v) for v in a]
        tot = x.t - y.t - b.t
        lo, hi = x.lo - y.hi - b.hi, x.hi - y.lo - b.lo
        if lo >= 0:
            return (IV(tot, lo, hi, None), IV(0, 0, 0, z3.BitVecVal(0, 64)))
        d = self.word('diff')
        bo = self.fresh('borrow', 0, 1)
        self.eqs.append(tot == d.t - W * bo.t)
        return (d, bo)

    def mul64(self, e, a, ins):
        x, y = [iv(v) for v in a]
        if isinstance(y.t, int) or isinstance(x.t, int):
            if isinstance(x.t, int):
                x, y = y, x
            c = y.t
            if isinstance(x.t, int):
                p = x.t * c
                return (IV(p >> 64, p >> 64, p >> 64, z3.BitVecVal(p >> 64, 64)), IV(p & (W - 1), p & (W - 1), p & (W - 1), z3.BitVecVal(p & (W - 1), 64)))
            self.mulconst.append((x, c))
            hi = self.fresh('mhi', 0, (x.hi * c) >> 64)
            lo = self.word('mlo')
            lo.bv = x.bv * z3.BitVecVal(c, 64) if x.bv is not None else lo.bv
            self.eqs.append(x.t * c == hi.t * W + lo.t)
            return (hi, lo)
        key = tuple(sorted((x.t.get_id(), y.t.get_id())))
        if key not in self.prod:
            self.n += 1
            P = z3.Int('P!%d' % self.n)
            self.ranges.append(z3.And(P >= 0, P <= x.hi * y.hi))
            self.prod[key] = P
            self.prod_list.append((x, y, P))
        P = self.prod[key]
        hi = self.fresh('phi', 0, (x.hi * y.hi) >> 64)
        lo = self.word('plo')
        self.eqs.append(P == hi.t * W + lo.t)
        return (hi, lo)

    def product(self, x, y):
        """the P variable standing for x*y (must have been multiplied by the code), or None"""
        key = tuple(sorted((x.t.get_id(), y.t.get_id())))
        return self.prod.get(key)

    # ---- gosym hooks
    def binop(self, op, a, b, tr):
        a, b = iv(a), iv(b)
        if op == '+':
            hi = a.hi + b.hi
            bvs = (a.bv + b.bv) if a.bv is not None and b.bv is not None else None
            if hi >= W:
                # Go's + wraps: a + b == s + 2^64*k with the carry k lost
                s = self.word('wsum')
                s.bv = bvs if bvs is not None else s.bv
                k = self.fresh('wcarry', 0, hi // W)
                self.eqs.append(a.t + b.t == s.t + W * k.t)
                return s
            return IV(a.t + b.t, a.lo + b.lo, hi, bvs)
        if op == '-':
            lo, hi = a.lo - b.hi, a.hi - b.lo
            if lo < 0:
                d = self.word('wdiff')
                k = self.fresh('wborrow', 0, 1)
                self.eqs.append(a.t - b.t == d.t - W * k.t)
                return d
            return IV(a.t - b.t, lo, hi, (a.bv - b.bv) if a.bv is not None and b.bv is not None else None)
        if op == '&':
            if isinstance(a.t, int):
                a, b = b, a
            if isinstance(b.t, int) and a.mask is not None:
                return IV(z3.If(a.mask, z3.IntVal(b.t), z3.IntVal(0)), 0, b.t, None)
            if isinstance(b.t, int) and isinstance(a.t, int):
                return iv(a.t & b.t)
        if op in ('==', '!='):
            if isinstance(a.t, int) and isinstance(b.t, int):
                return (a.t == b.t) if op == '==' else (a.t != b.t)
        if op == '^':
            if isinstance(a.t, int) and isinstance(b.t, int):
                return iv(a.t ^ b.t)
            if isinstance(a.t, int):
                a, b = b, a
            # exclusive or of single bits (carry / borrow flags): x ^ 1 = 1 - x, x ^ 0 = x, x ^ y = x + y - 2k with k = x and y
            if a.hi <= 1 and a.lo >= 0 and isinstance(b.t, int) and b.t in (0, 1):
                return a if b.t == 0 else IV(1 - a.t, 1 - a.hi, 1 - a.lo, None)
            if a.hi <= 1 and a.lo >= 0 and b.hi <= 1 and b.lo >= 0:
                r = self.fresh('xbit', 0, 1)
                k = self.fresh('xand', 0, 1)
                self.eqs.append(a.t + b.t == r.t + 2 * k.t)
                return r
        raise Unsupported('integer mode: operator %s' % op)

    def unop(self, op, a):
        """wrapping unary operators on 64-bit words: -x = (2^64 - x) mod 2^64, ^x = 2^64 - 1 - x"""
        a = iv(a)
        if op == '-':
            if isinstance(a.t, int):
                return iv((-a.t) % W)
            if a.lo >= 1:
                return IV(W - a.t, W - a.hi, W - a.lo, None)
            d = self.word('neg')
            k = self.fresh('negz', 0, 1)          # k = 1 exactly when x = 0 (then -x = 0), enforced by the ranges: x + d = 2^64 (1 - k) ... 
            self.eqs.append(a.t + d.t == W * (1 - k.t))
            self.eqs.append(z3.Implies(k.t == 1, a.t == 0))
            self.eqs.append(z3.Implies(a.t == 0, k.t == 1))
            return d
        if op == '^':
            if isinstance(a.t, int):
                return iv(W - 1 - a.t)
            return IV(W - 1 - a.t, W - 1 - a.hi, W - 1 - a.lo, None)
        raise Unsupported('integer mode: unary operator %s' % op)

    def convert(self, v, fbits, tbits):
        v = iv(v)
        if v.lo >= 0 and v.hi < (1 << tbits):
            return v
        raise Unsupported('integer mode: narrowing conversion of a value that may not fit')

    def select(self, c, z, nz):
        """cmovznz: c == 0 ? z : nz"""
        c, z, nz = iv(c), iv(z), iv(nz)
        if isinstance(c.t, int):
            return z if c.t == 0 else nz
        r = IV(z3.If(c.t == 0, z.t, nz.t), min(z.lo, nz.lo), max(z.hi, nz.hi), None)
        if isinstance(z.t, int) and isinstance(nz.t, int) and {z.t, nz.t} == {0, W - 1}:
            r.mask = (c.t != 0) if nz.t == W - 1 else (c.t == 0)
        return r


def limbs_value(limbs):
    return sum(l.t * (1 << (64 * i)) for i, l in enumerate(limbs))
