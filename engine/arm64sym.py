# Symbolic interpreter for the arm64 (NEON) routines of package sm4, driven by the assembler's own listing
# (go tool asm -S with GOARCH=arm64) of the current tree.  Same conventions as asmsym.Machine: addresses are
# (region, offset) pairs, integer registers hold concrete ints or addresses, vector registers hold byte cells
# (ints, solver terms, GF(2)-affine forms) with a cached 32-bit-lane view, every memory access is logged and
# checked against its region, and in taint mode every data-derived value collapses to one opaque symbol.
#
# There is no arm64 host in the sandbox, so this interpreter cannot be validated against hardware; it is validated
# against the *specification* instead: under these semantics every kernel must come out equal to the SM4 / GHASH
# specification for all inputs (checks C05/C06), which a misunderstanding of an instruction would break.
import re
import z3
import asmsym
from asmsym import (AsmUnsupported, Addr, Aff, TAINT, SEC, is_sym, bv, simp, Region, Listing, apply_table, clmul64, Machine as _M)

M32 = 0xffffffff
RBIT_TAB = tuple(int('{:08b}'.format(i)[::-1], 2) for i in range(256))
IDENT = tuple(range(256))


class ByteFn:
    """table[base]: a byte that is a function of one symbolic byte (index arithmetic and TBL/TBX chains are folded
    into the table, so the four-step NEON S-box lookup becomes one table that is compared with the standard S-box)"""
    __slots__ = ('base', 'tab')

    def __init__(self, base, tab):
        self.base, self.tab = base, tab

    def term(self):
        if self.tab == IDENT:
            return self.base
        return apply_table(self.tab, self.base)


def as_fn(c):
    if isinstance(c, ByteFn):
        return c
    return ByteFn(c, IDENT)


def same_base(a, b):
    if a is b:
        return True
    if isinstance(a, Aff) or isinstance(b, Aff):
        return isinstance(a, Aff) and isinstance(b, Aff) and asmsym.aff_eq(a, b)
    return is_sym(a) and is_sym(b) and a.eq(b)


def cell_term(c):
    return c.term() if isinstance(c, ByteFn) else c


class VReg:
    __slots__ = ('b', 'w', 'shl')

    def __init__(self, b=None, w=None):
        self.b, self.w = b, w
        self.shl = None      # per lane: (source lane value, shift) left by VSHL, consumed by VSRI to form a rotation

    def bytes(self):
        if self.b is None:
            out = []
            for l in self.w:
                out += _M.to_bytes(l, 4)
            self.b = out
        return self.b

    def words(self):
        if self.w is None:
            cells = [cell_term(c) for c in self.b]
            self.w = [_M.from_bytes(cells[i:i + 4]) for i in range(0, 16, 4)]
        return self.w


def sec_if_taint(vals, width):
    if TAINT[0] and any(not isinstance(v, int) for v in vals):
        return SEC(width)
    return None


class A64Machine:
    def __init__(self, listing):
        self.L = listing
        self.regions = {}
        if not getattr(listing, 'a64_resplit', False):
            for code in listing.funcs.values():
                for ins in code:
                    ins.args = self.resplit(ins.args)
            listing.a64_resplit = True
        for sym, b in listing.data.items():
            self.regions[sym] = Region(sym, list(b), writable=False, kind='rodata')
        self.reset()

    def reset(self):
        self.r = {}
        self.v = [VReg(b=[0] * 16) for _ in range(32)]
        self.flags = None
        self.events = []
        self.reads = []
        self.writes = []
        self.steps = 0
        self.nfresh = 0
        self.ret = {}
        self.branch_oracle = None
        self.branch_log = []
        self.stale_vregs = set(range(32))     # registers never written in this run: reading one is an event
        for name in [n for n, r in self.regions.items() if r.kind != 'rodata']:
            del self.regions[name]

    add_region = _M.add_region
    fresh8 = _M.fresh8
    mem_read = _M.mem_read
    mem_write = _M.mem_write

    # ---- integer side
    def reg(self, name):
        if name == 'ZR':
            return 0
        if name not in self.r:
            raise AsmUnsupported('read of integer register %s before it is written' % name)
        return self.r[name]

    def add(self, a, b):
        if isinstance(a, Addr):
            return Addr(a.region, a.off + b)
        if isinstance(a, int) and isinstance(b, int):
            return (a + b) & (2 ** 64 - 1)
        raise AsmUnsupported('integer arithmetic on a data-derived value')

    # ---- vector operand parsing
    @staticmethod
    def vspec(s):
        """'V12.B16' -> (12, 'B16', None); 'V0.S[1]' -> (0, 'S', 1)"""
        m = re.match(r'^V(\d+)\.([BHSDQ])(\d+)?(?:\[(\d+)\])?$', s)
        if not m:
            raise AsmUnsupported('vector operand ' + s)
        return int(m.group(1)), m.group(2) + (m.group(3) or ''), (int(m.group(4)) if m.group(4) is not None else None)

    def vlist(self, s):
        if not (s.startswith('[') and s.endswith(']')):
            raise AsmUnsupported('register list ' + s)
        return [self.vspec(x.strip()) for x in s[1:-1].split(',')]

    def rv(self, n):
        return self.v[n]

    def setv(self, n, b=None, w=None):
        self.v[n] = VReg(b=b, w=w)
        self.stale_vregs.discard(n)

    def mem_operand(self, s):
        """'(R10)' or '64(R10)' -> (register, post-increment immediate or 0)"""
        m = re.match(r'^(-?\d+)?\((R\d+)\)$', s)
        if not m:
            raise AsmUnsupported('memory operand ' + s)
        return m.group(2), int(m.group(1) or 0)

    # ---- run
    def run(self, fname, args, max_steps=400_000):
        self.args = dict(args)
        code = self.L.funcs[fname]
        pcmap = self.L.pcmap[fname]
        self.fname = fname
        i = 0
        while True:
            if i >= len(code):
                raise AsmUnsupported('fell off the end of ' + fname)
            ins = code[i]
            self.steps += 1
            if self.steps > max_steps:
                raise AsmUnsupported('step budget exceeded')
            nxt = self.step(ins)
            if nxt == 'ret':
                return
            if nxt is None:
                i += 1
            else:
                if nxt not in pcmap:
                    raise AsmUnsupported('jump target %s' % nxt)
                i = pcmap[nxt]

    @staticmethod
    def resplit(args):
        out, cur, depth = [], '', 0
        for ch in ', '.join(args):
            if ch in '[(':
                depth += 1
            if ch in '])':
                depth -= 1
            if ch == ',' and depth == 0:
                out.append(cur.strip())
                cur = ''
            else:
                cur += ch
        if cur.strip():
            out.append(cur.strip())
        return out

    def step(self, ins):
        op, A, pc = ins.op, ins.args, ins.pc
        if op == 'RET':
            return 'ret'
        if op == 'MOVD':
            src, dst = A
            m = re.match(r'^(\w+)(?:\+(\d+))?\(FP\)$', src)
            if m:
                off = int(m.group(2) or 0)
                if off not in self.args:
                    raise AsmUnsupported('argument at frame offset %d not supplied' % off)
                self.r[dst] = self.args[off]
                return None
            m = re.match(r'^\$(-?\d+)$', src)
            if m:
                self.r[dst] = int(m.group(1)) & (2 ** 64 - 1)
                return None
            m = re.match(r'^\$(\w+)<>\(SB\)$', src)
            if m:
                if m.group(1) not in self.regions:
                    raise AsmUnsupported('unknown data symbol ' + m.group(1))
                self.r[dst] = Addr(m.group(1), 0)
                return None
            if re.match(r'^R\d+$', src):
                self.r[dst] = self.reg(src)
                return None
            raise AsmUnsupported('MOVD form: ' + ins.text)
        if op in ('ADD', 'SUB'):
            m = re.match(r'^\$(-?\d+)$', A[0])
            if not m:
                raise AsmUnsupported(op + ' form: ' + ins.text)
            imm = int(m.group(1))
            src = A[1]
            dst = A[2] if len(A) == 3 else A[1]
            self.r[dst] = self.add(self.reg(src), imm if op == 'ADD' else -imm)
            return None
        if op == 'CMP':
            m = re.match(r'^\$(-?\d+)$', A[0])
            v = self.reg(A[1])
            if not m or not isinstance(v, int):
                self.events.append(('symbranch', pc, 'comparison of a non-counter value: ' + ins.text))
                raise AsmUnsupported('CMP form: ' + ins.text)
            sv = v - 2 ** 64 if v >> 63 else v
            self.flags = (sv, int(m.group(1)))
            return None
        if op in ('BLT', 'BGT', 'BEQ', 'BNE', 'BGE', 'BLE'):
            if self.flags is None:
                raise AsmUnsupported('conditional branch without a preceding CMP')
            a, b = self.flags
            taken = {'BLT': a < b, 'BGT': a > b, 'BEQ': a == b, 'BNE': a != b, 'BGE': a >= b, 'BLE': a <= b}[op]
            return int(A[0]) if taken else None
        if op in ('JMP', 'B'):
            return int(A[0])
        if op == 'WORD':
            m = re.match(r'^\$(\d+)$', A[0])
            w = int(m.group(1))
            if (w & 0xBF208C00) == 0x0E000000 and (w >> 30) & 1:
                rm, ln, isx, rn, rd = (w >> 16) & 31, ((w >> 13) & 3) + 1, (w >> 12) & 1, (w >> 5) & 31, w & 31
                self.tbl(rd, [(rn + k) % 32 for k in range(ln)], rm, bool(isx), pc)
                return None
            raise AsmUnsupported('machine word %#x is not a 128-bit TBL/TBX' % w)
        if op.startswith('V'):
            return self.vstep(ins)
        raise AsmUnsupported('instruction ' + ins.text)

    # ---- vector instructions
    def use(self, n, pc):
        if n in self.stale_vregs:
            self.events.append(('uninit', pc, 'V%d is read before it is written in this routine' % n))
            self.stale_vregs.discard(n)
        return self.v[n]

    def tbl(self, rd, tabs, rm, keep, pc):
        table = []
        for t in tabs:
            table += self.use(t, pc).bytes()
        idx = self.use(rm, pc).bytes()
        old = self.use(rd, pc).bytes() if keep else [0] * 16
        out = []
        n = len(table)
        conc_table = all(isinstance(c, int) for c in table)
        for i in range(16):
            x = idx[i]
            if isinstance(x, int):
                out.append(table[x] if x < n else old[i])
                continue
            if TAINT[0]:
                out.append(SEC(8))
                continue
            if not conc_table:
                raise AsmUnsupported('table lookup in a data-dependent table')
            f = as_fn(x)
            o = old[i]
            if isinstance(o, int):
                otab = None
            elif isinstance(o, ByteFn) and same_base(o.base, f.base):
                otab = o.tab
            elif not isinstance(o, ByteFn) and same_base(o, f.base):
                otab = IDENT
            else:
                # TBX into a byte that is not a function of the same index byte: only fine if it can never be kept
                if all(v < n for v in f.tab):
                    otab = None
                    o = 0
                else:
                    raise AsmUnsupported('TBX keeps a byte that is not a function of its index byte')
            tab = tuple(table[v] if v < n else (o if otab is None else otab[j]) for j, v in enumerate(f.tab))
            out.append(ByteFn(f.base, tab))
        self.setv(rd, b=out)

    def load_cells(self, base, n, pc):
        a = self.reg(base)
        return self.mem_read(a, n, pc)

    def vstep(self, ins):
        op, A, pc = ins.op, ins.args, ins.pc
        post = op.endswith('.P')
        opn = op[:-2] if post else op
        if opn in ('VLD1', 'VLD4'):
            base, imm = self.mem_operand(A[0])
            if A[1].startswith('['):
                regs = self.vlist(A[1])
                total = 0
                sizes = []
                for (n, arr, idx) in regs:
                    sz = {'B16': 16, 'S4': 16, 'D2': 16, 'H8': 16, 'B8': 8, 'S2': 8, 'D1': 8}.get(arr)
                    if sz is None or idx is not None:
                        raise AsmUnsupported('load arrangement ' + ins.text)
                    sizes.append(sz)
                    total += sz
                cells = self.load_cells(base, total, pc)
                if opn == 'VLD1':
                    o = 0
                    for (n, arr, _), sz in zip(regs, sizes):
                        self.setv(n, b=cells[o:o + sz] + [0] * (16 - sz))
                        o += sz
                else:
                    if len(regs) != 4 or any(r[1] != 'S4' for r in regs):
                        raise AsmUnsupported('VLD4 arrangement ' + ins.text)
                    outs = [[None] * 16 for _ in range(4)]
                    for e in range(16):
                        outs[e % 4][4 * (e // 4):4 * (e // 4) + 4] = cells[4 * e:4 * e + 4]
                    for (n, _, _), o in zip(regs, outs):
                        self.setv(n, b=o)
            else:
                n, arr, idx = self.vspec(A[1])
                sz = {'S': 4, 'D': 8, 'B': 1, 'H': 2}.get(arr)
                if sz is None or idx is None or opn != 'VLD1':
                    raise AsmUnsupported('lane load ' + ins.text)
                cells = self.load_cells(base, sz, pc)
                cur = list(self.v[n].bytes())        # other lanes keep their content (no event: they are not used unless read)
                cur[sz * idx:sz * idx + sz] = cells
                stale = n in self.stale_vregs
                self.setv(n, b=cur)
                if stale:
                    self.partial = getattr(self, 'partial', set()) | {n}
                total = sz
            if post:
                if imm != total:
                    raise AsmUnsupported('post-increment %d differs from the transfer size %d: %s' % (imm, total, ins.text))
                self.r[base] = self.add(self.reg(base), imm)
            return None
        if opn in ('VST1', 'VST4'):
            base, imm = self.mem_operand(A[1])
            if A[0].startswith('['):
                regs = self.vlist(A[0])
                if opn == 'VST1':
                    cells = []
                    for (n, arr, idx) in regs:
                        sz = {'B16': 16, 'S4': 16, 'D2': 16, 'B8': 8, 'S2': 8, 'D1': 8}.get(arr)
                        if sz is None or idx is not None:
                            raise AsmUnsupported('store arrangement ' + ins.text)
                        cells += [cell_term(c) for c in self.use(n, pc).bytes()[:sz]]
                else:
                    if len(regs) != 4 or any(r[1] != 'S4' for r in regs):
                        raise AsmUnsupported('VST4 arrangement ' + ins.text)
                    srcs = [[cell_term(c) for c in self.use(n, pc).bytes()] for (n, _, _) in regs]
                    cells = []
                    for e in range(16):
                        cells += srcs[e % 4][4 * (e // 4):4 * (e // 4) + 4]
            else:
                n, arr, idx = self.vspec(A[0])
                sz = {'S': 4, 'D': 8, 'B': 1, 'H': 2}.get(arr)
                if sz is None or idx is None or opn != 'VST1':
                    raise AsmUnsupported('lane store ' + ins.text)
                cells = [cell_term(c) for c in self.use(n, pc).bytes()[sz * idx:sz * idx + sz]]
            self.mem_write(self.reg(base), cells, pc)
            if post:
                if imm != len(cells):
                    raise AsmUnsupported('post-increment %d differs from the transfer size %d: %s' % (imm, len(cells), ins.text))
                self.r[base] = self.add(self.reg(base), imm)
            return None
        if post:
            raise AsmUnsupported('instruction ' + ins.text)
        if op == 'VMOVI':
            m = re.match(r'^\$(\w+)$', A[0])
            n, arr, idx = self.vspec(A[1])
            if arr != 'B16' or not m:
                raise AsmUnsupported('VMOVI form ' + ins.text)
            self.setv(n, b=[int(m.group(1), 0) & 0xff] * 16)
            return None
        if op == 'VMOV':
            (s, sa, si), (d, da, di) = self.vspec(A[0]), self.vspec(A[1])
            if si is None and di is None and sa == da == 'B16':
                src = self.use(s, pc)
                self.v[d] = VReg(b=list(src.b) if src.b is not None else None, w=list(src.w) if src.w is not None else None)
                self.stale_vregs.discard(d)
                return None
            if sa == da == 'S' and si is not None and di is not None:
                w = list(self.v[d].words())
                w[di] = self.use(s, pc).words()[si]
                self.setv(d, w=w)
                return None
            raise AsmUnsupported('VMOV form ' + ins.text)
        if op == 'VDUP':
            if re.match(r'^R\d+$', A[0]):
                d, da, _ = self.vspec(A[1])
                v = self.reg(A[0])
                if da != 'D2' or not isinstance(v, int):
                    raise AsmUnsupported('VDUP form ' + ins.text)
                self.setv(d, b=_M.to_bytes(v, 8) * 2)
                return None
            (s, sa, si), (d, da, _) = self.vspec(A[0]), self.vspec(A[1])
            if sa != 'S' or si is None or da not in ('S2', 'S4'):
                raise AsmUnsupported('VDUP form ' + ins.text)
            x = self.use(s, pc).words()[si]
            self.setv(d, w=[x, x, x, x] if da == 'S4' else [x, x, 0, 0])
            return None
        if op == 'VEOR':
            (a, _, _), (b, _, _), (d, _, _) = [self.vspec(x) for x in A]
            if a == b:
                self.setv(d, b=[0] * 16)      # x ^ x: the idiom that clears a register, whatever it held
                return None
            ra, rb = self.use(a, pc), self.use(b, pc)
            if ra.w is not None and rb.w is not None or (ra.b is None or rb.b is None):
                self.setv(d, w=[_M.l_xor(x, y) for x, y in zip(ra.words(), rb.words())])
            else:
                out = []
                for x, y in zip(ra.bytes(), rb.bytes()):
                    x, y = cell_term(x), cell_term(y)
                    if isinstance(x, int) and isinstance(y, int):
                        out.append(x ^ y)
                    elif TAINT[0]:
                        out.append(SEC(8))
                    elif isinstance(x, (int, Aff)) and isinstance(y, (int, Aff)):
                        out.append(asmsym.aff_xor(x, y, 8))
                    else:
                        out.append(simp(bv(x, 8) ^ bv(y, 8)))
                self.setv(d, b=out)
            return None
        if op == 'VSUB':
            (m_, ma, _), (n_, _, _), (d, _, _) = [self.vspec(x) for x in A]
            if ma != 'B16':
                raise AsmUnsupported('VSUB arrangement ' + ins.text)
            sub = self.use(m_, pc).bytes()
            src = self.use(n_, pc).bytes()
            out = []
            for x, c in zip(src, sub):
                if isinstance(x, int) and isinstance(c, int):
                    out.append((x - c) & 0xff)
                elif TAINT[0]:
                    out.append(SEC(8))
                elif isinstance(c, int):
                    f = as_fn(x)
                    out.append(ByteFn(f.base, tuple((v - c) & 0xff for v in f.tab)))
                else:
                    raise AsmUnsupported('VSUB with a data-dependent subtrahend')
            self.setv(d, b=out)
            return None
        if op == 'VTBL':
            (m_, _, _), (d, _, _) = self.vspec(A[0]), self.vspec(A[2])
            tabs = [n for (n, arr, _) in self.vlist(A[1])]
            self.tbl(d, tabs, m_, False, pc)
            return None
        if op == 'VREV32':
            (s, sa, _), (d, _, _) = self.vspec(A[0]), self.vspec(A[1])
            if sa != 'B16':
                raise AsmUnsupported('VREV32 arrangement ' + ins.text)
            b = self.use(s, pc).bytes()
            self.setv(d, b=[b[4 * (i // 4) + 3 - (i % 4)] for i in range(16)])
            return None
        if op == 'VRBIT':
            (s, sa, _), (d, _, _) = self.vspec(A[0]), self.vspec(A[1])
            out = []
            for x in self.use(s, pc).bytes():
                x = cell_term(x)
                if isinstance(x, int):
                    out.append(RBIT_TAB[x])
                elif isinstance(x, Aff) or TAINT[0]:
                    out.append(apply_table(RBIT_TAB, x))
                else:
                    out.append(simp(z3.Concat(*[z3.Extract(i, i, x) for i in range(8)])))
            self.setv(d, b=out)
            return None
        if op == 'VEXT':
            m = re.match(r'^\$(\d+)$', A[0])
            k = int(m.group(1))
            (vm, _, _), (vn, _, _), (d, _, _) = [self.vspec(x) for x in A[1:]]
            lo, hi = self.use(vn, pc).bytes(), self.use(vm, pc).bytes()
            self.setv(d, b=(list(lo) + list(hi))[k:k + 16])
            return None
        if op in ('VSHL', 'VSRI'):
            m = re.match(r'^\$(\d+)$', A[0])
            k = int(m.group(1))
            (s, sa, _), (d, _, _) = self.vspec(A[1]), self.vspec(A[2])
            if sa != 'S4':
                raise AsmUnsupported(op + ' arrangement ' + ins.text)
            src = self.use(s, pc).words()
            if op == 'VSHL':
                out = []
                for x in src:
                    if isinstance(x, int):
                        out.append((x << k) & M32)
                    elif TAINT[0]:
                        out.append(SEC(32))
                    elif isinstance(x, Aff):
                        out.append(x.map(lambda v: (v << k) & M32, 32))
                    else:
                        out.append(simp(x << k))
                self.setv(d, w=out)
                self.v[d].shl = [(x, k) for x in src]
                return None
            old = self.use(d, pc)
            shl = old.shl
            oldw = old.words()
            out = []
            for i, x in enumerate(src):
                if shl is not None and shl[i][1] + k == 32 and (shl[i][0] is x or (isinstance(x, int) and shl[i][0] == x) or (is_sym(x) and is_sym(shl[i][0]) and x.eq(shl[i][0]))):
                    out.append(_M.l_rol(x, shl[i][1]))       # VSHL $n then VSRI $(32-n) of the same source: rotate left by n
                    continue
                keep = (~(M32 >> k)) & M32
                o = oldw[i]
                if isinstance(x, int) and isinstance(o, int):
                    out.append((o & keep) | (x >> k))
                elif TAINT[0]:
                    out.append(SEC(32))
                else:
                    out.append(simp((bv(o, 32) & keep) | z3.LShR(bv(x, 32), k)))
            self.setv(d, w=out)
            return None
        if op in ('VPMULL', 'VPMULL2'):
            (a, aa, _), (b, _, _), (d, _, _) = [self.vspec(x) for x in A]
            hi = op == 'VPMULL2'
            if aa != ('D2' if hi else 'D1'):
                raise AsmUnsupported(op + ' arrangement ' + ins.text)
            xa = [cell_term(c) for c in self.use(a, pc).bytes()[8 * hi:8 * hi + 8]]
            xb = [cell_term(c) for c in self.use(b, pc).bytes()[8 * hi:8 * hi + 8]]
            p = clmul64(_M.from_bytes(xa), _M.from_bytes(xb))
            self.setv(d, b=_M.to_bytes(p, 16))
            return None
        raise AsmUnsupported('instruction ' + ins.text)
