# gosym: a path-exploring symbolic interpreter for go/ssa (as dumped by tools/ssajson)
# over z3 terms.  See DESIGN.md section 1.2.
#
# Exploration is decision-replay DFS: a path is identified by the list of decisions
# taken at symbolic branch points; to explore the sibling of a decision the entry
# function is simply re-executed with the decision prefix.  The code under test is
# constant-time cryptography with very few data dependent branches, so re-execution is
# cheap and it removes all state-copying machinery.
import json, time, sys, os, itertools
import z3
import time

MASK = {8: 0xff, 16: 0xffff, 32: 0xffffffff, 64: 0xffffffffffffffff}


class Unsupported(Exception):
    pass


class GoPanic(Exception):
    def __init__(self, msg, kind='panic', pos=None):
        Exception.__init__(self, msg)
        self.msg = msg
        self.kind = kind
        self.pos = pos


class PathAbort(Exception):
    """current path is infeasible / cut by an assumption"""
    pass


class BoundExceeded(Exception):
    pass


class Ptr:
    __slots__ = ('obj', 'path')

    def __init__(self, obj, path=()):
        self.obj = obj
        self.path = tuple(path)

    def is_nil(self):
        return self.obj is None

    def __repr__(self):
        return 'Ptr(%r,%r)' % (self.obj, self.path)


NILPTR = Ptr(None, ())


class Slice:
    __slots__ = ('obj', 'path', 'off', 'len', 'cap')

    def __init__(self, obj, path, off, ln, cap):
        self.obj = obj
        self.path = tuple(path)
        self.off = off
        self.len = ln
        self.cap = cap

    def is_nil(self):
        return self.obj is None

    def __repr__(self):
        return 'Slice(%r,%r,off=%r,len=%r,cap=%r)' % (self.obj, self.path, self.off, self.len, self.cap)


NILSLICE = Slice(None, (), 0, 0, 0)


class Iface:
    __slots__ = ('t', 'v')

    def __init__(self, t, v):
        self.t = t
        self.v = v

    def __repr__(self):
        return 'Iface(%s,%r)' % (self.t, self.v)


class FuncVal:
    __slots__ = ('name', 'binds')

    def __init__(self, name, binds=()):
        self.name = name
        self.binds = tuple(binds)


class Big:
    """value of a math/big.Int (mathematical integer: python int or z3 Int term)"""
    __slots__ = ('v',)

    def __init__(self, v=0):
        self.v = v

    def __repr__(self):
        return 'Big(%s)' % (self.v,)


class ByteOf:
    """byte j (0 = most significant) of the W-byte big-endian encoding of integer x,
    0 <= x < 256**W.  Kept lazy so integer-level reasoning never goes through int2bv."""
    __slots__ = ('x', 'j', 'W')

    def __init__(self, x, j, W):
        self.x = x
        self.j = j
        self.W = W

    def term(self):
        if isinstance(self.x, int):
            return (self.x >> (8 * (self.W - 1 - self.j))) & 0xff
        sh = 8 * (self.W - 1 - self.j)
        return z3.Extract(sh + 7, sh, z3.Int2BV(self.x, 8 * self.W))

    def __repr__(self):
        return 'ByteOf(%s,%d,%d)' % (self.x, self.j, self.W)


class OrBytes:
    """lazy bitwise OR of bytes of big-endian encodings (the constant-time 'is it zero' idiom): decided at the
    integer level when it is finally compared with 0"""
    __slots__ = ('parts', 'const')

    def __init__(self, parts, const=0):
        self.parts = parts    # dict (id(x), W) -> (x, W, set of j)
        self.const = const

    @staticmethod
    def of(v):
        if isinstance(v, OrBytes):
            return v
        if isinstance(v, ByteOf):
            key = (v.x.get_id() if not isinstance(v.x, int) else ('c', v.x), v.W)
            return OrBytes({key: (v.x, v.W, frozenset([v.j]))})
        if isinstance(v, int):
            return OrBytes({}, v)
        return None

    def join(a, b):
        parts = dict(a.parts)
        for k, (x, W, js) in b.parts.items():
            if k in parts:
                parts[k] = (x, W, parts[k][2] | js)
            else:
                parts[k] = (x, W, js)
        return OrBytes(parts, a.const | b.const)

    def is_zero(self):
        """python bool / z3 Bool for 'the OR is zero', or None when some encoding is only partly covered"""
        if self.const != 0:
            return False
        cs = []
        for x, W, js in self.parts.values():
            if len(js) != W:
                return None
            cs.append(x == 0)
        if not cs:
            return True
        return z3.And(*cs) if len(cs) > 1 else cs[0]

    def term(self):
        t = z3.BitVecVal(self.const, 8)
        for x, W, js in self.parts.values():
            for j in sorted(js):
                t = t | tobv(ByteOf(x, j, W).term(), 8)
        return z3.simplify(t)


class Opaque:
    """opaque model object (reader stubs, hash models, ...)"""

    def __init__(self, kind, **kw):
        self.kind = kind
        self.__dict__.update(kw)


def is_sym(v):
    return isinstance(v, z3.ExprRef)


def force(v):
    """turn lazy cell values into int / z3 term"""
    if isinstance(v, (ByteOf, OrBytes)):
        return v.term()
    if hasattr(v, 'to_z3'):
        return v.to_z3()
    return v


def tobv(v, w):
    v = force(v)
    if isinstance(v, int):
        return z3.BitVecVal(v, w)
    return v


def simp(t):
    if is_sym(t):
        return z3.simplify(t)
    return t


def concrete(t):
    """return python int/bool if z3 term is a literal"""
    if isinstance(t, (int, bool)):
        return t
    if z3.is_bv_value(t):
        return t.as_long()
    if z3.is_true(t):
        return True
    if z3.is_false(t):
        return False
    if z3.is_int_value(t):
        return t.as_long()
    return None


def ubound(t):
    """cheap syntactic upper bound (unsigned) of a bit-vector term, or None"""
    if isinstance(t, int):
        return t
    if not z3.is_bv(t):
        return None
    w = t.size()
    full = (1 << w) - 1
    k = t.decl().kind()
    if z3.is_bv_value(t):
        return t.as_long()
    if k == z3.Z3_OP_ZERO_EXT:
        return ubound(t.arg(0))
    if k == z3.Z3_OP_CONCAT:
        # leading zero parts
        args = t.children()
        tot = 0
        bits = 0
        for a in reversed(args):
            pass
        hi = args[0]
        if z3.is_bv_value(hi) and hi.as_long() == 0:
            rest = args[1:]
            if len(rest) == 1:
                return ubound(rest[0])
            return (1 << sum(a.size() for a in rest)) - 1
        return full
    if k == z3.Z3_OP_BAND:
        bs = [ubound(a) for a in t.children()]
        return min(b for b in bs if b is not None)
    if k == z3.Z3_OP_BLSHR:
        a, s = t.arg(0), t.arg(1)
        if z3.is_bv_value(s):
            ua = ubound(a)
            return ua >> s.as_long()
        return ubound(a)
    if k == z3.Z3_OP_BUREM or k == z3.Z3_OP_BUREM_I:
        ub = ubound(t.arg(1))
        if ub is not None and ub > 0:
            return ub - 1
        return full
    if k == z3.Z3_OP_ITE:
        a, b = ubound(t.arg(1)), ubound(t.arg(2))
        return max(a, b)
    if k == z3.Z3_OP_EXTRACT:
        return min(full, ubound(t.arg(0)) >> t.params()[1]) if True else full
    if k == z3.Z3_OP_BOR or k == z3.Z3_OP_BXOR:
        bs = [ubound(a) for a in t.children()]
        m = max(bs)
        return (1 << m.bit_length()) - 1
    return full


def mux(idx, vals, ew=None):
    """select vals[idx] for a symbolic bit-vector idx (mux tree on the index bits).
    ew: element bit width, needed when every element is a python int"""
    n = len(vals)
    if n == 0:
        raise Unsupported('mux over empty')
    v0 = vals[0]
    if isinstance(v0, list):
        return [mux(idx, [v[i] for v in vals], ew) for i in range(len(v0))]
    if isinstance(v0, (Ptr, Slice, Iface, Big, FuncVal)):
        raise Unsupported('symbolic index over non-scalar elements')
    vals = [force(v) for v in vals]
    isbool = False
    for v in vals:
        if is_sym(v):
            if z3.is_bool(v):
                isbool = True
            else:
                ew = v.size()
            break
        if isinstance(v, bool):
            isbool = True
            break

    def lit(v):
        if is_sym(v):
            return v
        if isbool:
            return z3.BoolVal(bool(v))
        if ew is None:
            raise Unsupported('mux: element width unknown')
        return z3.BitVecVal(v, ew)

    w = idx.size()
    nbits = min(max(1, (n - 1).bit_length()), w)

    def build(lo, bit):
        if lo >= n:
            return None
        if bit < 0:
            return vals[lo]
        a = build(lo, bit - 1)
        b = build(lo + (1 << bit), bit - 1)
        if b is None:
            return a
        if not is_sym(a) and not is_sym(b) and a == b:
            return a
        c = z3.Extract(bit, bit, idx) == 1
        return z3.If(c, lit(b), lit(a))

    r = build(0, nbits - 1)
    return r


class Program:
    def __init__(self, path):
        d = json.load(open(path))
        self.funcs = d['funcs']
        self.types = d['types']
        self.globals = d['globals']
        self.inits = d['inits']
        for f in self.funcs.values():
            for b in f['blocks']:
                for i in b['instrs']:
                    if 'x' not in i:
                        i['x'] = {}
                    if 'a' not in i:
                        i['a'] = []

    def under(self, t):
        d = self.types[t]
        while d['kind'] == 'named':
            t = d['under']
            d = self.types[t]
        return d

    def kind(self, t):
        return self.under(t)['kind']

    def intinfo(self, t):
        d = self.under(t)
        if d['kind'] == 'basic' and d.get('bits'):
            return d['bits'], d.get('signed', False)
        return None


class Outcome:
    def __init__(self, kind, values=None, panic=None):
        self.kind = kind  # 'return' | 'panic'
        self.values = values
        self.panic = panic


class Engine:
    def __init__(self, prog, timeout_ms=20000):
        self.prog = prog
        self.intercepts = {}      # function name -> callable(engine, args, instr)
        self.method_models = {}   # (iface dynamic type, method) -> callable
        self.stats = dict(paths=0, instrs=0, queries=0, solver_s=0.0, unknown=0, forks=0)
        self.timeout_ms = timeout_ms
        self.max_instrs = 50_000_000
        self.loop_bound = 100000
        self.global_snapshot = None
        self.funcs_executed = set()
        self.on_phi = None     # hook(engine, fn, blockidx, prev, phi_instrs, [(name,val)]) -> new list | None
        self.on_block = None   # hook(engine, fn, blockidx, frame) -> None | ('jump', idx) | ('stop', value)
        self.check_overflow = False
        self.trace_calls = False
        self.bounds_unknown_as_panic = True
        self.nsym = 0
        self.store_log = None
        self.taint = False
        self.events = []
        self.taint_seen = {}
        self.cur_pos = ('', -1, '')
        self.debug = bool(os.environ.get('VERIF_DEBUG'))
        self.in_init = False
        self.shift_memo = {}
        self.reset_path_state()

    # ------------------------------------------------------------------ state
    def reset_path_state(self):
        self.heap = {}
        self.next_obj = 1
        self.pc = []
        self.solver = z3.Solver()
        self.solver.set('timeout', self.timeout_ms)
        self.pos = 0
        self.nsym = 0
        self.lin = None
        if getattr(self, 'abstract_ints', False):
            import intprove
            self.lin = intprove.Linearizer()
        self.gobj = {}
        self.path_log = []
        self.taint_seen = {}
        if hasattr(self, 'mod_memo'):
            self.mod_memo = {}
        for h in getattr(self, 'path_reset_hooks', []):
            h(self)

    def fresh_bv(self, name, w):
        self.nsym += 1
        return z3.BitVec('%s!%d' % (name, self.nsym), w)

    def fresh_int(self, name):
        self.nsym += 1
        return z3.Int('%s!%d' % (name, self.nsym))

    def fresh_bool(self, name):
        self.nsym += 1
        return z3.Bool('%s!%d' % (name, self.nsym))

    def new_obj(self, val, t=None):
        oid = self.next_obj
        self.next_obj += 1
        self.heap[oid] = [val, t]
        return oid

    def copyval(self, v):
        if isinstance(v, list):
            return [self.copyval(x) for x in v]
        if isinstance(v, Big):
            return Big(v.v)
        return v

    # ------------------------------------------------------------------ solver
    def assume(self, c):
        if isinstance(c, bool):
            if not c:
                raise PathAbort()
            return
        self.pc.append(c)
        self.solver.add(self.lin.abstract(c) if self.lin is not None else c)
        if hasattr(self, 'big_bounds'):
            self.note_bounds(c, True)

    def note_bounds(self, c, pos):
        """syntactic interval propagation for integer symbols (x <= c, x >= c, negations, conjunctions)"""
        k = c.decl().kind()
        if k == z3.Z3_OP_AND and pos:
            for ch in c.children():
                self.note_bounds(ch, True)
            return
        if k == z3.Z3_OP_OR and not pos:
            for ch in c.children():
                self.note_bounds(ch, False)
            return
        if k == z3.Z3_OP_NOT:
            self.note_bounds(c.arg(0), not pos)
            return
        if k in (z3.Z3_OP_LE, z3.Z3_OP_GE, z3.Z3_OP_LT, z3.Z3_OP_GT) and z3.is_int(c.arg(0)):
            a, b = c.arg(0), c.arg(1)
            op = {z3.Z3_OP_LE: '<=', z3.Z3_OP_GE: '>=', z3.Z3_OP_LT: '<', z3.Z3_OP_GT: '>'}[k]
            if z3.is_int_value(a) and not z3.is_int_value(b):
                a, b = b, a
                op = {'<=': '>=', '>=': '<=', '<': '>', '>': '<'}[op]
            if not z3.is_int_value(b) or z3.is_int_value(a):
                return
            if not pos:
                op = {'<=': '>', '>=': '<', '<': '>=', '>': '<='}[op]
            cv = b.as_long()
            key = ('t', a.get_id())
            lo, hi = (self.big_bounds.get(key) or (None, None, a))[:2]
            if op == '<=':
                hi = cv if hi is None else min(hi, cv)
            elif op == '<':
                hi = cv - 1 if hi is None else min(hi, cv - 1)
            elif op == '>=':
                lo = cv if lo is None else max(lo, cv)
            else:
                lo = cv + 1 if lo is None else max(lo, cv + 1)
            self.big_bounds[key] = (lo, hi, a)

    def use_linear_abstraction(self):
        """path feasibility is decided on the linear abstraction of the path condition (non-linear integer
        monomials become free variables): unsat stays sound, sat may be spurious (an infeasible path is then
        explored needlessly; counterexamples always come from the exact query in intprove and a replay)"""
        self.abstract_ints = True

    def check(self, *extra):
        t0 = time.time()
        if getattr(self, 'deadline', None) is not None and t0 > self.deadline and not getattr(self, 'in_init', False):
            self.budget_hit = (getattr(self, 'budget_hit', 0) or 0) + 1
            raise PathAbort()      # time budget used up inside a path: end it; explore() then stops and reports the rest as unexplored
        self.stats['queries'] += 1
        if self.lin is not None:
            extra = [self.lin.abstract(x) for x in extra]
        r = self.solver.check(*extra)
        if self.debug and time.time() - t0 > 0.3:
            print('  [slow query %.1fs -> %s] %s' % (time.time() - t0, r, str(extra)[:200].replace('\n', ' ')), file=sys.stderr, flush=True)
        self.stats['solver_s'] += time.time() - t0
        if r == z3.unknown:
            self.stats['unknown'] += 1
        return r

    def feasible(self, c):
        r = self.check(c)
        return r != z3.unsat

    def prove(self, claim):
        """returns ('proved',None) | ('cex', model) | ('unknown', reason)"""
        if isinstance(claim, bool):
            if claim:
                return ('proved', None)
            r = self.check()
            if r == z3.sat:
                return ('cex', self.solver.model())
            if r == z3.unsat:
                return ('proved', None)
            return ('unknown', self.solver.reason_unknown())
        if self.lin is not None:
            return self.prove_i(claim)
        r = self.check(z3.Not(claim))
        if r == z3.unsat:
            return ('proved', None)
        if r == z3.sat:
            return ('cex', self.solver.model())
        return ('unknown', self.solver.reason_unknown())

    def prove_i(self, claim, scale=1):
        """integer-level obligation: NIA for counterexamples, linear abstraction for proofs"""
        import intprove
        return intprove.prove_int(self.pc, claim, stats=self.stats, scale=scale)

    # ---- taint mode (property C08): every value derived from a symbolic (secret) input collapses to one opaque
    # symbol per width; a branch or an index on such a value is recorded as an event
    def sec(self, t):
        ii = self.prog.intinfo(t) if t else None
        if ii:
            return z3.BitVec('secret%d' % ii[0], ii[0])
        return z3.Bool('secret_bool')

    def taint_event(self, kind, detail=''):
        fr = self.cur_pos
        self.events.append((kind, fr[0], fr[1], fr[2], detail))

    def branch(self, cond):
        """decide a branch; returns python bool; forks via the decision worklist"""
        if isinstance(cond, bool):
            return cond
        if self.taint:
            self.taint_event('symbranch')
            key = ('b',) + tuple(self.cur_pos[:2])
            n = self.taint_seen.get(key, 0)
            self.taint_seen[key] = n + 1
            if n >= 2:
                return False       # the position is already reported; do not multiply paths
            return bool(self.choose(2, 'taint-branch'))
        cond = z3.simplify(cond)
        if z3.is_true(cond):
            return True
        if z3.is_false(cond):
            return False
        if self.pos < len(self.trace):
            d = self.trace[self.pos]
            self.pos += 1
            self.assume(cond if d else z3.Not(cond))
            return bool(d)
        t_ok = self.feasible(cond)
        f_ok = self.feasible(z3.Not(cond))
        if t_ok and f_ok:
            self.worklist.append(self.trace[:self.pos] + [0])
            self.stats['forks'] += 1
            d = 1
        elif t_ok:
            d = 1
        elif f_ok:
            d = 0
        else:
            raise PathAbort()
        self.trace.append(d)
        self.pos += 1
        self.assume(cond if d else z3.Not(cond))
        return bool(d)

    def choose(self, n, label=''):
        """nondeterministic choice among n alternatives (all explored)"""
        if self.pos < len(self.trace):
            d = self.trace[self.pos]
            self.pos += 1
            return d
        for alt in range(n - 1, 0, -1):
            self.worklist.append(self.trace[:self.pos] + [alt])
        self.stats['forks'] += n - 1
        self.trace.append(0)
        self.pos += 1
        return 0

    # ------------------------------------------------------------------ exploration
    def explore(self, run, max_paths=100000):
        """run(engine) executes one path (setup + call + checks). It is re-run per path."""
        self.worklist = [[]]
        results = []
        while self.worklist:
            if self.stats['paths'] >= max_paths:
                raise BoundExceeded('max_paths')
            if getattr(self, 'deadline', None) is not None and time.time() > self.deadline:
                self.budget_hit = (getattr(self, 'budget_hit', 0) or 0) + len(self.worklist)      # paths left unexplored: the caller reports the reduced coverage
                break
            self.trace = list(self.worklist.pop())
            self.reset_path_state()
            self.init_globals()
            try:
                r = run(self)
                results.append(r)
                self.stats['paths'] += 1
            except PathAbort:
                pass
        return results

    def call_outcome(self, fname, args):
        try:
            vals = self.call(fname, args)
            return Outcome('return', vals)
        except GoPanic as p:
            return Outcome('panic', panic=p)

    # ------------------------------------------------------------------ globals
    def init_globals(self):
        if self.global_snapshot is None:
            self.heap = {}
            self.next_obj = 1
            self.gobj = {}
            for name, g in self.prog.globals.items():
                et = self.prog.types[g['t']]['elem']
                self.gobj[name] = self.new_obj(self.zero(et), et)
            self.in_init = True
            for ini in self.prog.inits:
                if ini in self.prog.funcs:
                    self.call(ini, [])
            self.in_init = False
            self.global_snapshot = ({k: [self.copyval(v[0]), v[1]] for k, v in self.heap.items()},
                                    dict(self.gobj), self.next_obj)
            self.stats['init_instrs'] = self.stats['instrs']
        snap, gobj, nxt = self.global_snapshot
        self.heap = {k: [self.copyval(v[0]), v[1]] for k, v in snap.items()}
        self.gobj = dict(gobj)
        self.next_obj = nxt

    def global_ptr(self, name):
        return Ptr(self.gobj[name], ())

    # ------------------------------------------------------------------ types / zero values
    def zero(self, t):
        if t == 'math/big.Int':
            return Big(0)
        d = self.prog.types[t]
        k = d['kind']
        if k == 'named':
            return self.zero(d['under'])
        if k == 'basic':
            n = d['name']
            if n == 'bool':
                return False
            if n == 'string':
                return ''
            if n == 'float':
                return 0.0
            if n == 'unsafeptr':
                return NILPTR
            return 0
        if k == 'pointer':
            return NILPTR
        if k == 'slice':
            return NILSLICE
        if k == 'array':
            n = d.get('len', 0)
            et = d['elem']
            if self.prog.kind(et) == 'basic':
                z = self.zero(et)
                return [z] * n
            return [self.zero(et) for _ in range(n)]
        if k == 'struct':
            return [self.zero(f['t']) for f in d.get('fields', [])]
        if k in ('interface', 'signature', 'map', 'chan'):
            return None
        if k == 'tuple':
            return tuple(self.zero(e) for e in d['elems'])
        raise Unsupported('zero value of ' + t)

    # ------------------------------------------------------------------ memory
    def _nav(self, val, path):
        for p in path:
            val = val[p]
        return val

    def load(self, ptr, ew=None):
        if ptr.obj is None:
            raise GoPanic('nil pointer dereference', 'nil')
        o = self.heap[ptr.obj]
        v = o[0]
        path = ptr.path
        for i, p in enumerate(path):
            if is_sym(p):
                if getattr(self, 'sym_ptr_hook', None) is not None and v and isinstance(v[0], Ptr) and i == len(path) - 1:
                    return self.sym_ptr_hook(self, ptr.obj, path[:i], p, v)
                elems = [self._load_rest(e, path[i + 1:], ew) for e in v]
                return mux(p, elems, ew)
            if not isinstance(v, (list, tuple)):
                # the code looks inside a value the harness keeps abstract (e.g. the coordinates of an abstract point)
                raise Unsupported('load of a component of an abstract value (%s)' % type(v).__name__)
            v = v[p]
        return self.copyval(v)

    def _load_rest(self, v, path, ew=None):
        for i, p in enumerate(path):
            if is_sym(p):
                elems = [self._load_rest(e, path[i + 1:], ew) for e in v]
                return mux(p, elems, ew)
            v = v[p]
        return self.copyval(v)

    def store(self, ptr, val):
        if ptr.obj is None:
            raise GoPanic('nil pointer dereference', 'nil')
        if self.store_log is not None:
            self.store_log.add(ptr.obj)
        val = self.copyval(val)
        o = self.heap[ptr.obj]
        path = ptr.path
        if len(path) == 0:
            o[0] = val
            return
        self._store_into(o, 0, path, val, None)

    def _store_into(self, container, key, path, val, guard):
        # container[key] is the aggregate in which path is resolved
        cur = container[key]
        p = path[0]
        if is_sym(p):
            n = len(cur)
            w = p.size()
            for j in range(n):
                g = (p == z3.BitVecVal(j, w))
                g2 = g if guard is None else z3.And(guard, g)
                if len(path) == 1:
                    cur[j] = self._ite(g2, val, cur[j])
                else:
                    self._store_into(cur, j, path[1:], val, g2)
            return
        if len(path) == 1:
            if guard is None:
                cur[p] = val
            else:
                cur[p] = self._ite(guard, val, cur[p])
            return
        self._store_into(cur, p, path[1:], val, guard)

    def _ite(self, g, a, b):
        if isinstance(a, list):
            return [self._ite(g, x, y) for x, y in zip(a, b)]
        a = force(a)
        b = force(b)
        if not is_sym(a) and not is_sym(b) and a == b:
            return a
        if isinstance(a, bool) or isinstance(b, bool) or (is_sym(a) and z3.is_bool(a)):
            a = z3.BoolVal(a) if isinstance(a, bool) else a
            b = z3.BoolVal(b) if isinstance(b, bool) else b
            return z3.If(g, a, b)
        if isinstance(a, (Ptr, Slice, Iface, Big)) or isinstance(b, (Ptr, Slice, Iface, Big)):
            raise Unsupported('conditional store of non scalar')
        w = a.size() if is_sym(a) else b.size()
        return z3.If(g, tobv(a, w), tobv(b, w))

    # slices
    def slice_elems_ptr(self, s, i):
        """pointer to element i of slice s (i python int or z3 BV64)"""
        idx = self.addint(s.off, i)
        return Ptr(s.obj, s.path + (idx,))

    def addint(self, a, b):
        if isinstance(a, int) and isinstance(b, int):
            return a + b
        r = z3.simplify(tobv(a, 64) + tobv(b, 64))
        c = concrete(r)
        return c if c is not None else r

    def subint(self, a, b):
        if isinstance(a, int) and isinstance(b, int):
            return a - b
        r = z3.simplify(tobv(a, 64) - tobv(b, 64))
        c = concrete(r)
        return c if c is not None else r

    def slice_get(self, s, i):
        return self.load(self.slice_elems_ptr(s, i))

    def slice_set(self, s, i, v):
        self.store(self.slice_elems_ptr(s, i), v)

    def slice_list(self, s):
        """python list of element values (concrete off/len)"""
        if s.obj is None:
            return []
        if not isinstance(s.off, int) or not isinstance(s.len, int):
            raise Unsupported('slice_list with symbolic bounds')
        arr = self._nav(self.heap[s.obj][0], s.path)
        return [self.copyval(x) for x in arr[s.off:s.off + s.len]]

    def new_slice(self, vals, t='uint8'):
        vals = list(vals)
        oid = self.new_obj(vals, ('array', t, len(vals)))
        return Slice(oid, (), 0, len(vals), len(vals))

    def bounds_check(self, ok, what, pos=None):
        """ok: python bool or z3 Bool meaning 'in range'. Forks a panic path if it can fail."""
        if isinstance(ok, bool):
            if not ok:
                raise GoPanic('runtime error: ' + what, 'bounds', pos)
            return
        if not self.branch(ok):
            raise GoPanic('runtime error: ' + what, 'bounds', pos)

    def in_range(self, i, n, signed_i=True, inclusive=False):
        """condition 0 <= i < n (or <= n) for int values (python ints or BV64, signed)"""
        if isinstance(i, int) and isinstance(n, int):
            if i >= (1 << 63):
                return False
            return (i <= n) if inclusive else (i < n)
        if isinstance(n, int):
            ub = ubound(i)
            if ub is not None and (ub < n or (inclusive and ub <= n)):
                return True
        a = tobv(i, 64)
        b = tobv(n, 64)
        # both nonneg as signed: unsigned compare handles negative i (huge)
        c = z3.ULE(a, b) if inclusive else z3.ULT(a, b)
        if not isinstance(n, int):
            c = z3.And(c, b >= 0)
        return z3.simplify(c)

    # ------------------------------------------------------------------ calls
    def call(self, fname, args):
        if fname in self.intercepts:
            return self.intercepts[fname](self, args, None)
        f = self.prog.funcs.get(fname)
        if f is None:
            if fname.endswith('.init'):
                return None
            raise Unsupported('call to undumped function ' + fname)
        if f['external']:
            raise Unsupported('call to external (assembly) function ' + fname)
        return self.exec_func(f, args, ())

    def exec_func(self, f, args, binds):
        self.funcs_executed.add(f['name'])
        if self.trace_calls:
            print('CALL', f['name'], file=sys.stderr)
        env = {}
        for p, a in zip(f['params'], args):
            env[p['n']] = a
        for p, a in zip(f['freevars'] if 'freevars' in f else [], binds):
            env[p['n']] = a
        blocks = f['blocks']
        bi = 0
        prev = -1
        visits = {}
        frame = {'env': env, 'fn': f}
        if getattr(self, 'iv_mode', None) is not None:
            self.iv_mode.cur_func = f
        while True:
            b = blocks[bi]
            if self.on_block is not None:
                act = self.on_block(self, f, bi, prev, frame)
                if act is not None:
                    if act[0] == 'stop':
                        return act[1]
                    if act[0] == 'jump':
                        prev, bi = bi, act[1]
                        continue
            visits[bi] = visits.get(bi, 0) + 1
            if visits[bi] > self.loop_bound:
                raise BoundExceeded('loop bound in %s block %d' % (f['name'], bi))
            instrs = b['instrs']
            # phis evaluated simultaneously
            k = 0
            if instrs and instrs[0]['op'] == 'Phi':
                pi = b['preds'].index(prev)
                newvals = []
                while k < len(instrs) and instrs[k]['op'] == 'Phi':
                    newvals.append((instrs[k]['name'], self.val(env, instrs[k]['a'][pi])))
                    k += 1
                if self.on_phi is not None:
                    newvals = self.on_phi(self, f, bi, prev, instrs[:k], newvals, env) or newvals
                for n, v in newvals:
                    env[n] = v
            self.stats['instrs'] += len(instrs)
            if self.stats['instrs'] > self.max_instrs:
                raise BoundExceeded('instruction budget')
            nxt = None
            for ins in instrs[k:]:
                op = ins['op']
                if self.taint:
                    self.cur_pos = (f['name'], bi, ins.get('pos') or self.cur_pos[2] if self.cur_pos[0] == f['name'] else (ins.get('pos') or ''))
                if op == 'If':
                    c = self.val(env, ins['a'][0])
                    t = self.branch(c)
                    nxt = b['succs'][0] if t else b['succs'][1]
                    break
                if op == 'Jump':
                    nxt = b['succs'][0]
                    break
                if op == 'Return':
                    vals = [self.val(env, a) for a in ins['a']]
                    if len(vals) == 1:
                        return vals[0]
                    return tuple(vals)
                if op == 'Panic':
                    v = self.val(env, ins['a'][0])
                    msg = v.v if isinstance(v, Iface) else v
                    raise GoPanic(str(msg), 'explicit', ins.get('pos'))
                try:
                    r = self.step(env, ins, f)
                except GoPanic as gp:
                    if gp.pos is None:
                        gp.pos = ins.get('pos')
                    raise
                if 'name' in ins:
                    env[ins['name']] = r
                if op == 'Call' and getattr(self, 'iv_mode', None) is not None:
                    self.iv_mode.cur_func = f
            prev, bi = bi, nxt

    def val(self, env, a):
        k = a['k']
        if k == 'reg':
            return env[a['n']]
        if k == 'const':
            return self.const(a)
        if k == 'global':
            return Ptr(self.gobj[a['n']], ())
        if k == 'func':
            return FuncVal(a['n'])
        if k == 'builtin':
            return ('builtin', a['n'])
        if k == 'none':
            return None
        raise Unsupported('value kind ' + k)

    def const(self, a):
        v = a['v']
        t = a['t']
        d = self.prog.under(t)
        k = d['kind']
        if v == 'nil':
            return self.zero(t)
        if k == 'basic':
            if d['name'] == 'bool':
                return v == 'true'
            if d['name'] == 'string':
                return v[2:]
            if d['name'] == 'float':
                s = v[2:]
                if '/' in s:
                    p, q = s.split('/')
                    return int(p) / int(q)
                return float(s)
            bits = d.get('bits', 64)
            return int(v) & ((1 << bits) - 1)
        raise Unsupported('const of type ' + t)

    # ------------------------------------------------------------------ instruction semantics
    def step(self, env, ins, f):
        op = ins['op']
        A = ins['a']
        X = ins['x']
        if op == 'BinOp':
            return self.binop(X['op'], self.val(env, A[0]), self.val(env, A[1]), A[0]['t'] if 't' in A[0] else None, A[1].get('t'), ins['t'])
        if op == 'UnOp':
            return self.unop(X['op'], self.val(env, A[0]), A[0].get('t'), ins)
        if op == 'Call':
            return self.do_call(env, ins)
        if op == 'Alloc':
            et = self.prog.types[ins['t']]['elem']
            return Ptr(self.new_obj(self.zero(et), et), ())
        if op == 'FieldAddr':
            p = self.val(env, A[0])
            if p.obj is None:
                raise GoPanic('nil pointer dereference', 'nil')
            return Ptr(p.obj, p.path + (X['field'],))
        if op == 'Field':
            s = self.val(env, A[0])
            return self.copyval(s[X['field']])
        if op == 'IndexAddr':
            base = self.val(env, A[0])
            idx = self.val(env, A[1])
            idx = self.index_to_int(idx, A[1]['t'])
            if self.taint and is_sym(idx):
                self.taint_event('symindex')
                idx = 0
            if isinstance(base, Slice):
                self.bounds_check(self.in_range(idx, base.len), 'index out of range', ins.get('pos'))
                return self.slice_elems_ptr(base, idx)
            # pointer to array
            if base.obj is None:
                raise GoPanic('nil pointer dereference', 'nil')
            n = self.prog.under(self.prog.under(A[0]['t'])['elem']).get('len', 0)
            self.bounds_check(self.in_range(idx, n), 'index out of range', ins.get('pos'))
            return Ptr(base.obj, base.path + (idx,))
        if op == 'Index':
            arr = self.val(env, A[0])
            idx = self.index_to_int(self.val(env, A[1]), A[1]['t'])
            if self.taint and is_sym(idx):
                self.taint_event('symindex')
                idx = 0
            if isinstance(arr, str):
                return ord(arr[idx]) if False else arr.encode('latin-1')[idx]
            self.bounds_check(self.in_range(idx, len(arr)), 'index out of range', ins.get('pos'))
            if is_sym(idx):
                ii = self.prog.intinfo(ins['t'])
                return mux(idx, arr, ii[0] if ii else None)
            return self.copyval(arr[idx])
        if op == 'Store':
            p = self.val(env, A[0])
            v = self.val(env, A[1])
            self.store(p, v)
            return None
        if op == 'Slice':
            return self.do_slice(env, ins)
        if op == 'Extract':
            t = self.val(env, A[0])
            return t[X['index']]
        if op == 'Convert':
            return self.convert(self.val(env, A[0]), A[0]['t'], ins['t'])
        if op == 'ChangeType':
            return self.val(env, A[0])
        if op == 'ChangeInterface':
            return self.val(env, A[0])
        if op == 'MakeInterface':
            v = self.val(env, A[0])
            return Iface(A[0]['t'], v)
        if op == 'TypeAssert':
            return self.type_assert(self.val(env, A[0]), X, ins)
        if op == 'MakeSlice':
            ln = self.val(env, A[0])
            cp = self.val(env, A[1])
            if not isinstance(ln, int) or not isinstance(cp, int):
                raise Unsupported('make with symbolic length')
            if ln >= (1 << 63) or cp < ln:
                raise GoPanic('makeslice: len out of range', 'bounds')
            et = self.prog.under(ins['t'])['elem']
            if self.prog.kind(et) == 'basic':
                vals = [self.zero(et)] * cp
            else:
                vals = [self.zero(et) for _ in range(cp)]
            oid = self.new_obj(vals, ('array', et, cp))
            return Slice(oid, (), 0, ln, cp)
        if op == 'MakeClosure':
            fn = self.val(env, A[0])
            return FuncVal(fn.name, [self.val(env, a) for a in A[1:]])
        if op == 'SliceToArrayPointer':
            s = self.val(env, A[0])
            n = self.prog.under(self.prog.under(ins['t'])['elem']).get('len', 0)
            if not isinstance(s.len, int):
                raise Unsupported('slice to array pointer with symbolic len')
            if s.len < n:
                raise GoPanic('cannot convert slice with length %d to array or pointer to array with length %d' % (s.len, n), 'bounds')
            if s.obj is None:
                return NILPTR
            if s.off != 0:
                raise Unsupported('slice-to-array-pointer at offset')
            arr = self._nav(self.heap[s.obj][0], s.path)
            if len(arr) != n:
                raise Unsupported('slice-to-array-pointer of sub-array')
            return Ptr(s.obj, s.path)
        if op == 'MakeMap':
            return Ptr(self.new_obj({}, 'map'), ())
        if op in ('RunDefers',):
            return None
        if op == 'Defer':
            raise Unsupported('defer')
        raise Unsupported('instruction ' + op)

    def index_to_int(self, idx, t):
        """normalise an index value of integer type t to a 64-bit int value"""
        info = self.prog.intinfo(t)
        if info is None:
            return idx
        bits, signed = info
        idx = force(idx)
        if bits == 64:
            return idx
        if isinstance(idx, int):
            if signed and idx >> (bits - 1):
                return (idx - (1 << bits)) & MASK[64]
            return idx
        return z3.SignExt(64 - bits, idx) if signed else z3.ZeroExt(64 - bits, idx)

    def do_slice(self, env, ins):
        A = ins['a']
        base = self.val(env, A[0])
        lo = self.val(env, A[1]) if A[1]['k'] != 'none' else None
        hi = self.val(env, A[2]) if A[2]['k'] != 'none' else None
        mx = self.val(env, A[3]) if A[3]['k'] != 'none' else None
        pos = ins.get('pos')
        if isinstance(base, str):
            lo = 0 if lo is None else lo
            hi = len(base) if hi is None else hi
            return base[lo:hi]
        if isinstance(base, Ptr):
            # pointer to array
            if base.obj is None:
                raise GoPanic('nil pointer dereference', 'nil')
            n = self.prog.under(self.prog.under(A[0]['t'])['elem']).get('len', 0)
            obj, path, off, ln, cp = base.obj, base.path, 0, n, n
        else:
            obj, path, off, ln, cp = base.obj, base.path, base.off, base.len, base.cap
        if lo is None:
            lo = 0
        if hi is None:
            hi = ln
        if mx is None:
            mx = cp
        if self.taint and (is_sym(lo) or is_sym(hi) or is_sym(mx)):
            self.taint_event('symslice')
            lo, hi, mx = (0 if is_sym(lo) else lo), (ln if is_sym(hi) else hi), (cp if is_sym(mx) else mx)
        # checks: 0 <= lo <= hi <= max <= cap
        self.bounds_check(self.in_range(mx, cp, inclusive=True), 'slice bounds out of range [::%s] with capacity %s' % (mx, cp), pos)
        self.bounds_check(self.in_range(hi, mx, inclusive=True), 'slice bounds out of range [:%s] with capacity %s' % (hi, mx), pos)
        self.bounds_check(self.in_range(lo, hi, inclusive=True), 'slice bounds out of range [%s:%s]' % (lo, hi), pos)
        if obj is None:
            return NILSLICE
        return Slice(obj, path, self.addint(off, lo), self.subint(hi, lo), self.subint(mx, lo))

    def type_assert(self, v, X, ins):
        ok = False
        if v is not None and isinstance(v, Iface):
            if X['iface']:
                d = self.prog.types.get(v.t)
                ms = (d or {}).get('methods') or {}
                ok = all(m in ms or (v.t, m) in self.method_models for m in X['methods'])
            else:
                ok = (v.t == X['asserted'])
        if X['commaok']:
            if ok:
                return (v if X['iface'] else v.v, True)
            return (self.zero(X['asserted']), False)
        if not ok:
            raise GoPanic('interface conversion failed', 'typeassert')
        return v if X['iface'] else v.v

    def do_call(self, env, ins):
        A = ins['a']
        X = ins['x']
        fn = A[0]
        args = [self.val(env, a) for a in A[1:]]
        if 'invoke' in X:
            recv = self.val(env, fn)
            if recv is None:
                raise GoPanic('nil pointer dereference (nil interface)', 'nil')
            key = (recv.t, X['invoke'])
            if key in self.method_models:
                return self.method_models[key](self, [recv.v] + args, ins)
            d = self.prog.types.get(recv.t)
            if d is None or not d.get('methods') or X['invoke'] not in d['methods']:
                raise Unsupported('invoke %s on %s' % (X['invoke'], recv.t))
            return self.call(d['methods'][X['invoke']], [recv.v] + args)
        if fn['k'] == 'builtin':
            return self.builtin(fn['n'], args, A[1:], ins)
        if fn['k'] == 'func':
            name = fn['n']
            if name in self.intercepts:
                return self.intercepts[name](self, args, ins)
            return self.call(name, args)
        fv = self.val(env, fn)
        if isinstance(fv, FuncVal):
            if fv.name in self.intercepts:
                return self.intercepts[fv.name](self, args, ins)
            f = self.prog.funcs.get(fv.name)
            if f is None or f['external']:
                raise Unsupported('dynamic call to ' + fv.name)
            return self.exec_func(f, args, fv.binds)
        raise Unsupported('call through ' + repr(fv))

    def builtin(self, name, args, A, ins):
        if name == 'len':
            v = args[0]
            if isinstance(v, Slice):
                return v.len
            if isinstance(v, str):
                return len(v.encode('latin-1')) if False else len(v.encode('utf-8'))
            if isinstance(v, list):
                return len(v)
            if isinstance(v, Ptr) and self.heap.get(v.obj, [None, None])[1] == 'map':
                return len(self.heap[v.obj][0])
            raise Unsupported('len of %r' % (v,))
        if name == 'cap':
            v = args[0]
            if isinstance(v, Slice):
                return v.cap
            if isinstance(v, list):
                return len(v)
            raise Unsupported('cap')
        if name == 'copy':
            dst, src = args
            if isinstance(src, str):
                src = self.new_slice(list(src.encode('utf-8')))
            return self.do_copy(dst, src)
        if name == 'append':
            return self.do_append(args[0], args[1], A[0]['t'])
        if name in ('print', 'println'):
            return None
        if name == 'min' or name == 'max':
            raise Unsupported(name)
        raise Unsupported('builtin ' + name)

    def do_copy(self, dst, src):
        n = self.min_int(dst.len, src.len)
        if self.store_log is not None and dst.obj is not None and not (isinstance(n, int) and n == 0):
            self.store_log.add(dst.obj)
        if isinstance(n, int) and isinstance(dst.off, int) and isinstance(src.off, int):
            if n == 0:
                return 0
            sarr = self._nav(self.heap[src.obj][0], src.path)
            vals = [self.copyval(x) for x in sarr[src.off:src.off + n]]
            darr = self._nav(self.heap[dst.obj][0], dst.path)
            darr[dst.off:dst.off + n] = vals
            return n
        return self.sym_copy(dst, src, n)

    def sym_copy(self, dst, src, n):
        """copy with symbolic offsets / count: dst[dstoff+i] = src[srcoff+i] for i<n"""
        darr = self._nav(self.heap[dst.obj][0], dst.path)
        sarr = self._nav(self.heap[src.obj][0], src.path)
        sv = [self.copyval(x) for x in sarr]
        doff = tobv(dst.off, 64)
        soff = tobv(src.off, 64)
        nn = tobv(n, 64)
        same = z3.is_true(z3.simplify(doff == soff))
        if self.debug and not same:
            print('  [sym_copy general path] dst.off=%s src.off=%s n=%s tag=%s' % (dst.off, src.off, n, str(self.heap[src.obj][1])[:80]), file=sys.stderr, flush=True)
        tag = self.heap[src.obj][1]
        D = len(darr)
        if isinstance(tag, tuple) and tag[0] == 'bigbytes' \
                and z3.is_true(z3.simplify(z3.And(nn == tag[3], soff == z3.BitVecVal(tag[2], 64) - tag[3],
                                                   doff == z3.BitVecVal(D, 64) - tag[3]))) \
                and all(isinstance(c, int) and c == 0 for c in darr):
            # left-padding idiom: the L significant bytes of x are copied to the last L positions of a zeroed
            # D-byte buffer (the slice expression already established L <= D on this path), so the buffer now
            # holds the D-byte big-endian encoding of x
            for j in range(D):
                darr[j] = ByteOf(tag[1], j, D)
            return n
        if isinstance(tag, tuple) and tag[0] == 'bigbytes' and concrete(z3.simplify(nn)) is None:
            # a big.Int encoding of data-dependent length copied in some other way than the left-padding idiom: a late
            # case split on the byte length (W, W-1, W-2, 1, 0 are explored; other lengths are cut - a stated bound)
            # keeps offsets and counts concrete instead of producing byte-level muxes over mixed Int/BV terms
            W_, Lb = tag[2], tag[3]
            Ls = [L_ for L_ in (W_, W_ - 1, W_ - 2, 1, 0) if 0 <= L_ <= W_]
            L_ = Ls[self.choose(len(Ls), 'byteslen-late')]
            self.assume(Lb == z3.BitVecVal(L_, 64))
            if not self.feasible(z3.BoolVal(True)):
                raise PathAbort()
            self.stats['late_length_splits'] = self.stats.get('late_length_splits', 0) + 1
            subst = lambda t: concrete(z3.simplify(z3.substitute(tobv(t, 64), (Lb, z3.BitVecVal(L_, 64)))))
            d0, s0, n0 = subst(dst.off), subst(src.off), subst(n)
            if d0 is None or s0 is None or n0 is None:
                raise Unsupported('copy of a variable-length big.Int encoding with offsets that do not depend on its length only')
            for i in range(n0):
                if d0 + i < len(darr) and s0 + i < len(sv):
                    darr[d0 + i] = sv[s0 + i]
            return n0
        for j in range(len(darr)):
            jj = z3.BitVecVal(j, 64)
            inr = z3.simplify(z3.And(z3.ULE(doff, jj), z3.ULT(jj - doff, nn)))
            if z3.is_false(inr):
                continue
            if same:
                if j >= len(sv):
                    continue
                val = sv[j]
            else:
                sidx = z3.simplify(jj - doff + soff)
                c = concrete(sidx)
                if c is not None:
                    if c >= len(sv):
                        continue
                    val = sv[c]
                else:
                    val = mux(z3.Extract(max(0, (len(sv) - 1).bit_length() - 1), 0, sidx) if len(sv) > 1 else sidx, sv, 8)
            if z3.is_true(inr):
                darr[j] = val
            else:
                darr[j] = self._ite(inr, val, darr[j])
        return n

    def min_int(self, a, b):
        if isinstance(a, int) and isinstance(b, int):
            return min(a, b)
        a2, b2 = tobv(a, 64), tobv(b, 64)
        r = z3.simplify(z3.If(a2 < b2, a2, b2))
        c = concrete(r)
        return c if c is not None else r

    def do_append(self, s, more, t):
        if more is None or (isinstance(more, Slice) and more.obj is None and isinstance(more.len, int) and more.len == 0):
            return s
        if isinstance(more, str):
            more = self.new_slice(list(more.encode('utf-8')))
        if not (isinstance(s.len, int) and isinstance(s.cap, int) and isinstance(more.len, int)):
            raise Unsupported('append with symbolic lengths')
        need = s.len + more.len
        if more.len == 0:
            return s
        if s.obj is not None and need <= s.cap:
            r = Slice(s.obj, s.path, s.off, need, s.cap)
            self.do_copy(Slice(s.obj, s.path, self.addint(s.off, s.len), more.len, more.len), more)
            return r
        # grow: fresh backing array with cap == need (capacity growth policy is not relied on)
        et = self.prog.under(t)['elem']
        vals = self.slice_list(s) + self.slice_list(more)
        oid = self.new_obj(vals, ('array', et, need))
        return Slice(oid, (), 0, need, need)

    # ------------------------------------------------------------------ arithmetic
    def binop(self, op, a, b, ta, tb, tr):
        if self.taint and (is_sym(a) or is_sym(b)):
            return self.sec(tr if self.prog.intinfo(tr) else None)
        if getattr(a, '_is_iv', False) or getattr(b, '_is_iv', False):
            return self.iv_mode.binop(op, a, b, tr)
        if isinstance(a, (ByteOf, OrBytes)) or isinstance(b, (ByteOf, OrBytes)):
            if op == '|':
                oa, ob = OrBytes.of(a), OrBytes.of(b)
                if oa is not None and ob is not None:
                    return oa.join(ob)
            if op in ('==', '!='):
                oa, ob = OrBytes.of(a), OrBytes.of(b)
                if oa is not None and ob is not None and (oa.parts == {} and oa.const == 0 or ob.parts == {} and ob.const == 0):
                    z = (ob if oa.parts == {} and oa.const == 0 else oa).is_zero()
                    if z is not None:
                        if isinstance(z, bool):
                            return z if op == '==' else not z
                        return z3.simplify(z if op == '==' else z3.Not(z))
        if op == '^' and (hasattr(a, 'mapaff') or hasattr(b, 'mapaff')) and isinstance(a, int) + isinstance(b, int) + hasattr(a, 'mapaff') + hasattr(b, 'mapaff') == 2:
            # GF(2)-affine byte forms (asmsym.Aff) stay affine under xor (Go glue that xors key stream and data itself)
            import asmsym
            w = a.w if hasattr(a, 'mapaff') else b.w
            return asmsym.aff_xor(a, b, w)
        a = force(a)
        b = force(b)
        # pointers / interfaces / slices compare with nil
        if isinstance(a, (Ptr, Slice)) or isinstance(b, (Ptr, Slice)) or a is None or b is None or isinstance(a, Iface) or isinstance(b, Iface) or isinstance(a, FuncVal) or isinstance(b, FuncVal):
            eq = self.ref_eq(a, b)
            if op == '==':
                return eq
            if op == '!=':
                return not eq
            raise Unsupported('binop %s on references' % op)
        if isinstance(a, str) or isinstance(b, str):
            if op == '+':
                return a + b
            if op == '==':
                return a == b
            if op == '!=':
                return a != b
            if op == '<':
                return a < b
            raise Unsupported('string op ' + op)
        if isinstance(a, float) or isinstance(b, float):
            return {'+': a + b, '-': a - b, '*': a * b, '/': a / b if b else float('inf'), '==': a == b, '!=': a != b, '<': a < b, '<=': a <= b, '>': a > b, '>=': a >= b}[op]
        if isinstance(a, bool) or isinstance(b, bool) or (is_sym(a) and z3.is_bool(a)):
            if op == '==':
                if isinstance(a, bool) and isinstance(b, bool):
                    return a == b
                return z3.simplify(self.tobool(a) == self.tobool(b))
            if op == '!=':
                if isinstance(a, bool) and isinstance(b, bool):
                    return a != b
                return z3.simplify(self.tobool(a) != self.tobool(b))
            raise Unsupported('bool op ' + op)
        if isinstance(a, list):
            # array / struct comparison
            if op in ('==', '!='):
                cs = [self.binop('==', x, y, None, None, 'bool') for x, y in zip(a, b)]
                r = self.and_all(cs)
                return r if op == '==' else self.not_(r)
            raise Unsupported('aggregate op')
        info = self.prog.intinfo(ta) if ta else None
        if info is None:
            raise Unsupported('binop %s on type %s' % (op, ta))
        w, signed = info
        if op in ('<<', '>>'):
            return self.shift(op, a, b, w, signed, tb)
        if isinstance(a, int) and isinstance(b, int):
            return self.conc_binop(op, a, b, w, signed)
        x = tobv(a, w)
        y = tobv(b, w)
        if op in ('|', '^', '+') and is_sym(a) and is_sym(b):
            # rotation idiom x<<k | x>>(w-k): normalise to rotate_left so that both sides of an
            # equivalence query reach the same normal form
            ma = self.shift_memo.get(a.get_id())
            mb = self.shift_memo.get(b.get_id())
            if ma is not None and mb is not None and ma[1] != mb[1] and ma[2].eq(mb[2]) and ma[3] + mb[3] == w:
                k = ma[3] if ma[1] == '<<' else mb[3]
                return z3.simplify(z3.RotateLeft(ma[2], k))
        if op == '+':
            r = x + y
        elif op == '-':
            r = x - y
        elif op == '*':
            r = x * y
        elif op == '&':
            r = x & y
        elif op == '|':
            r = x | y
        elif op == '^':
            r = x ^ y
        elif op == '&^':
            r = x & ~y
        elif op == '/':
            self.bounds_check(self.not_(z3.simplify(y == 0)), 'integer divide by zero')
            r = (x / y) if signed else z3.UDiv(x, y)
        elif op == '%':
            self.bounds_check(self.not_(z3.simplify(y == 0)), 'integer divide by zero')
            r = z3.SRem(x, y) if signed else z3.URem(x, y)
        elif op == '==':
            r = x == y
        elif op == '!=':
            r = x != y
        elif op == '<':
            r = (x < y) if signed else z3.ULT(x, y)
        elif op == '<=':
            r = (x <= y) if signed else z3.ULE(x, y)
        elif op == '>':
            r = (x > y) if signed else z3.UGT(x, y)
        elif op == '>=':
            r = (x >= y) if signed else z3.UGE(x, y)
        else:
            raise Unsupported('binop ' + op)
        r = z3.simplify(r)
        c = concrete(r)
        return c if c is not None else r

    def tobool(self, v):
        return z3.BoolVal(v) if isinstance(v, bool) else v

    def not_(self, c):
        if isinstance(c, bool):
            return not c
        return z3.simplify(z3.Not(c))

    def and_all(self, cs):
        r = []
        for c in cs:
            if isinstance(c, bool):
                if not c:
                    return False
            else:
                r.append(c)
        if not r:
            return True
        return z3.simplify(z3.And(*r))

    def ref_eq(self, a, b):
        def isnil(v):
            return v is None or (isinstance(v, (Ptr, Slice)) and v.obj is None)
        if isnil(a) or isnil(b):
            return isnil(a) and isnil(b)
        if isinstance(a, Ptr) and isinstance(b, Ptr):
            if a.obj != b.obj:
                return False
            if any(is_sym(p) for p in a.path + b.path):
                raise Unsupported('pointer comparison with symbolic path')
            return a.path == b.path
        if isinstance(a, Iface) and isinstance(b, Iface):
            if a.t != b.t:
                return False
            if isinstance(a.v, (Ptr,)):
                return self.ref_eq(a.v, b.v)
            return a.v is b.v or a.v == b.v
        if isinstance(a, FuncVal) and isinstance(b, FuncVal):
            return a.name == b.name
        raise Unsupported('reference comparison %r %r' % (a, b))

    def conc_binop(self, op, a, b, w, signed):
        m = (1 << w) - 1
        if signed:
            sa = a - (1 << w) if a >> (w - 1) else a
            sb = b - (1 << w) if b >> (w - 1) else b
        else:
            sa, sb = a, b
        if op == '+':
            return (a + b) & m
        if op == '-':
            return (a - b) & m
        if op == '*':
            return (a * b) & m
        if op == '&':
            return a & b
        if op == '|':
            return a | b
        if op == '^':
            return a ^ b
        if op == '&^':
            return a & ~b & m
        if op == '/':
            if b == 0:
                raise GoPanic('runtime error: integer divide by zero', 'div')
            q = abs(sa) // abs(sb)
            if (sa < 0) != (sb < 0):
                q = -q
            return q & m
        if op == '%':
            if b == 0:
                raise GoPanic('runtime error: integer divide by zero', 'div')
            r = abs(sa) % abs(sb)
            if sa < 0:
                r = -r
            return r & m
        if op == '==':
            return a == b
        if op == '!=':
            return a != b
        if op == '<':
            return sa < sb
        if op == '<=':
            return sa <= sb
        if op == '>':
            return sa > sb
        if op == '>=':
            return sa >= sb
        raise Unsupported('binop ' + op)

    def shift(self, op, a, b, w, signed, tb):
        binfo = self.prog.intinfo(tb) if tb else (64, False)
        bw, bsigned = binfo if binfo else (64, False)
        if isinstance(b, int):
            if bsigned and b >> (bw - 1):
                raise GoPanic('runtime error: negative shift amount', 'shift')
            if isinstance(a, int):
                if op == '<<':
                    return (a << b) & ((1 << w) - 1) if b < w else 0
                if signed:
                    sa = a - (1 << w) if a >> (w - 1) else a
                    return (sa >> min(b, w - 1)) & ((1 << w) - 1)
                return a >> b if b < w else 0
            x = tobv(a, w)
            if b >= w:
                if op == '<<' or not signed:
                    return 0
                b = w - 1
            if op == '<<':
                r = x << b
            elif signed:
                r = x >> b
            else:
                r = z3.LShR(x, b)
            r = z3.simplify(r)
            c = concrete(r)
            if c is None and (op == '<<' or not signed):
                self.shift_memo[r.get_id()] = (r, op, x, b)
            return c if c is not None else r
        # symbolic count
        if bsigned:
            self.bounds_check(self.not_(z3.simplify(b < 0)), 'negative shift amount')
        x = tobv(a, w)
        if bw > w:
            cnt = z3.If(z3.UGE(b, w), z3.BitVecVal(w, bw), b)
            cnt = z3.Extract(w - 1, 0, cnt)
        elif bw < w:
            cnt = z3.ZeroExt(w - bw, b)
        else:
            cnt = b
        if op == '<<':
            r = x << cnt
        elif signed:
            r = x >> cnt
        else:
            r = z3.LShR(x, cnt)
        r = z3.simplify(r)
        c = concrete(r)
        return c if c is not None else r

    def unop(self, op, a, ta, ins):
        if op == '*':
            ii = self.prog.intinfo(ins['t'])
            return self.load(a, ii[0] if ii else None)
        a = force(a)
        if getattr(a, '_is_iv', False):
            return self.iv_mode.unop(op, a)
        if self.taint and is_sym(a):
            return self.sec(ins['t'] if self.prog.intinfo(ins['t']) else None)
        if op == '!':
            return self.not_(a)
        info = self.prog.intinfo(ins['t'])
        if isinstance(a, float):
            return -a
        w, signed = info
        if op == '-':
            if isinstance(a, int):
                return (-a) & ((1 << w) - 1)
            return z3.simplify(-a)
        if op == '^':
            if isinstance(a, int):
                return (~a) & ((1 << w) - 1)
            return z3.simplify(~a)
        raise Unsupported('unop ' + op)

    def convert(self, v, tf, tt):
        if self.taint and is_sym(force(v)) and self.prog.intinfo(tt):
            return self.sec(tt)
        if getattr(v, '_is_iv', False):
            fi, ti = self.prog.intinfo(tf), self.prog.intinfo(tt)
            return self.iv_mode.convert(v, fi[0], ti[0])
        v = force(v)
        pf = self.prog
        df = pf.under(tf)
        dt = pf.under(tt)
        fi = pf.intinfo(tf)
        ti = pf.intinfo(tt)
        if fi and ti:
            fw, fs = fi
            tw, ts = ti
            if isinstance(v, int):
                if fs and v >> (fw - 1):
                    v = v - (1 << fw)
                return v & ((1 << tw) - 1)
            if tw == fw:
                return v
            if tw < fw:
                return simp(z3.Extract(tw - 1, 0, v))
            return simp(z3.SignExt(tw - fw, v) if fs else z3.ZeroExt(tw - fw, v))
        if fi and dt['kind'] == 'basic' and dt['name'] == 'float':
            if not isinstance(v, int):
                raise Unsupported('symbolic int to float')
            fw, fs = fi
            if fs and v >> (fw - 1):
                v -= 1 << fw
            return float(v)
        if ti and df['kind'] == 'basic' and df['name'] == 'float':
            return int(v) & ((1 << ti[0]) - 1)
        if df['kind'] == 'basic' and df['name'] == 'float' and dt['kind'] == 'basic' and dt['name'] == 'float':
            return v
        if dt['kind'] == 'basic' and dt['name'] == 'string':
            if isinstance(v, Slice):
                vals = self.slice_list(v)
                if any(is_sym(force(x)) for x in vals):
                    raise Unsupported('symbolic bytes to string')
                return bytes(force(x) for x in vals).decode('latin-1')
            if isinstance(v, int):
                return chr(v)
            if isinstance(v, str):
                return v
        if dt['kind'] == 'slice' and isinstance(v, str):
            return self.new_slice(list(v.encode('latin-1')))
        if dt['kind'] == 'pointer' or dt['kind'] == 'slice' or dt['kind'] == 'signature':
            return v
        if df['kind'] == dt['kind']:
            return v
        raise Unsupported('convert %s -> %s' % (tf, tt))


# ---------------------------------------------------------------------- helpers for harnesses
def sym_bytes(eng, name, n):
    return [eng.fresh_bv('%s_%d' % (name, i), 8) for i in range(n)]


def bytes_to_bv(vals):
    """big-endian concatenation of byte values"""
    ts = [tobv(v, 8) for v in vals]
    if len(ts) == 1:
        return ts[0]
    return z3.Concat(*ts)


def eval_bv(model, t, default=0):
    if isinstance(t, int):
        return t
    t = force(t)
    if isinstance(t, int):
        return t
    r = model.eval(t, model_completion=True)
    return r.as_long()


def build_ssa(out_path, pkgs, overlay=None, goarch=None, tags=None, tests=False, extra_funcs=None):
    import subprocess
    here = os.path.dirname(os.path.dirname(os.path.abspath(__file__)))
    binp = os.path.join(here, 'out', 'bin', 'ssajson')
    cmd = [binp, '-dir', '/repo', '-pkgs', ','.join(pkgs), '-o', out_path]
    if overlay:
        cmd += ['-overlay', overlay]
    if goarch:
        cmd += ['-goarch', goarch]
    if tags:
        cmd += ['-tags', tags]
    if tests:
        cmd += ['-tests']
    if extra_funcs:
        cmd += ['-funcs', ','.join(extra_funcs)]
    cmd += ['./...']
    r = subprocess.run(cmd, capture_output=True, text=True, timeout=300)
    if r.returncode != 0:
        raise RuntimeError('ssajson failed: ' + r.stderr)
    return out_path
