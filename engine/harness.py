# Check scaffolding: obligations, verdict discipline, replay, known findings, evidence.
import os, sys, json, time, subprocess, re, hashlib, random, traceback
import z3
from common import HERE, OUT, REPO, GOENV, EVIDENCE_DIR
import gosym

KNOWN_FILE = os.path.join(HERE, 'known_findings.txt')
LAST_CHECK = None


def load_known():
    """known (unfixed) findings: {(property, key): description}; fixed: lines suppress nothing"""
    known = {}
    if os.path.exists(KNOWN_FILE):
        for line in open(KNOWN_FILE):
            line = line.strip()
            if not line or line.startswith('#') or line.startswith('fixed:'):
                continue
            m = re.match(r'known:\s+property=(\S+)\s+key=(\S+)\s+(.*)', line)
            if m:
                known[(m.group(1), m.group(2))] = m.group(3)
    return known


class Check:
    def __init__(self, pid, level='model_checking'):
        self.pid = pid
        self.level = level
        self.tier = os.environ.get('VERIF_TIER', 'quick')
        if '--tier' in sys.argv:
            self.tier = sys.argv[sys.argv.index('--tier') + 1]
        if self.tier not in ('quick', 'thorough'):
            self.tier = 'quick'
        self.seed = int(os.environ.get('VERIF_SEED', '1') or 1)
        self.rng = random.Random(self.seed)
        self.t0 = time.time()
        self.obls = []          # dicts
        self.violations = []    # (key, desc, replay_path)
        self.known_hits = []
        self.inconclusive = []
        self.assumptions = []
        self.stubs = set()
        self.functions = set()
        self.bounds = []
        self.outside = []
        self.samples = []
        self.validated = 0
        self.states = 0
        self.transitions = 0
        self.queries = 0
        self.solver_s = 0.0
        self.extra = {}
        self.known = load_known()
        self.outdir = os.path.join(OUT, pid)
        os.makedirs(self.outdir, exist_ok=True)
        self.replay_n = 0
        global LAST_CHECK
        LAST_CHECK = self

    # -------------------------------------------------------------- bookkeeping
    def absorb(self, eng):
        """fold engine statistics into the evidence counters"""
        self.states += eng.stats['paths']
        self.transitions += eng.stats['instrs']
        self.queries += eng.stats['queries']
        self.solver_s += eng.stats['solver_s']
        self.functions |= {f for f in eng.funcs_executed}
        self.stubs |= set(getattr(eng, 'models_used', set()))
        eng.stats.update(paths=0, instrs=0, queries=0, solver_s=0.0)

    def record(self, name, verdict, detail='', bounds='', secs=0.0, sample=None):
        o = dict(obligation=name, verdict=verdict, detail=detail, bounds=bounds, solver_s=round(secs, 3))
        self.obls.append(o)
        if verdict == 'inconclusive':
            self.inconclusive.append(o)
            print('INCONCLUSIVE property=%s obligation=%s reason=%s' % (self.pid, name, detail))
        if sample is not None and len(self.samples) < 12:
            self.samples.append(sample)
        elif len(self.samples) < 6:
            self.samples.append(dict(obligation=name, verdict=verdict, bounds=bounds, detail=str(detail)[:200]))
        return o

    def violation(self, key, desc, replay_path):
        """a violation confirmed by replay against the real build"""
        if (self.pid, key) in self.known:
            if key not in [k for k, _ in self.known_hits]:
                self.known_hits.append((key, desc))
            return
        self.violations.append((key, desc, replay_path))

    def encoder_mismatch(self, name, detail):
        print('ENCODER-MISMATCH property=%s obligation=%s %s' % (self.pid, name, detail))
        self.record(name, 'inconclusive', 'model did not reproduce on the real build: ' + str(detail))

    # -------------------------------------------------------------- replay
    def go_test(self, pkg_rel, test_src, run='TestVerifReplay', name=None, timeout=300, tags=None, extra_files=None):
        """run an in-package test file against the real build through -overlay.
        returns (passed, output, path of the test source kept under out/<id>/)"""
        self.replay_n += 1
        name = name or ('replay_%d' % self.replay_n)
        path = os.path.join(self.outdir, name + '_test.go')
        open(path, 'w').write(test_src)
        virt = os.path.join(REPO, pkg_rel, 'zz_verif_%s_test.go' % name)
        ov = {'Replace': {virt: path}}
        for vname, real in (extra_files or {}).items():
            ov['Replace'][os.path.join(REPO, pkg_rel, vname)] = real
        ovp = os.path.join(self.outdir, name + '_overlay.json')
        json.dump(ov, open(ovp, 'w'))
        cmd = ['go', 'test', '-vet=off', '-count=1', '-run', run, '-overlay', ovp]
        if tags:
            cmd += ['-tags', tags]
        cmd += ['./' + pkg_rel]
        open(os.path.join(self.outdir, name + '.cmd'), 'w').write('cd %s && %s\n' % (REPO, ' '.join(cmd)))
        try:
            r = subprocess.run(cmd, cwd=REPO, env=GOENV, capture_output=True, text=True, timeout=timeout)
        except subprocess.TimeoutExpired:
            return None, 'timeout', path
        out = r.stdout + r.stderr
        if r.returncode == 0:
            return True, out, path
        if 'FAIL' in out and ('--- FAIL' in out or 'panic:' in out or 'fatal error:' in out or 'unexpected signal' in out or 'SIGSEGV' in out or 'SIGBUS' in out):
            return False, out, path      # a crash of the test binary (fault in assembly, runtime throw) is a failed replay, not a build problem
        return None, out, path  # build failure or other trouble: inconclusive

    def coverage_diff(self, pkg_rel, test_src, file_suffix, env_a, env_b, name='cover'):
        """run the same in-package test twice under -covermode=count with two different secret inputs (passed through
        the environment) and return the coverage blocks of `file_suffix` whose execution counts differ"""
        path = os.path.join(self.outdir, name + '_test.go')
        open(path, 'w').write(test_src)
        virt = os.path.join(REPO, pkg_rel, 'zz_verif_%s_test.go' % name)
        ovp = os.path.join(self.outdir, name + '_overlay.json')
        json.dump({'Replace': {virt: path}}, open(ovp, 'w'))
        profs = []
        for tag, env in (('a', env_a), ('b', env_b)):
            prof = os.path.join(self.outdir, '%s_%s.cov' % (name, tag))
            cmd = ['go', 'test', '-vet=off', '-count=1', '-run', 'TestVerifReplay', '-covermode=count', '-coverprofile', prof, '-overlay', ovp, './' + pkg_rel]
            r = subprocess.run(cmd, cwd=REPO, env=dict(GOENV, **env), capture_output=True, text=True, timeout=300)
            if r.returncode != 0 or not os.path.exists(prof):
                return None, (r.stdout + r.stderr)[-300:], path
            d = {}
            for line in open(prof):
                if file_suffix in line:
                    blk, _, cnt = line.rpartition(' ')
                    d[blk] = int(cnt)
            profs.append(d)
        diff = sorted(k for k in profs[0] if profs[0].get(k) != profs[1].get(k))
        open(os.path.join(self.outdir, name + '.cmd'), 'w').write('cd %s && VERIF_SECRET=<a|b> go test -covermode=count -coverprofile x.cov -run TestVerifReplay -overlay %s ./%s  # compare per-block counts\n' % (REPO, ovp, pkg_rel))
        return diff, '', path

    # -------------------------------------------------------------- finish
    def finish(self):
        wall = time.time() - self.t0
        for key, desc in self.known_hits:
            print('KNOWN-FINDING: property=%s %s: %s' % (self.pid, key, desc))
        for key, desc, rp in self.violations:
            print('VIOLATION property=%s replay=%s' % (self.pid, rp))
            print('  key=%s %s' % (key, desc))
        n_ok = sum(1 for o in self.obls if o['verdict'] == 'proved')
        cov = dict(
            states=max(1, self.states), transitions=max(1, self.transitions),
            traces_validated_against_impl=self.validated,
            samples=self.samples or [dict(note='no obligations ran')],
            obligations=len(self.obls), discharged=n_ok,
            inconclusive=[o['obligation'] + ': ' + str(o['detail'])[:160] for o in self.inconclusive],
            violated=[o['obligation'] for o in self.obls if o['verdict'] == 'violated'],
            functions_encoded=sorted(self.functions), bounds=self.bounds, outside_bounds=self.outside,
            queries=self.queries, solver_s=round(self.solver_s, 2), stubs=sorted(self.stubs),
            all_obligations=[dict(o, detail=str(o['detail'])[:300]) for o in self.obls][:400],
            known_findings_hit=[k for k, _ in self.known_hits],
            exhaustive=False,
        )
        if self.level == 'other':
            cov['explanation'] = self.extra.get('explanation', '')
        cov.update({k: v for k, v in self.extra.items() if k != 'explanation'})
        ev = dict(property_id=self.pid, tier=self.tier, seed=self.seed, level=self.level, coverage=cov,
                  assumptions=self.assumptions, wall_s=round(wall, 2), violations=len(self.violations))
        os.makedirs(EVIDENCE_DIR, exist_ok=True)
        json.dump(ev, open(os.path.join(EVIDENCE_DIR, self.pid + '.json'), 'w'), indent=1, default=str)
        print('%s tier=%s obligations=%d proved=%d inconclusive=%d violations=%d known=%d wall=%.1fs solver=%.1fs' % (
            self.pid, self.tier, len(self.obls), n_ok, len(self.inconclusive), len(self.violations), len(self.known_hits), wall, self.solver_s))
        sys.exit(1 if self.violations else 0)


def model_bytes(model, cells):
    out = []
    for c in cells:
        c = gosym.force(c)
        if isinstance(c, int):
            out.append(c)
        else:
            out.append(model.eval(c, model_completion=True).as_long())
    return out


def go_bytes(bs):
    return '[]byte{' + ','.join('0x%02x' % b for b in bs) + '}'


def hexs(bs):
    return bytes(bs).hex()


def guarded_main(pid, main):
    """run a check's main(); an engine limitation or internal error must never look like a verdict: it is reported as
    INCONCLUSIVE (exit 0, evidence written) instead of a crash"""
    try:
        main()
    except SystemExit:
        raise
    except BaseException as ex:
        import traceback
        tb = traceback.format_exc()
        sys.stderr.write(tb)
        # keep what was established before the failure (obligations, replayed violations): only the rest is inconclusive
        ck = LAST_CHECK if LAST_CHECK is not None and LAST_CHECK.pid == pid else Check(pid)
        ck.record('check_aborted', 'inconclusive', 'the check could not be completed: %s: %s' % (type(ex).__name__, str(ex)[:300]))
        ck.extra['aborted'] = tb[-1500:]
        ck.finish()
