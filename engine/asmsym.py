# asmsym: symbolic interpreter for the Plan 9 amd64 assembly of /repo/sm4, driven by the assembler's own
# macro-expanded listing (`go tool asm -S`).  DESIGN.md section 1.3.
#
# Values: general registers hold python ints, z3 64-bit terms, or Addr(region, offset); vector registers
# are 16 dword lanes (python int or z3 32-bit term).  Lengths and pointers are concrete per run (control
# flow of this code depends only on lengths), data bytes may be symbolic.  Every memory access is checked
# against the declared regions and logged; every branch condition or address that is not concrete is logged.
import os, re, subprocess, hashlib, time
import z3

M32 = 0xffffffff
M64 = (1 << 64) - 1


class AsmUnsupported(Exception):
    pass


class Addr:
    __slots__ = ('region', 'off')

    def __init__(self, region, off):
        self.region = region
        self.off = off

    def __repr__(self):
        return 'Addr(%s%+d)' % (self.region, self.off)


BITVARS = {}
TAINT = [False]   # taint mode: every value that depends on a symbolic (secret) input collapses to SEC(width)
_SEC = {}


def SEC(w):
    if w not in _SEC:
        _SEC[w] = z3.BitVec('secret%d' % w, w)
    return _SEC[w]


def tainted(*vals):
    return TAINT[0] and any(not isinstance(v, (int, Addr)) for v in vals)



def bitvar(name):
    """z3 byte variable behind a symbolic data byte"""
    if name not in BITVARS:
        BITVARS[name] = z3.BitVec(name, 8)
    return BITVARS[name]


AFFKEYS = []      # global ordering of the symbolic input bits of the current run: (byte variable name, bit)
AFFINDEX = {}


def aff_reset():
    del AFFKEYS[:]
    AFFINDEX.clear()


class Aff:
    """GF(2)-affine function of the named input bits of the run: value = v[0] XOR (XOR over set input bits j of
    v[1+j]).  Canonical, closed under every GF(2)-linear operation of the instruction set (xor, and/shift/
    rotate/extract/concat with constants, carry-less multiplication by a constant, byte shuffles, affine
    byte tables), so GHASH/CTR data paths with concrete keys never build nested solver terms.  Non-linear
    uses convert to a z3 term (to_z3)."""
    __slots__ = ('w', 'v')

    def __init__(self, w, v):
        self.w, self.v = w, v

    @staticmethod
    def byte(name):
        base = len(AFFKEYS)
        for i in range(8):
            AFFINDEX[(name, i)] = len(AFFKEYS)
            AFFKEYS.append((name, i))
        v = [0] * (1 + len(AFFKEYS))
        for i in range(8):
            v[1 + base + i] = 1 << i
        return Aff(8, v)

    @property
    def c(self):
        return self.v[0]

    def cols(self):
        n = 1 + len(AFFKEYS)
        v = self.v
        return v if len(v) == n else v + [0] * (n - len(v))

    def norm(self):
        if not any(self.v[1:]):
            return self.v[0]
        return self

    def map(self, f, w):
        """apply a GF(2)-linear map f (f(0) == 0, int -> int)"""
        return Aff(w, [f(x) if x else 0 for x in self.v]).norm() if True else None

    def maplin0(self, f, w):
        return Aff(w, [f(x) for x in self.v]).norm()

    def mapaff(self, f, w):
        """apply a GF(2)-affine map (f(0) may be non-zero)"""
        f0 = f(0)
        c = self.v[0]
        out = [f(c)]
        for x in self.v[1:]:
            out.append((f(x) ^ f0) if x else 0)
        return Aff(w, out).norm()

    def to_z3(self):
        t = z3.BitVecVal(self.v[0], self.w)
        zero = z3.BitVecVal(0, self.w)
        for j, m in enumerate(self.v[1:]):
            if m:
                name, i = AFFKEYS[j]
                t = t ^ z3.If(z3.Extract(i, i, bitvar(name)) == 1, z3.BitVecVal(m, self.w), zero)
        return t

    def key(self):
        v = self.v
        while len(v) > 1 and v[-1] == 0:
            v = v[:-1]
        return (self.w, tuple(v))

    def __repr__(self):
        return 'Aff(w=%d, c=%#x, %d input bits)' % (self.w, self.v[0], sum(1 for x in self.v[1:] if x))


def aff_xor(a, b, w):
    if isinstance(a, int):
        a, b = b, a
    if isinstance(b, int):
        if not b:
            return a
        v = list(a.v)
        v[0] ^= b
        return Aff(w, v)
    x, y = a.v, b.v
    if len(x) < len(y):
        x, y = y, x
    v = [p ^ q for p, q in zip(x, y)] + x[len(y):]
    return Aff(w, v).norm()


def aff_eq(a, b):
    """structural equality of two values that are ints or Aff"""
    if isinstance(a, int) and isinstance(b, int):
        return a == b
    if isinstance(a, Aff) and isinstance(b, Aff):
        return a.key() == b.key()
    return False


def is_sym(v):
    return isinstance(v, z3.ExprRef)


def bv(v, w):
    if isinstance(v, Aff):
        return v.to_z3()
    return z3.BitVecVal(v, w) if isinstance(v, int) else v


def simp(t):
    if is_sym(t):
        t = z3.simplify(t)
        if z3.is_bv_value(t):
            return t.as_long()
    return t


# ---------------------------------------------------------------------------------- listing
class Instr:
    __slots__ = ('pc', 'line', 'op', 'args', 'text')

    def __init__(self, pc, line, op, args, text):
        self.pc, self.line, self.op, self.args, self.text = pc, line, op, args, text


def split_args(s):
    out, depth, cur = [], 0, ''
    for ch in s:
        if ch == '(':
            depth += 1
        if ch == ')':
            depth -= 1
        if ch == ',' and depth == 0:
            out.append(cur.strip())
            cur = ''
        else:
            cur += ch
    if cur.strip():
        out.append(cur.strip())
    return out


GPR64 = ['AX', 'BX', 'CX', 'DX', 'SI', 'DI', 'BP', 'SP', 'R8', 'R9', 'R10', 'R11', 'R12', 'R13', 'R14', 'R15']
GPR8 = {'AL': 'AX', 'BL': 'BX', 'CL': 'CX', 'DL': 'DX', 'SIB': 'SI', 'DIB': 'DI'}
for _r in range(8, 16):
    GPR8['R%dB' % _r] = 'R%d' % _r


class Listing:
    """functions and read-only data of one or more .s files, as assembled from the current tree"""

    def __init__(self):
        self.funcs = {}   # short name -> list of Instr
        self.pcmap = {}   # short name -> {pc: index}
        self.data = {}    # symbol -> bytes
        self.files = []
        self.frames = {}  # short name -> argsize

    @staticmethod
    def load(repo_pkg_dir, files, goarch='amd64', importpath='github.com/bilibili/smgo/sm4'):
        L = Listing()
        goroot = subprocess.run(['go', 'env', 'GOROOT'], capture_output=True, text=True).stdout.strip()
        env = dict(os.environ, GOARCH=goarch, GOOS='linux')
        for f in files:
            obj = '/tmp/verif_asm_%d.o' % os.getpid()
            r = subprocess.run(['go', 'tool', 'asm', '-S', '-p', importpath, '-I', os.path.join(goroot, 'pkg', 'include'), '-I', repo_pkg_dir,
                                '-o', obj, os.path.join(repo_pkg_dir, f)], capture_output=True, text=True, env=env, cwd=repo_pkg_dir)
            if os.path.exists(obj):
                os.unlink(obj)
            if r.returncode != 0:
                raise RuntimeError('go tool asm failed on %s: %s' % (f, r.stderr[:500] + r.stdout[:500]))
            L.parse(r.stdout + r.stderr, f)
            L.files.append(f)
        return L

    def parse(self, text, fname):
        cur = None
        cursym = None
        for line in text.split('\n'):
            m = re.match(r'^(\S+) STEXT.* size=(\d+) args=(0x[0-9a-f]+)', line)
            if m:
                cur = m.group(1).split('.')[-1]
                self.funcs[cur] = []
                self.pcmap[cur] = {}
                self.frames[cur] = int(m.group(3), 16)
                cursym = None
                continue
            m = re.match(r'^(\S+) S(RO)?DATA.* size=(\d+)', line)
            if m:
                cursym = m.group(1).split('.')[-1]
                self.data[cursym] = b''
                cur = None
                continue
            m = re.match(r'^\t0x[0-9a-f]+ (\d+) \(([^)]*)\)\t(\S+)(?:\t(.*))?$', line)
            if m and cur is not None:
                pc = int(m.group(1))
                op = m.group(3)
                if op in ('TEXT', 'FUNCDATA', 'PCDATA'):
                    continue
                args = split_args(m.group(4) or '')
                ins = Instr(pc, m.group(2), op, args, line.strip())
                self.pcmap[cur][pc] = len(self.funcs[cur])
                self.funcs[cur].append(ins)
                continue
            m = re.match(r'^\t0x[0-9a-f]+ ((?:[0-9a-f]{2} )+)', line)
            if m and cursym is not None:
                self.data[cursym] += bytes.fromhex(m.group(1).replace(' ', ''))


# ---------------------------------------------------------------------------------- tables (GFNI)
def gf_mul(a, b, poly):
    r = 0
    while b:
        if b & 1:
            r ^= a
        a <<= 1
        if a & 0x100:
            a ^= poly
        b >>= 1
    return r


AES_INV = [0] * 256
for _x in range(1, 256):
    for _y in range(1, 256):
        if gf_mul(_x, _y, 0x11b) == 1:
            AES_INV[_x] = _y
            break


def affine_table(matrix_qword, imm, inverse):
    A = [(matrix_qword >> (8 * k)) & 0xff for k in range(8)]
    tab = []
    for x in range(256):
        v = AES_INV[x] if inverse else x
        r = 0
        for i in range(8):
            bit = bin(A[7 - i] & v).count('1') & 1
            r |= (bit ^ ((imm >> i) & 1)) << i
        tab.append(r)
    return tuple(tab)


TABLES = {}      # name -> tuple
TABFUNC = {}


def table_func(tab):
    h = hashlib.sha1(bytes(tab)).hexdigest()[:12]
    name = 'T_' + h
    if name not in TABLES:
        TABLES[name] = tab
        TABFUNC[name] = z3.Function(name, z3.BitVecSort(8), z3.BitVecSort(8))
    return name, TABFUNC[name]


AFFINE_TABS = {}


def table_is_affine(tab):
    if tab not in AFFINE_TABS:
        c0 = tab[0]
        cols = [tab[1 << i] ^ c0 for i in range(8)]
        ok = True
        for v in range(256):
            r = c0
            for i in range(8):
                if (v >> i) & 1:
                    r ^= cols[i]
            if r != tab[v]:
                ok = False
                break
        AFFINE_TABS[tab] = ok
    return AFFINE_TABS[tab]


def apply_table(tab, x):
    """byte table applied to a byte value; tables applied to table applications are fused"""
    if isinstance(x, int):
        return tab[x]
    if TAINT[0]:
        return SEC(8)
    if isinstance(x, Aff):
        if table_is_affine(tab):
            return x.mapaff(lambda v: tab[v], 8)
        x = x.to_z3()
    if z3.is_app(x) and x.num_args() == 1 and x.decl().name() in TABLES:
        inner = TABLES[x.decl().name()]
        fused = tuple(tab[inner[i]] for i in range(256))
        return apply_table(fused, x.arg(0))
    # on solver terms every table is an application of a function named by its content, so that a later table
    # applied to it is fused (pre-affine, inversion, post-affine -> one S-box); GF(2)-affine tables are left as
    # plain applications (they are expected to be consumed by a following table), non-affine ones may be named
    if table_is_affine(tab):
        name, f = table_func(tab)
        return f(x)
    name, f = table_func(tab)
    if NAMING[0]:
        # cut point: the (non-linear) table output gets a name that is a function of the table and of the
        # simplified input term only; two computations that feed syntactically equal inputs through the same
        # table obtain the same name, and terms never nest through S-boxes
        xs = z3.simplify(x)
        key = (name, xs.get_id())
        if key not in NAMED:
            NAMED[key] = (z3.BitVec('%s!out%d' % (name, len(NAMED)), 8), xs)
        return NAMED[key][0]
    return f(x)


NAMING = [False]
NAMED = {}


def naming_reset(on):
    NAMING[0] = on
    NAMED.clear()


def clmul64(a, b):
    """carry-less 64x64 -> 128 multiplication"""
    if isinstance(a, int) and isinstance(b, int):
        r = 0
        i = 0
        while b >> i:
            if (b >> i) & 1:
                r ^= a << i
            i += 1
        return r
    if TAINT[0]:
        return SEC(128)
    if isinstance(b, int):
        a, b = b, a
    if isinstance(a, int) and isinstance(b, Aff):
        return b.map(lambda v: clmul64(a, v), 128)
    if isinstance(a, Aff) or isinstance(b, Aff):
        a, b = bv(a, 64), bv(b, 64)
        return CLMUL(a, b)
    if isinstance(a, int):
        x = z3.ZeroExt(64, b)
        r = None
        i = 0
        while a >> i:
            if (a >> i) & 1:
                t = x << i if i else x
                r = t if r is None else r ^ t
            i += 1
        return z3.simplify(r) if r is not None else 0
    return CLMUL(a, b)


CLMUL = z3.Function('CLMUL', z3.BitVecSort(64), z3.BitVecSort(64), z3.BitVecSort(128))


# ---------------------------------------------------------------------------------- machine
class Region:
    def __init__(self, name, cells, writable=True, kind='arg'):
        self.name = name
        self.cells = list(cells)
        self.size = len(self.cells)
        self.writable = writable
        self.kind = kind


class Machine:
    def __init__(self, listing):
        self.L = listing
        self.regions = {}
        for sym, b in listing.data.items():
            self.regions[sym] = Region(sym, list(b), writable=False, kind='rodata')
        self.reset()

    def reset(self):
        self.g = {r: 0 for r in GPR64}
        self.v = [[0] * 16 for _ in range(32)]
        self.k = [0xffff] * 8
        self.flags = None
        self.events = []      # ('oob'|'ro-write'|'nil'|'symaddr'|'symbranch'|'align', pc, detail)
        self.reads = []       # (region, off, width, pc)
        self.writes = []
        self.steps = 0
        self.ret = {}
        self.nfresh = 0
        self.branch_oracle = None
        self.branch_log = []
        for name in [n for n, r in self.regions.items() if r.kind != 'rodata']:
            del self.regions[name]

    def fresh8(self, tag):
        self.nfresh += 1
        return z3.BitVec('%s!%d' % (tag, self.nfresh), 8)

    def add_region(self, name, cells, writable=True):
        self.regions[name] = Region(name, cells, writable)
        return Addr(name, 0)

    # ---- memory
    def mem_read(self, addr, width, pc, mask=None):
        """returns list of `width` byte cells"""
        if isinstance(addr, int):
            self.events.append(('nil' if addr == 0 else 'wild', pc, 'read %d bytes at %#x' % (width, addr)))
            return [self.fresh8('wild') for _ in range(width)]
        if is_sym(addr):
            self.events.append(('symaddr', pc, 'read through data-dependent address'))
            return [self.fresh8('symaddr') for _ in range(width)]
        r = self.regions[addr.region]
        out = []
        lo, hi = addr.off, addr.off + width
        if mask is None:
            self.reads.append((addr.region, lo, width, pc))
        if (lo < 0 or hi > r.size) and mask is None:
            self.events.append(('oob', pc, 'read %s[%d:%d) outside [0,%d)' % (addr.region, lo, hi, r.size)))
        for i in range(lo, hi):
            if mask is not None and not mask[i - lo]:
                out.append(0)
                continue
            if mask is not None:
                self.reads.append((addr.region, i, 1, pc))
            if 0 <= i < r.size:
                out.append(r.cells[i])
            else:
                if mask is not None:
                    self.events.append(('oob', pc, 'read %s[%d] outside [0,%d)' % (addr.region, i, r.size)))
                out.append(self.fresh8('oob'))
        return out

    def mem_write(self, addr, cells, pc, mask=None):
        width = len(cells)
        if isinstance(addr, int):
            self.events.append(('nil' if addr == 0 else 'wild', pc, 'write %d bytes at %#x' % (width, addr)))
            return
        if is_sym(addr):
            self.events.append(('symaddr', pc, 'write through data-dependent address'))
            return
        r = self.regions[addr.region]
        lo = addr.off
        for i, c in enumerate(cells):
            if mask is not None and not mask[i]:
                continue
            j = lo + i
            self.writes.append((addr.region, j, 1, pc))
            if not r.writable:
                self.events.append(('ro-write', pc, 'write to %s[%d]' % (addr.region, j)))
                continue
            if 0 <= j < r.size:
                r.cells[j] = c
            else:
                self.events.append(('oob', pc, 'write %s[%d] outside [0,%d)' % (addr.region, j, r.size)))

    # ---- operand helpers
    def ea(self, s):
        """effective address of a memory operand string"""
        m = re.match(r'^(-?\d+)?\((\w+)\)$', s)
        if m:
            off = int(m.group(1) or 0)
            base = self.g[m.group(2)]
            if isinstance(base, Addr):
                return Addr(base.region, base.off + off)
            if isinstance(base, int):
                return (base + off) & M64
            return base   # symbolic
        m = re.match(r'^(-?\d+)?\((\w+)\)\((\w+)\*(\d)\)$', s)
        if m:
            off = int(m.group(1) or 0)
            base = self.g[m.group(2)]
            idx = self.g[m.group(3)]
            sc = int(m.group(4))
            if isinstance(idx, Addr):
                raise AsmUnsupported('pointer used as index register')
            if not isinstance(idx, int):
                return idx if is_sym(idx) else bv(idx, 64)   # data-dependent index: symbolic address
            if idx >> 63:
                idx -= 1 << 64
            if isinstance(base, Addr):
                return Addr(base.region, base.off + off + idx * sc)
            if isinstance(base, int):
                return (base + off + idx * sc) & M64
            return base
        m = re.match(r'^(\w+)<>(?:\+(\d+))?\(SB\)$', s)
        if m:
            return Addr(m.group(1), int(m.group(2) or 0))
        m = re.match(r'^(\w+)\+(\d+)\(FP\)$', s)
        if m:
            return ('fp', int(m.group(2)) - 8, m.group(1))
        m = re.match(r'^([\w./\-]+)(?:\+(\d+))?\(SB\)$', s)
        if m:
            return self.go_data(m.group(1), int(m.group(2) or 0))
        raise AsmUnsupported('operand ' + s)

    def go_data(self, sym, off):
        """address of a Go-level package variable: its contents are not in the listing; for footprint and dependence
        questions a read-only region of unknown (public) bytes stands in for it"""
        name = 'go:' + sym.split('/')[-1]
        if name not in self.regions:
            self.regions[name] = Region(name, [0] * 4096, writable=False, kind='godata')
            self.events.append(('godata', 0, 'assembly addresses the Go variable %s (contents not modelled)' % sym))
        return Addr(name, off)

    def is_mem(self, s):
        return '(' in s

    def vreg(self, s):
        m = re.match(r'^([XYZ])(\d+)$', s)
        if not m:
            return None
        return m.group(1), int(m.group(2))

    def vwidth(self, cls):
        return {'X': 4, 'Y': 8, 'Z': 16}[cls]

    def get_gpr(self, name, width=64):
        if name in GPR8:
            v = self.g[GPR8[name]]
            if isinstance(v, Addr):
                raise AsmUnsupported('byte of pointer')
            if isinstance(v, int):
                return v & 0xff
            if TAINT[0]:
                return SEC(8)
            if isinstance(v, Aff):
                return v.map(lambda x: x & 0xff, 8)
            return simp(z3.Extract(7, 0, v))
        v = self.g[name]
        if width == 64:
            return v
        if isinstance(v, Addr):
            raise AsmUnsupported('part of pointer')
        if isinstance(v, int):
            return v & ((1 << width) - 1)
        if TAINT[0]:
            return SEC(width)
        if isinstance(v, Aff):
            return v.map(lambda x: x & ((1 << width) - 1), width)
        return simp(z3.Extract(width - 1, 0, v))

    def set_gpr(self, name, val, width=64, zero_extend=True):
        if name in GPR8:
            base = GPR8[name]
            old = self.g[base]
            if isinstance(old, Addr):
                self.nfresh += 1
                old = z3.BitVec('stale!%d' % self.nfresh, 64)   # upper bits of a dead pointer: unknown value
            if isinstance(old, int) and isinstance(val, int):
                self.g[base] = (old & ~0xff & M64) | (val & 0xff)
            elif TAINT[0]:
                self.g[base] = SEC(64)
            elif isinstance(old, (int, Aff)) and isinstance(val, (int, Aff)):
                hi = old & ~0xff & M64 if isinstance(old, int) else old.map(lambda x: x & ~0xff & M64, 64)
                lo = val & 0xff if isinstance(val, int) else val.map(lambda x: x & 0xff, 64)
                self.g[base] = aff_xor(hi, lo, 64) if not (isinstance(hi, int) and isinstance(lo, int)) else hi | lo
            else:
                self.g[base] = simp(z3.Concat(z3.Extract(63, 8, bv(old, 64)), bv(val, 8)))
            return
        if width == 64:
            self.g[name] = val
            return
        if TAINT[0] and not isinstance(val, int):
            self.g[name] = SEC(64)
            return
        if width == 32 and zero_extend:
            if isinstance(val, Aff):
                self.g[name] = Aff(64, list(val.v))
            else:
                self.g[name] = val if isinstance(val, int) else simp(z3.ZeroExt(32, val))
            return
        old = self.g[name]
        if isinstance(old, Addr):
            self.nfresh += 1
            old = z3.BitVec('stale!%d' % self.nfresh, 64)
        if isinstance(old, int) and isinstance(val, int):
            self.g[name] = (old & ~((1 << width) - 1) & M64) | val
        elif isinstance(old, (int, Aff)) and isinstance(val, (int, Aff)):
            msk = ~((1 << width) - 1) & M64
            hi = old & msk if isinstance(old, int) else old.map(lambda x: x & msk, 64)
            lo = val if isinstance(val, int) else Aff(64, list(val.v))
            self.g[name] = aff_xor(hi, lo, 64) if not (isinstance(hi, int) and isinstance(lo, int)) else hi | lo
        else:
            self.g[name] = simp(z3.Concat(z3.Extract(63, width, bv(old, 64)), bv(val, width)))

    @staticmethod
    def from_bytes(cells):
        """little-endian combination of byte cells into an int / term"""
        if all(isinstance(c, int) for c in cells):
            return sum(c << (8 * i) for i, c in enumerate(cells))
        if len(cells) == 1:
            return cells[0]
        if TAINT[0]:
            return SEC(8 * len(cells))
        if all(isinstance(c, (int, Aff)) for c in cells):
            w = 8 * len(cells)
            r = 0
            for i, c in enumerate(cells):
                if isinstance(c, int):
                    t = c << (8 * i)
                else:
                    t = c.map(lambda v, i=i: v << (8 * i), w)
                r = t if (isinstance(r, int) and r == 0) else aff_xor(r, t, w) if not (isinstance(r, int) and isinstance(t, int)) else r ^ t
            return r
        return simp(z3.Concat(*[bv(c, 8) for c in reversed(cells)]))

    @staticmethod
    def to_bytes(val, n):
        if isinstance(val, int):
            return [(val >> (8 * i)) & 0xff for i in range(n)]
        if TAINT[0]:
            return [SEC(8)] * n
        if isinstance(val, Aff):
            return [val.map(lambda v, i=i: (v >> (8 * i)) & 0xff, 8) for i in range(n)]
        return [simp(z3.Extract(8 * i + 7, 8 * i, val)) for i in range(n)]

    def lanes_to_bytes(self, lanes):
        out = []
        for l in lanes:
            out += self.to_bytes(l, 4)
        return out

    def bytes_to_lanes(self, cells):
        return [self.from_bytes(cells[i:i + 4]) for i in range(0, len(cells), 4)]

    def read_arg(self, fpref):
        _, off, name = fpref
        if off not in self.args:
            raise AsmUnsupported('read of undefined argument slot %s+%d(FP)' % (name, off + 8))
        return self.args[off]

    def src_val(self, s, width=64, pc=0):
        """value of a source operand (GPR / immediate / memory) as int|term|Addr"""
        if s.startswith('$'):
            body = s[1:]
            m = re.match(r'^(\w+)<>(?:\+(\d+))?\(SB\)$', body)
            if m:
                return Addr(m.group(1), int(m.group(2) or 0))
            m = re.match(r'^([\w./\-]+)(?:\+(\d+))?\(SB\)$', body)
            if m:
                return self.go_data(m.group(1), int(m.group(2) or 0))
            v = int(body, 0)
            return v & ((1 << width) - 1)
        if s in self.g or s in GPR8:
            return self.get_gpr(s, width if s in self.g else 8)
        if self.is_mem(s):
            a = self.ea(s)
            if isinstance(a, tuple):
                v = self.read_arg(a)
                if width != 64 and not isinstance(v, Addr):
                    v = v & ((1 << width) - 1) if isinstance(v, int) else simp(z3.Extract(width - 1, 0, v))
                return v
            cells = self.mem_read(a, width // 8, pc)
            return self.from_bytes(cells)
        raise AsmUnsupported('source operand ' + s)

    def dst_store(self, s, val, width, pc):
        if s in self.g or s in GPR8:
            self.set_gpr(s, val, width)
            return
        a = self.ea(s)
        if isinstance(a, tuple):
            self.ret[a[1]] = val
            return
        if isinstance(val, Addr):
            raise AsmUnsupported('pointer stored to memory')
        self.mem_write(a, self.to_bytes(val, width // 8), pc)

    # ---- execution
    def run(self, fname, args, max_steps=2_000_000):
        """args: dict frame offset (as in the Go declaration, 0-based) -> value"""
        self.args = dict(args)
        code = self.L.funcs[fname]
        pcmap = self.L.pcmap[fname]
        i = 0
        self.fname = fname
        while True:
            ins = code[i]
            self.steps += 1
            if self.steps > max_steps:
                raise AsmUnsupported('step budget exceeded')
            nxt = self.step(ins)
            if nxt == 'ret':
                return self.ret
            if nxt is None:
                i += 1
            else:
                if nxt not in pcmap:
                    raise AsmUnsupported('jump target %s' % nxt)
                i = pcmap[nxt]

    def arith(self, op, a, b):
        """64-bit: b op= a  (Go operand order: src, dst)"""
        if isinstance(b, Addr):
            if isinstance(a, int) and op in ('ADDQ', 'SUBQ'):
                sa = a - (1 << 64) if a >> 63 else a
                return Addr(b.region, b.off + (sa if op == 'ADDQ' else -sa))
            raise AsmUnsupported('%s on pointer with %r' % (op, a))
        if isinstance(a, Addr):
            if op == 'ADDQ' and isinstance(b, int):
                sb = b - (1 << 64) if b >> 63 else b
                return Addr(a.region, a.off + sb)
            raise AsmUnsupported('%s pointer operand' % op)
        if isinstance(a, int) and isinstance(b, int):
            return {'ADDQ': (b + a) & M64, 'SUBQ': (b - a) & M64, 'ANDQ': b & a, 'ORQ': b | a, 'XORQ': b ^ a}[op]
        if TAINT[0]:
            return SEC(64)
        if op == 'XORQ' and isinstance(a, (int, Aff)) and isinstance(b, (int, Aff)):
            return aff_xor(a, b, 64)
        if op == 'ANDQ' and isinstance(a, int) and isinstance(b, Aff):
            return b.map(lambda v: v & a, 64)
        x, y = bv(b, 64), bv(a, 64)
        return simp({'ADDQ': x + y, 'SUBQ': x - y, 'ANDQ': x & y, 'ORQ': x | y, 'XORQ': x ^ y}[op])

    def step(self, ins):
        op, A, pc = ins.op, ins.args, ins.pc
        g = self.g
        if op in ('NOP', 'NOPL', 'NOPW'):
            return None
        if op == 'RET':
            return 'ret'
        if op == 'JMP':
            return int(A[0])
        if op in ('JLT', 'JGT', 'JEQ', 'JNE', 'JLE', 'JGE', 'JHI', 'JLS', 'JCS', 'JCC', 'JLO', 'JHS', 'JMI', 'JPL'):
            if self.flags is None:
                raise AsmUnsupported('conditional jump without a preceding compare at pc %d' % pc)
            if isinstance(self.flags[0], str) and self.flags[0] == 'result':
                # flags of a logic/arithmetic result: compare the (sign-extended) result with zero
                _, rv, rw = self.flags
                if isinstance(rv, int):
                    if rv >> (rw - 1):
                        rv = (rv - (1 << rw)) & M64
                    a, b = rv, 0
                else:
                    rt = bv(rv, rw)
                    a, b = (z3.SignExt(64 - rw, rt) if rw < 64 else rt), 0
            else:
                a, b = self.flags
            if isinstance(a, int) and isinstance(b, int):
                sa = a - (1 << 64) if a >> 63 else a
                sb = b - (1 << 64) if b >> 63 else b
                c = {'JLT': sa < sb, 'JGT': sa > sb, 'JEQ': sa == sb, 'JNE': sa != sb, 'JLE': sa <= sb, 'JGE': sa >= sb,
                     'JHI': a > b, 'JLS': a <= b, 'JCS': a < b, 'JLO': a < b, 'JCC': a >= b, 'JHS': a >= b, 'JMI': sa - sb < 0, 'JPL': sa - sb >= 0}[op]
            else:
                if isinstance(a, Addr) or isinstance(b, Addr):
                    raise AsmUnsupported('compare of pointers')
                x, y = bv(a, 64), bv(b, 64)
                if TAINT[0]:
                    x, y = z3.BitVec('secret_cmp_a', 64), z3.BitVec('secret_cmp_b', 64)
                cond = z3.simplify({'JLT': x < y, 'JGT': x > y, 'JEQ': x == y, 'JNE': x != y, 'JLE': x <= y, 'JGE': x >= y,
                                    'JHI': z3.UGT(x, y), 'JLS': z3.ULE(x, y), 'JCS': z3.ULT(x, y), 'JLO': z3.ULT(x, y), 'JCC': z3.UGE(x, y), 'JHS': z3.UGE(x, y),
                                    'JMI': (x - y) < 0, 'JPL': (x - y) >= 0}[op])
                if z3.is_true(cond):
                    c = True
                elif z3.is_false(cond):
                    c = False
                else:
                    self.events.append(('symbranch', pc, ins.text))
                    if self.branch_oracle is None:
                        raise AsmUnsupported('data-dependent branch at pc %d: %s' % (pc, ins.text))
                    c = self.branch_oracle(pc, cond)
                    self.branch_log.append((pc, cond, c))
            return int(A[0]) if c else None
        if op == 'CMPQ':
            self.flags = (self.src_val(A[0], 64, pc), self.src_val(A[1], 64, pc))
            return None
        if op in ('CMPB', 'CMPW', 'CMPL'):
            w = {'CMPB': 8, 'CMPW': 16, 'CMPL': 32}[op]
            a, b = self.src_val(A[0], w, pc), self.src_val(A[1], w, pc)
            if isinstance(a, Addr) or isinstance(b, Addr):
                raise AsmUnsupported('narrow compare of a pointer')

            def sx(v):
                if isinstance(v, int):
                    v &= (1 << w) - 1
                    return (v - (1 << w)) & M64 if v >> (w - 1) else v
                if TAINT[0]:
                    return SEC(64)
                return simp(z3.SignExt(64 - w, z3.Extract(w - 1, 0, bv(v, 64)) if bv(v, 64).size() > w else bv(v, w)))
            self.flags = (sx(a), sx(b))
            return None
        if op in ('MOVQ', 'MOVL', 'MOVW', 'MOVB'):
            width = {'MOVQ': 64, 'MOVL': 32, 'MOVW': 16, 'MOVB': 8}[op]
            s, d = A
            vd = self.vreg(d)
            vs = self.vreg(s)
            if vd:   # GPR/mem -> X (legacy SSE: MOVQ zeroes bits 127:64, MOVL bits 127:32; upper lanes are kept)
                if width not in (32, 64):
                    raise AsmUnsupported(ins.text)
                val = self.src_val(s, width, pc)
                if isinstance(val, Addr):
                    raise AsmUnsupported('pointer into vector register')
                if TAINT[0] and not isinstance(val, int):
                    lo = SEC(32)
                    hi = 0 if width == 32 else SEC(32)
                elif isinstance(val, Aff):
                    lo = val.map(lambda x: x & M32, 32)
                    hi = 0 if width == 32 else val.map(lambda x: (x >> 32) & M32, 32)
                else:
                    lo = val & M32 if isinstance(val, int) else simp(z3.Extract(31, 0, val))
                    hi = 0 if width == 32 else (val >> 32 if isinstance(val, int) else simp(z3.Extract(63, 32, val)))
                r = self.v[vd[1]]
                r[0], r[1], r[2], r[3] = lo, hi, 0, 0
                return None
            if vs:
                r = self.v[vs[1]]
                val = self.from_bytes(self.to_bytes(r[0], 4) + self.to_bytes(r[1], 4))
                self.dst_store(d, val, 64, pc)
                return None
            val = self.src_val(s, width, pc)
            if d in g and width in (16, 8) or d in GPR8:
                self.set_gpr(d, val, width, zero_extend=False)
            else:
                self.dst_store(d, val, width, pc)
            return None
        if op == 'LEAQ':
            a = self.ea(A[0])
            if isinstance(a, tuple):
                raise AsmUnsupported('LEAQ of frame slot')
            g[A[1]] = a
            return None
        if op in ('ADDQ', 'SUBQ', 'ANDQ', 'ORQ', 'XORQ'):
            s, d = A
            a = self.src_val(s, 64, pc)
            b = self.src_val(d, 64, pc)
            res = self.arith(op, a, b)
            self.dst_store(d, res, 64, pc)
            if op == 'SUBQ' and not isinstance(a, Addr) and not isinstance(b, Addr):
                self.flags = (b, a)            # dst - src: same flags as CMPQ dst, src
            elif isinstance(res, Addr):
                self.flags = None
            else:
                self.flags = ('result', res, 64)  # ZF/SF of the result (OF cleared for logic ops; ADDQ overflow is not modelled)
            return None
        if op in ('ORB', 'XORB'):
            s, d = A
            a = self.src_val(s, 8, pc)
            b = self.src_val(d, 8, pc)
            if isinstance(a, int) and isinstance(b, int):
                r = (a | b) if op == 'ORB' else (a ^ b)
            elif TAINT[0]:
                r = SEC(8)
            elif op == 'XORB' and isinstance(a, (int, Aff)) and isinstance(b, (int, Aff)):
                r = aff_xor(a, b, 8)
            else:
                r = simp((bv(a, 8) | bv(b, 8)) if op == 'ORB' else (bv(a, 8) ^ bv(b, 8)))
            if d in g:
                self.set_gpr(d, r, 8, zero_extend=False)
            else:
                self.dst_store(d, r, 8, pc)
            self.flags = ('result', r, 8)
            return None
        if op in ('SHLQ', 'SHRQ'):
            n = int(A[0][1:], 0)
            v = g[A[1]]
            if isinstance(v, Addr):
                raise AsmUnsupported('shift of pointer')
            if isinstance(v, int):
                g[A[1]] = (v << n) & M64 if op == 'SHLQ' else v >> n
            elif TAINT[0]:
                g[A[1]] = SEC(64)
            elif isinstance(v, Aff):
                g[A[1]] = v.map((lambda x: (x << n) & M64) if op == 'SHLQ' else (lambda x: x >> n), 64)
            else:
                g[A[1]] = simp(v << n if op == 'SHLQ' else z3.LShR(v, n))
            self.flags = ('result', g[A[1]], 64) if n else self.flags      # ZF/SF follow the shifted value (CF/OF not modelled)
            return None
        # ---- generic integer layer (not used by the current tree; a changed tree may use it): narrow ALU forms, unary
        # operators, tests, zero/sign extension, shifts and rotates by an immediate, byte swaps.  Values are ints, z3
        # terms or (taint mode) opaque secrets; pointers are refused except where noted.
        m_alu = re.match(r'^(ADD|SUB|AND|OR|XOR)([BWL])$', op)
        if m_alu:
            w = {'B': 8, 'W': 16, 'L': 32}[m_alu.group(2)]
            src, d = A
            a, b = self.src_val(src, w, pc), self.src_val(d, w, pc)
            if isinstance(a, Addr) or isinstance(b, Addr):
                raise AsmUnsupported('narrow arithmetic on a pointer: ' + ins.text)
            msk = (1 << w) - 1
            if isinstance(a, int) and isinstance(b, int):
                r = {'ADD': b + a, 'SUB': b - a, 'AND': b & a, 'OR': b | a, 'XOR': b ^ a}[m_alu.group(1)] & msk
            elif TAINT[0]:
                r = SEC(w)
            else:
                x, y = bv(b, w), bv(a, w)
                r = simp({'ADD': x + y, 'SUB': x - y, 'AND': x & y, 'OR': x | y, 'XOR': x ^ y}[m_alu.group(1)])
            if d in g or d in GPR8:
                self.set_gpr(d, r, w, zero_extend=(w == 32))
            else:
                self.dst_store(d, r, w, pc)
            self.flags = ('result', r, w) if m_alu.group(1) != 'SUB' else ((b, a) if isinstance(a, int) and isinstance(b, int) else ('result', r, w))
            return None
        m_un = re.match(r'^(INC|DEC|NEG|NOT)([BWLQ])$', op)
        if m_un:
            w = {'B': 8, 'W': 16, 'L': 32, 'Q': 64}[m_un.group(2)]
            d = A[0]
            b = self.src_val(d, w, pc)
            msk = (1 << w) - 1
            if isinstance(b, Addr):
                if m_un.group(1) in ('INC', 'DEC') and w == 64:
                    r = Addr(b.region, b.off + (1 if m_un.group(1) == 'INC' else -1))
                    self.dst_store(d, r, 64, pc)
                    self.flags = None
                    return None
                raise AsmUnsupported('unary operator on a pointer: ' + ins.text)
            if isinstance(b, int):
                r = {'INC': b + 1, 'DEC': b - 1, 'NEG': -b, 'NOT': ~b}[m_un.group(1)] & msk
            elif TAINT[0]:
                r = SEC(w)
            else:
                x = bv(b, w)
                r = simp({'INC': x + 1, 'DEC': x - 1, 'NEG': -x, 'NOT': ~x}[m_un.group(1)])
            if d in g or d in GPR8:
                self.set_gpr(d, r, w, zero_extend=(w == 32))
            else:
                self.dst_store(d, r, w, pc)
            if m_un.group(1) != 'NOT':
                self.flags = ('result', r, w)
            return None
        m_t = re.match(r'^TEST([BWLQ])$', op)
        if m_t:
            w = {'B': 8, 'W': 16, 'L': 32, 'Q': 64}[m_t.group(1)]
            a, b = self.src_val(A[0], w, pc), self.src_val(A[1], w, pc)
            if isinstance(a, Addr) or isinstance(b, Addr):
                if A[0] == A[1]:
                    self.flags = ('result', 1, 64)       # a non-nil pointer tested against itself
                    return None
                raise AsmUnsupported('test of a pointer: ' + ins.text)
            if isinstance(a, int) and isinstance(b, int):
                r = a & b
            elif TAINT[0]:
                r = SEC(w)
            else:
                r = simp(bv(a, w) & bv(b, w))
            self.flags = ('result', r, w)
            return None
        m_x = re.match(r'^MOV([BWL])([WLQ])(ZX|SX)$', op)
        if m_x:
            w = {'B': 8, 'W': 16, 'L': 32}[m_x.group(1)]
            a = self.src_val(A[0], w, pc)
            if isinstance(a, Addr):
                raise AsmUnsupported('extension of a pointer: ' + ins.text)
            if isinstance(a, int):
                a &= (1 << w) - 1
                r = a if m_x.group(3) == 'ZX' or not a >> (w - 1) else (a - (1 << w)) & M64
            elif TAINT[0]:
                r = SEC(64)
            elif isinstance(a, Aff) and m_x.group(3) == 'ZX':
                r = Aff(64, list(a.v))
            else:
                r = simp((z3.ZeroExt if m_x.group(3) == 'ZX' else z3.SignExt)(64 - w, bv(a, w)))
            g[A[1]] = r if m_x.group(2) == 'Q' or isinstance(r, (Aff,)) or not isinstance(r, int) else r & M32
            if m_x.group(2) == 'L' and isinstance(r, int):
                g[A[1]] = r & M32
            return None
        m_s = re.match(r'^(SHL|SHR|SAR|ROL|ROR)([LQ])$', op)
        if m_s and op not in ('SHLQ', 'SHRQ') and A[0].startswith('$'):
            w = 32 if m_s.group(2) == 'L' else 64
            k = int(A[0][1:], 0) % w
            v = self.src_val(A[1], w, pc)
            if isinstance(v, Addr):
                raise AsmUnsupported('shift of pointer')
            msk = (1 << w) - 1
            if isinstance(v, int):
                sv = v - (1 << w) if v >> (w - 1) else v
                r = {'SHL': (v << k) & msk, 'SHR': v >> k, 'SAR': (sv >> k) & msk, 'ROL': ((v << k) | (v >> (w - k))) & msk if k else v, 'ROR': ((v >> k) | (v << (w - k))) & msk if k else v}[m_s.group(1)]
            elif TAINT[0]:
                r = SEC(w)
            else:
                x = bv(v, w)
                r = simp({'SHL': x << k, 'SHR': z3.LShR(x, k), 'SAR': x >> k, 'ROL': z3.RotateLeft(x, k), 'ROR': z3.RotateRight(x, k)}[m_s.group(1)])
            self.set_gpr(A[1], r, w) if A[1] in g else self.dst_store(A[1], r, w, pc)
            self.flags = None
            return None
        if op in ('BSWAPQ', 'BSWAPL'):
            w = 64 if op == 'BSWAPQ' else 32
            v = self.get_gpr(A[0], w)
            if isinstance(v, Addr):
                raise AsmUnsupported('byte swap of a pointer')
            cells = self.to_bytes(v, w // 8)
            self.set_gpr(A[0], self.from_bytes(list(reversed(cells))), w)
            return None
        if op in ('KORTESTW', 'KORTESTB', 'KORTESTQ', 'KORTESTD'):
            w = {'B': 8, 'W': 16, 'D': 32, 'Q': 64}[op[-1]]
            a, b = self.k[int(A[0][1:])], self.k[int(A[1][1:])]
            if isinstance(a, int) and isinstance(b, int):
                r = (a | b) & ((1 << w) - 1)
            elif TAINT[0]:
                r = SEC(w)
            else:
                r = simp(z3.Extract(w - 1, 0, bv(a, 64)) | z3.Extract(w - 1, 0, bv(b, 64)))
            self.flags = ('result', r, w)      # ZF = (k1 | k2) == 0; the carry flag (all ones) is not modelled
            return None
        if op in ('VPTEST', 'PTEST'):
            # ZF = ((a AND b) == 0) over the whole register; the carry flag (ANDN) is not modelled
            cls = A[0][0] if A[0][0] in 'XYZ' else A[1][0]
            n = self.vwidth(cls)
            x, y = self.vsrc(A[0], n, pc), self.vsrc(A[1], n, pc)
            ands = [self.l_and(x[i], y[i]) for i in range(n)]
            if all(isinstance(t, int) for t in ands):
                r = 0
                for t in ands:
                    r |= t
            elif TAINT[0]:
                r = SEC(32)
            else:
                r = bv(ands[0], 32)
                for t in ands[1:]:
                    r = r | bv(t, 32)
                r = simp(r)
            self.flags = ('result', r, 32)
            return None
        if op in ('VPTESTMQ', 'VPTESTMD', 'VPTESTNMQ', 'VPTESTNMD'):
            cls = A[0][0] if A[0][0] in 'XYZ' else A[1][0]
            n = self.vwidth(cls)
            x, y = self.vsrc(A[0], n, pc), self.vsrc(A[1], n, pc)
            step = 2 if op.endswith('Q') else 1
            neg = 'NM' in op
            bits = []
            for i in range(0, n, step):
                ands = [self.l_and(x[i + j], y[i + j]) for j in range(step)]
                if all(isinstance(t, int) for t in ands):
                    nz = any(t != 0 for t in ands)
                    bits.append(int(nz != neg))
                elif TAINT[0]:
                    bits.append(None)
                else:
                    nzc = z3.Or(*[bv(t, 32) != 0 for t in ands])
                    bits.append(z3.If(z3.Not(nzc) if neg else nzc, z3.BitVecVal(1, 64), z3.BitVecVal(0, 64)))
            if any(b is None for b in bits):
                val = SEC(64)
            elif all(isinstance(b, int) for b in bits):
                val = sum(b << i for i, b in enumerate(bits))
            else:
                val = 0
                for i, b in enumerate(bits):
                    t = (bv(b, 64) << i) if not isinstance(b, int) else (b << i)
                    val = t if (isinstance(val, int) and val == 0) else (bv(val, 64) | bv(t, 64))
                val = simp(val)
            self.k[int(A[2][1:])] = val
            return None
        if op == 'KMOVW':
            v = self.src_val(A[0], 64, pc)
            if not isinstance(v, int):
                raise AsmUnsupported('symbolic mask register')
            self.k[int(A[1][1:])] = v & 0xffff
            return None
        return self.vstep(ins)

    # ---- vector instructions
    def vsrc(self, s, n, pc, elem_mask=None):
        """n dword lanes of a vector source operand (register or memory)"""
        vr = self.vreg(s)
        if vr:
            return list(self.v[vr[1]][:n])
        a = self.ea(s)
        if isinstance(a, tuple):
            raise AsmUnsupported('vector load from frame')
        bmask = None
        if elem_mask is not None:
            bmask = []
            for e in elem_mask:
                bmask += [e] * 4
        cells = self.mem_read(a, 4 * n, pc, bmask)
        return self.bytes_to_lanes(cells)

    def vdst(self, s, lanes, legacy=False):
        cls, idx = self.vreg(s)
        r = self.v[idx]
        n = len(lanes)
        for i in range(n):
            r[i] = lanes[i]
        if not legacy:
            for i in range(n, 16):
                r[i] = 0

    def kmask(self, kname, n):
        m = self.k[int(kname[1:])]
        if not isinstance(m, int):
            raise AsmUnsupported('data-dependent write mask ' + kname)
        return [(m >> i) & 1 for i in range(n)]

    @staticmethod
    def l_xor(a, b):
        if TAINT[0] and not (isinstance(a, int) and isinstance(b, int)):
            return SEC(32)
        if isinstance(a, int) and isinstance(b, int):
            return a ^ b
        if isinstance(a, (int, Aff)) and isinstance(b, (int, Aff)):
            return aff_xor(a, b, 32)
        return simp(bv(a, 32) ^ bv(b, 32))

    @staticmethod
    def l_and(a, b):
        if TAINT[0] and not (isinstance(a, int) and isinstance(b, int)):
            return SEC(32)
        if isinstance(a, int) and isinstance(b, int):
            return a & b
        if isinstance(a, Aff) and isinstance(b, int):
            return a.map(lambda v: v & b, 32)
        if isinstance(b, Aff) and isinstance(a, int):
            return b.map(lambda v: v & a, 32)
        return simp(bv(a, 32) & bv(b, 32))

    @staticmethod
    def l_add(a, b):
        if TAINT[0] and not (isinstance(a, int) and isinstance(b, int)):
            return SEC(32)
        if isinstance(a, int) and isinstance(b, int):
            return (a + b) & M32
        if isinstance(a, int) and a == 0:
            return b
        if isinstance(b, int) and b == 0:
            return a
        return simp(bv(a, 32) + bv(b, 32))

    @staticmethod
    def l_rol(a, n):
        n %= 32
        if TAINT[0] and not isinstance(a, int):
            return SEC(32)
        if isinstance(a, int):
            return ((a << n) | (a >> (32 - n))) & M32 if n else a
        if isinstance(a, Aff):
            return a.map(lambda v: (((v << n) | (v >> (32 - n))) & M32) if n else v, 32)
        return simp(z3.RotateLeft(a, n))

    def vstep(self, ins):
        op, A, pc = ins.op, ins.args, ins.pc
        dst = A[-1]
        dv = self.vreg(dst)
        n = self.vwidth(dv[0]) if dv else None
        if op in ('VPADDW', 'VPADDB', 'VPADDQ'):
            ew = {'VPADDB': 8, 'VPADDW': 16, 'VPADDQ': 64}[op]
            a = self.vsrc(A[0], n, pc)
            b = self.vsrc(A[1], n, pc)
            if all(isinstance(x, int) for x in a + b):
                ba, bb = self.lanes_to_bytes(a), self.lanes_to_bytes(b)
                out = []
                k = ew // 8
                for i in range(0, len(ba), k):
                    x = sum(ba[i + j] << (8 * j) for j in range(k))
                    y = sum(bb[i + j] << (8 * j) for j in range(k))
                    z = (x + y) & ((1 << ew) - 1)
                    out += [(z >> (8 * j)) & 0xff for j in range(k)]
                self.vdst(dst, self.bytes_to_lanes(out))
            elif TAINT[0]:
                self.vdst(dst, [SEC(32) if not (isinstance(x, int) and isinstance(y, int)) else 0 for x, y in zip(a, b)])
            else:
                out = []
                for x, y in zip(a, b) if ew <= 32 else []:
                    if isinstance(x, int) and isinstance(y, int):
                        parts = [(((x >> s_) + (y >> s_)) & ((1 << ew) - 1)) << s_ for s_ in range(0, 32, ew)]
                        out.append(sum(parts) & M32)
                    else:
                        xs, ys = bv(x, 32), bv(y, 32)
                        out.append(simp(z3.Concat(*[z3.Extract(s_ + ew - 1, s_, xs) + z3.Extract(s_ + ew - 1, s_, ys) for s_ in range(32 - ew, -1, -ew)])))
                if ew > 32:
                    raise AsmUnsupported('symbolic VPADDQ')
                self.vdst(dst, out)
            return None
        if op in ('VPXORD', 'VPANDD', 'VPADDD'):
            f = {'VPXORD': self.l_xor, 'VPANDD': self.l_and, 'VPADDD': self.l_add}[op]
            if op == 'VPXORD' and A[0] == A[1]:
                self.vdst(dst, [0] * n)   # zeroing idiom: the result does not depend on the old contents
                return None
            a = self.vsrc(A[0], n, pc)
            b = self.vsrc(A[1], n, pc)
            self.vdst(dst, [f(x, y) for x, y in zip(a, b)])
            return None
        if op in ('KXNORW', 'KXORW', 'KORW', 'KANDW'):
            a, b = self.k[int(A[0][1:])], self.k[int(A[1][1:])]
            if isinstance(a, int) and isinstance(b, int):
                r = {'KXNORW': ~(a ^ b), 'KXORW': a ^ b, 'KORW': a | b, 'KANDW': a & b}[op] & 0xffff
            elif op in ('KXNORW', 'KXORW') and A[0] == A[1]:
                r = 0xffff if op == 'KXNORW' else 0
            else:
                r = SEC(64)
            self.k[int(A[2][1:])] = r
            return None
        if op == 'VPMOVZXBD':
            src = self.vsrc(A[0], (n + 3) // 4, pc)
            bs = self.lanes_to_bytes(src)[:n]
            self.vdst(dst, list(bs))
            return None
        if op == 'VPMOVDB':
            cls, idx = self.vreg(A[0])
            ns = self.vwidth(cls)
            bs = []
            for x in self.v[idx][:ns]:
                bs.append(self.to_bytes(x, 4)[0])
            bs += [0] * (16 - len(bs))
            lanes = self.bytes_to_lanes(bs[:16])
            dcls, didx = self.vreg(A[1])
            self.vdst(A[1], lanes + [0] * (self.vwidth(dcls) - 4) if self.vwidth(dcls) > 4 else lanes[:self.vwidth(dcls)])
            return None
        if op == 'VPGATHERDD':
            m = re.match(r'^(-?\d+)?\((\w+)\)\(([XYZ]\d+)\*(\d)\)$', A[0])
            if not m:
                raise AsmUnsupported('gather operand ' + A[0])
            disp, base, ireg, scale = int(m.group(1) or 0), self.get_gpr(m.group(2)), m.group(3), int(m.group(4))
            idx = self.v[self.vreg(ireg)[1]]
            msk = self.kmask(A[1], n)
            old = self.v[self.vreg(dst)[1]]
            out = []
            for i in range(n):
                if not msk[i]:
                    out.append(old[i])
                    continue
                if not isinstance(idx[i], int):
                    self.events.append(('symaddr', pc, 'gather through data-dependent index: ' + ins.text))
                    out.append(SEC(32) if TAINT[0] else self.from_bytes([self.fresh8('symaddr') for _ in range(4)]))
                    continue
                if not isinstance(base, Addr):
                    raise AsmUnsupported('gather base is not an address')
                out.append(self.from_bytes(self.mem_read(Addr(base.region, base.off + disp + idx[i] * scale), 4, pc)))
            self.vdst(dst, out)
            self.k[int(A[1][1:])] = 0
            return None
        if op == 'VPROLD':
            k = int(A[0][1:], 0)
            a = self.vsrc(A[1], n, pc)
            self.vdst(dst, [self.l_rol(x, k) for x in a])
            return None
        if op in ('VMOVDQU32', 'VMOVDQA64', 'VMOVAPD', 'VMOVDQU64', 'VMOVDQU8', 'VMOVDQA32'):
            aligned = op in ('VMOVDQA64', 'VMOVAPD', 'VMOVDQA32')
            if len(A) == 3:
                s, kreg, d = A
            else:
                (s, d), kreg = A, None
            if self.vreg(d):
                cls, _ = self.vreg(d)
                n = self.vwidth(cls)
                if self.is_mem(s) and aligned:
                    self.events.append(('align', pc, ins.text))
                if kreg:
                    msk = self.kmask(kreg, n)
                    new = self.vsrc(s, n, pc, msk)
                    old = self.v[self.vreg(d)[1]]
                    self.vdst(d, [new[i] if msk[i] else old[i] for i in range(n)])
                else:
                    self.vdst(d, self.vsrc(s, n, pc))
            else:
                cls, idx = self.vreg(s)
                n = self.vwidth(cls)
                if aligned:
                    self.events.append(('align', pc, ins.text))
                a = self.ea(d)
                cells = self.lanes_to_bytes(self.v[idx][:n])
                bmask = None
                if kreg:
                    bmask = []
                    for e in self.kmask(kreg, n):
                        bmask += [e] * 4
                self.mem_write(a, cells, pc, bmask)
            return None
        if op == 'VPBROADCASTD':
            s = A[0]
            if self.vreg(s):
                x = self.v[self.vreg(s)[1]][0]
            elif s in self.g:
                x = self.get_gpr(s, 32)
            else:
                x = self.vsrc(s, 1, pc)[0]
            self.vdst(dst, [x] * n)
            return None
        if op in ('VBROADCASTI32X2', 'VBROADCASTI32X4'):
            m = 2 if op.endswith('X2') else 4
            src = self.vsrc(A[0], m, pc)
            self.vdst(dst, [src[i % m] for i in range(n)])
            return None
        if op in ('VGF2P8AFFINEQB', 'VGF2P8AFFINEINVQB'):
            imm = int(A[0][1:], 0)
            mat = self.vsrc(A[1], n, pc)
            x = self.vsrc(A[2], n, pc)
            out = []
            for q in range(0, n, 2):
                mq = (mat[q], mat[q + 1])
                if not (isinstance(mq[0], int) and isinstance(mq[1], int)):
                    raise AsmUnsupported('symbolic affine matrix')
                tab = affine_table(mq[0] | (mq[1] << 32), imm, op == 'VGF2P8AFFINEINVQB')
                for l in (x[q], x[q + 1]):
                    bs = self.to_bytes(l, 4)
                    out.append(self.from_bytes([apply_table(tab, b) for b in bs]))
            self.vdst(dst, out)
            return None
        if op == 'VPSHUFB':
            if len(A) == 4:
                idxs, data, kreg, _ = A
            else:
                (idxs, data, _), kreg = A, None
            ib = self.lanes_to_bytes(self.vsrc(idxs, n, pc))
            db = self.lanes_to_bytes(self.vsrc(data, n, pc))
            out = []
            for i in range(4 * n):
                lane = i // 16 * 16
                ix = ib[i]
                if isinstance(ix, int):
                    out.append(0 if ix & 0x80 else db[lane + (ix & 15)])
                elif TAINT[0]:
                    out.append(SEC(8))
                else:
                    tabv = db[lane:lane + 16]
                    if not all(isinstance(t, int) for t in tabv):
                        raise AsmUnsupported('VPSHUFB with symbolic index and symbolic table')
                    if isinstance(ix, Aff) and not any(x & 0xf0 for x in ix.v):
                        # index is a nibble: a 16-entry table; GF(2)-affine tables (bit permutations) stay affine forms
                        t16 = tuple(tabv)
                        c0 = t16[0]
                        cols4 = [t16[1 << b] ^ c0 for b in range(4)]
                        if all(t16[n] == c0 ^ (cols4[0] if n & 1 else 0) ^ (cols4[1] if n & 2 else 0) ^ (cols4[2] if n & 4 else 0) ^ (cols4[3] if n & 8 else 0) for n in range(16)):
                            out.append(ix.mapaff(lambda x: t16[x & 15], 8))
                            continue
                    # index comes masked to a nibble in this code base (AND with 0x0f): table over the low 4 bits,
                    # bit 7 clears the byte
                    tab = tuple((0 if v & 0x80 else tabv[v & 15]) for v in range(256))
                    out.append(apply_table(tab, ix))
            if kreg:
                m = self.k[int(kreg[1:])]
                old = self.lanes_to_bytes(self.v[self.vreg(dst)[1]][:n])
                out = [out[i] if (m >> i) & 1 else old[i] for i in range(4 * n)]
            self.vdst(dst, self.bytes_to_lanes(out))
            return None
        if op in ('VPUNPCKLDQ', 'VPUNPCKHDQ', 'VPUNPCKLQDQ', 'VPUNPCKHQDQ'):
            s2 = self.vsrc(A[0], n, pc)
            s1 = self.vsrc(A[1], n, pc)
            out = []
            for l in range(0, n, 4):
                a, b = s1[l:l + 4], s2[l:l + 4]
                if op == 'VPUNPCKLDQ':
                    out += [a[0], b[0], a[1], b[1]]
                elif op == 'VPUNPCKHDQ':
                    out += [a[2], b[2], a[3], b[3]]
                elif op == 'VPUNPCKLQDQ':
                    out += [a[0], a[1], b[0], b[1]]
                else:
                    out += [a[2], a[3], b[2], b[3]]
            self.vdst(dst, out)
            return None
        if op == 'VALIGND':
            k = int(A[0][1:], 0) % n
            lo = self.vsrc(A[1], n, pc)
            hi = self.vsrc(A[2], n, pc)
            cat = lo + hi
            self.vdst(dst, cat[k:k + n])
            return None
        if op == 'VPERMQ':
            if A[0].startswith('$'):
                imm = int(A[0][1:], 0)
                src = self.vsrc(A[1], n, pc)
                out = []
                for l in range(0, n, 8):
                    for q in range(4):
                        sel = (imm >> (2 * q)) & 3
                        out += [src[l + 2 * sel], src[l + 2 * sel + 1]]
                self.vdst(dst, out)
                return None
            if len(A) == 4:
                data, idx, kreg, _ = A
            else:
                (data, idx, _), kreg = A, None
            d = self.vsrc(data, n, pc)
            ix = self.vsrc(idx, n, pc)
            nq = n // 2
            out = []
            for q in range(nq):
                sel = ix[2 * q]
                if not isinstance(sel, int):
                    raise AsmUnsupported('VPERMQ with symbolic index')
                sel &= nq - 1
                out += [d[2 * sel], d[2 * sel + 1]]
            if kreg:
                m = self.k[int(kreg[1:])]
                old = self.v[self.vreg(dst)[1]]
                out = [out[i] if (m >> (i // 2)) & 1 else old[i] for i in range(n)]
            self.vdst(dst, out)
            return None
        if op in ('VPSRLDQ', 'VPSLLDQ', 'PSLLO', 'PSLLDQ', 'PSRLDQ', 'PSRLO'):
            k = int(A[0][1:], 0)
            legacy = not op.startswith('V')
            src = A[1]
            if legacy:
                n = 4
            b = self.lanes_to_bytes(self.vsrc(src, n, pc))
            out = []
            left = op in ('VPSLLDQ', 'PSLLO', 'PSLLDQ')
            for l in range(0, 4 * n, 16):
                blk = b[l:l + 16]
                if left:
                    out += [0] * min(k, 16) + blk[:max(0, 16 - k)]
                else:
                    out += blk[min(k, 16):] + [0] * min(k, 16)
            self.vdst(dst, self.bytes_to_lanes(out), legacy=legacy)
            return None
        if op == 'VPSRLW':
            k = int(A[0][1:], 0)
            a = self.vsrc(A[1], n, pc)
            msk = ((0xffff >> k) | ((0xffff >> k) << 16))
            out = []
            for x in a:
                if isinstance(x, int):
                    out.append((x >> k) & msk)
                elif TAINT[0]:
                    out.append(SEC(32))
                elif isinstance(x, Aff):
                    out.append(x.map(lambda v: (v >> k) & msk, 32))
                else:
                    out.append(simp(z3.LShR(x, k) & msk))
            self.vdst(dst, out)
            return None
        if op == 'VPSLLQ':
            k = int(A[0][1:], 0)
            a = self.vsrc(A[1], n, pc)
            out = []
            for q in range(0, n, 2):
                lo, hi = a[q], a[q + 1]
                if isinstance(lo, int) and isinstance(hi, int):
                    v = ((lo | (hi << 32)) << k) & M64
                    out += [v & M32, v >> 32]
                elif TAINT[0]:
                    out += [SEC(32), SEC(32)]
                elif isinstance(lo, (int, Aff)) and isinstance(hi, (int, Aff)):
                    q = self.from_bytes(self.to_bytes(lo, 4) + self.to_bytes(hi, 4))
                    q = q.map(lambda v: (v << k) & M64, 64) if isinstance(q, Aff) else (q << k) & M64
                    out += self.bytes_to_lanes(self.to_bytes(q, 8))
                else:
                    v = simp(z3.Concat(bv(hi, 32), bv(lo, 32)) << k)
                    out += self.bytes_to_lanes(self.to_bytes(v, 8))
            self.vdst(dst, out)
            return None
        if op == 'VPCLMULQDQ':
            imm = int(A[0][1:], 0)
            s2 = self.vsrc(A[1], n, pc)   # imm bit 4 selects its qword
            s1 = self.vsrc(A[2], n, pc)   # imm bit 0 selects its qword
            out = []
            for l in range(0, n, 4):
                q1 = (imm & 1) * 2
                q2 = ((imm >> 4) & 1) * 2
                a = self.from_bytes(self.to_bytes(s1[l + q1], 4) + self.to_bytes(s1[l + q1 + 1], 4))
                b = self.from_bytes(self.to_bytes(s2[l + q2], 4) + self.to_bytes(s2[l + q2 + 1], 4))
                p = clmul64(a, b)
                out += self.bytes_to_lanes(self.to_bytes(p, 16))
            self.vdst(dst, out)
            return None
        raise AsmUnsupported('mnemonic %s (%s)' % (op, ins.text))
