# shared plumbing for the checks: SSA regeneration, engine construction
import os, sys, time, json, subprocess
HERE = os.path.dirname(os.path.dirname(os.path.abspath(__file__)))
sys.path.insert(0, os.path.join(HERE, 'engine'))
import gosym, models

REPO = os.environ.get('VERIF_REPO', '/repo')
OUT = os.environ.get('VERIF_OUT') or os.path.join(HERE, 'out')   # VERIF_REPO/VERIF_OUT: used by tools/seedmatrix.sh only
EVIDENCE_DIR = os.path.join(OUT, 'evidence') if os.environ.get('VERIF_OUT') else os.path.join(HERE, 'evidence')
MOD = 'github.com/bilibili/smgo'
PKGS = [MOD + '/sm2', MOD + '/sm3', MOD + '/sm4', MOD + '/utils', MOD + '/sm2/internal', MOD + '/sm2/internal/fiat',
        'crypto/subtle']
EXTRA_FUNCS = ['(encoding/binary.bigEndian).Uint16', '(encoding/binary.bigEndian).PutUint16',
               '(encoding/binary.bigEndian).Uint32', '(encoding/binary.bigEndian).PutUint32',
               '(encoding/binary.bigEndian).Uint64', '(encoding/binary.bigEndian).PutUint64',
               '(encoding/binary.littleEndian).Uint64', '(encoding/binary.littleEndian).PutUint64',
               'io.ReadFull', 'io.ReadAtLeast', 'io.init']
GOENV = dict(os.environ, GOFLAGS='-mod=mod', GOPROXY='off', GOSUMDB='off', GOTOOLCHAIN='local')


def ensure_tools():
    binp = os.path.join(HERE, 'out', 'bin', 'ssajson')
    src = os.path.join(HERE, 'tools', 'ssajson')
    if not os.path.exists(binp) or os.path.getmtime(binp) < os.path.getmtime(os.path.join(src, 'main.go')):
        os.makedirs(os.path.dirname(binp), exist_ok=True)
        r = subprocess.run(['go', 'build', '-o', binp, '.'], cwd=src, env=GOENV, capture_output=True, text=True)
        if r.returncode != 0:
            raise RuntimeError('building ssajson failed: ' + r.stderr)
    return binp


def dump_ssa(tag='default', overlay=None, goarch=None, tags=None, pkgs=None, extra=None):
    """regenerate the SSA dump from the current /repo tree (always, never cached across runs)"""
    binp = ensure_tools()
    os.makedirs(OUT, exist_ok=True)
    outp = os.path.join(OUT, 'ssa_%s_%d.json' % (tag, os.getpid()))
    cmd = [binp, '-dir', REPO, '-pkgs', ','.join(pkgs or PKGS), '-funcs', ','.join(EXTRA_FUNCS + (extra or [])), '-o', outp]
    if overlay:
        ov = os.path.join(OUT, 'overlay_%s_%d.json' % (tag, os.getpid()))
        json.dump(overlay, open(ov, 'w'))
        cmd += ['-overlay', ov]
    if goarch:
        cmd += ['-goarch', goarch]
    if tags:
        cmd += ['-tags', tags]
    cmd += ['./...']
    t0 = time.time()
    r = subprocess.run(cmd, capture_output=True, text=True, env=GOENV, timeout=600)
    if r.returncode != 0:
        raise RuntimeError('ssajson failed: ' + r.stderr + r.stdout)
    prog = gosym.Program(outp)
    os.unlink(outp)
    prog.dump_s = time.time() - t0
    return prog


def new_engine(prog, timeout_ms=20000, cando_asm=False):
    eng = gosym.Engine(prog, timeout_ms=timeout_ms)
    eng.cando_asm = cando_asm
    models.install_common(eng)
    return eng


# ---- optional query dump for tools/crosscheck.py (never active in the registered commands): VERIF_DUMP_SMT=<dir>
# writes the SMT-LIB2 text of up to 3 solver queries per distinct call site together with z3's verdict
if os.environ.get('VERIF_DUMP_SMT'):
    import z3 as _z3, inspect as _inspect
    _dump_dir = os.environ['VERIF_DUMP_SMT']
    os.makedirs(_dump_dir, exist_ok=True)
    _seen_sites = {}
    _orig_check = _z3.Solver.check

    def _dumping_check(self, *assumptions):
        r = _orig_check(self, *assumptions)
        try:
            site = None
            for fr in _inspect.stack()[1:6]:
                if 'z3' not in os.path.basename(os.path.dirname(fr.filename)):
                    site = '%s_%d' % (os.path.basename(fr.filename).replace('.py', ''), fr.lineno)
                    break
            n = _seen_sites.get(site, 0)
            if site and n < 8 and len(_seen_sites) < 200:
                _seen_sites[site] = n + 1
                s2 = _z3.Solver()
                s2.add(self.assertions())
                for a in assumptions:
                    s2.add(a)
                txt = s2.to_smt2()
                if len(txt) < 3_000_000:
                    tag = os.path.basename(sys.argv[0]).replace('.py', '')
                    open(os.path.join(_dump_dir, '%s__%s__%d.smt2' % (tag, site, n)), 'w').write('; expected: %s\n%s' % (r, txt))
        except Exception:
            pass
        return r
    _z3.Solver.check = _dumping_check
