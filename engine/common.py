# shared plumbing for the checks: SSA regeneration, engine construction
import os, sys, time, json, subprocess
HERE = os.path.dirname(os.path.dirname(os.path.abspath(__file__)))
sys.path.insert(0, os.path.join(HERE, 'engine'))
import gosym, models

REPO = os.environ.get('VERIF_REPO', '/repo')
OUT = os.environ.get('VERIF_OUT') or os.path.join(HERE, 'out')   # VERIF_REPO/VERIF_OUT: used by tools/seedmatrix.sh only
EVIDENCE_DIR = os.path.join(OUT, 'evidence') if os.environ.get('VERIF_OUT') else os.path.join(HERE, 'evidence')
MOD = 'github.com/bilibili/smgo'
PKGS = [MOD + '/sm2', MOD + '/sm3', MOD + '/sm4', MOD + '/utils', MOD + '/sm2/internal', MOD + '/sm2/internal/fiat',
        'crypto/subtle']
EXTRA_FUNCS = ['(encoding/binary.bigEndian).Uint16', '(encoding/binary.bigEndian).PutUint16',
               '(encoding/binary.bigEndian).Uint32', '(encoding/binary.bigEndian).PutUint32',
               '(encoding/binary.bigEndian).Uint64', '(encoding/binary.bigEndian).PutUint64',
               '(encoding/binary.littleEndian).Uint64', '(encoding/binary.littleEndian).PutUint64',
               'io.ReadFull', 'io.ReadAtLeast', 'io.init']
GOENV = dict(os.environ, GOFLAGS='-mod=mod', GOPROXY='off', GOSUMDB='off', GOTOOLCHAIN='local')


def ensure_tools():
    binp = os.path.join(HERE, 'out', 'bin', 'ssajson')
    src = os.path.join(HERE, 'tools', 'ssajson')
    if not os.path.exists(binp) or os.path.getmtime(binp) < os.path.getmtime(os.path.join(src, 'main.go')):
        os.makedirs(os.path.dirname(binp), exist_ok=True)
        r = subprocess.run(['go', 'build', '-o', binp, '.'], cwd=src, env=GOENV, capture_output=True, text=True)
        if r.returncode != 0:
            raise RuntimeError('building ssajson failed: ' + r.stderr)
    return binp


def dump_ssa(tag='default', overlay=None, goarch=None, tags=None, pkgs=None, extra=None):
    """regenerate the SSA dump from the current /repo tree (always, never cached across runs)"""
    binp = ensure_tools()
    os.makedirs(OUT, exist_ok=True)
    outp = os.path.join(OUT, 'ssa_%s_%d.json' % (tag, os.getpid()))
    cmd = [binp, '-dir', REPO, '-pkgs', ','.join(pkgs or PKGS), '-funcs', ','.join(EXTRA_FUNCS + (extra or [])), '-o', outp]
    if overlay:
        ov = os.path.join(OUT, 'overlay_%s_%d.json' % (tag, os.getpid()))
        json.dump(overlay, open(ov, 'w'))
        cmd += ['-overlay', ov]
    if goarch:
        cmd += ['-goarch', goarch]
    if tags:
        cmd += ['-tags', tags]
    cmd += ['./...']
    t0 = time.time()
    r = subprocess.run(cmd, capture_output=True, text=True, env=GOENV, timeout=600)
    if r.returncode != 0:
        raise RuntimeError('ssajson failed: ' + r.stderr + r.stdout)
    prog = gosym.Program(outp)
    os.unlink(outp)
    prog.dump_s = time.time() - t0
    return prog


def new_engine(prog, timeout_ms=20000, cando_asm=False):
    eng = gosym.Engine(prog, timeout_ms=timeout_ms)
    eng.cando_asm = cando_asm
    models.install_common(eng)
    return eng
