# Bridge between gosym (Go glue from go/ssa) and asmsym (assembly from the assembler listing): calls to
# body-less Go functions of package sm4 are executed by the assembly interpreter on regions that mirror the
# gosym heap objects the pointer arguments point into.  Footprints are checked against those objects: the
# part of an object beyond the `valid` length registered for it (slice length) counts as out of bounds.
import z3
import gosym
from gosym import Ptr, Slice, GoPanic, Unsupported, force
import asmsym
from asmsym import Machine, Addr


class AsmCall:
    """record of one assembly call made by the glue"""

    def __init__(self, name):
        self.name = name
        self.events = []
        self.reads = []
        self.writes = []
        self.steps = 0
        self.branch_log = []


def layout(prog, f):
    """ABI0 frame layout of a Go function declaration: [(param name, type id, offset, size)], result offsets"""
    off = 0
    out = []
    for p in f['params']:
        t = p['t']
        k = prog.kind(t)
        size = 24 if k == 'slice' else 8
        out.append((p['n'], t, off, size, k))
        off += size
    res = []
    for t in f['results']:
        res.append((t, off))
        off += 8
    return out, res


def install(eng, listing, pkg='github.com/bilibili/smgo/sm4', on_call=None, machine_cls=None):
    eng.asm_calls = []
    eng.asm_machine = (machine_cls or Machine)(listing)
    eng.asm_valid = {}     # heap object id -> number of leading bytes that belong to the caller-visible slice

    def make(fname, short):
        f = eng.prog.funcs[fname]
        params, results = layout(eng.prog, f)

        def model(e, args, ins):
            m = e.asm_machine
            m.reset()
            rec = AsmCall(short)
            frame = {}
            regions = {}

            def region_for(obj, path):
                key = (obj, path)
                if key not in regions:
                    arr = e._nav(e.heap[obj][0], path)
                    if not isinstance(arr, list):
                        raise Unsupported('assembly pointer into a scalar object')
                    flat, esz = flatten(arr)
                    name = 'obj%d_%s' % (obj, '_'.join(map(str, path)))
                    valid = e.asm_valid.get((obj, path))
                    m.regions[name] = asmsym.Region(name, flat, True)
                    if valid is not None:
                        m.regions[name].size = valid * esz   # bytes past the slice length are out of bounds
                        m.regions[name].cells = flat
                    regions[key] = (name, esz, arr, len(flat))
                return regions[key]

            def flatten(arr):
                if arr and isinstance(arr[0], list):
                    raise Unsupported('nested array passed to assembly')
                # element size from values is unknown: use the heap type tag
                return None, None

            def region_ptr(p, elem_bytes):
                """Addr for a gosym pointer to an array element"""
                if p.obj is None:
                    return 0
                if len(p.path) == 0:
                    raise Unsupported('pointer to whole object passed to assembly')
                path, idx = p.path[:-1], p.path[-1]
                if not isinstance(idx, int):
                    raise Unsupported('symbolic element pointer passed to assembly')
                key = (p.obj, path)
                if key not in regions:
                    arr = e._nav(e.heap[p.obj][0], path)
                    cells = []
                    for v in arr:
                        if not isinstance(v, asmsym.Aff):
                            v = force(v)
                        if elem_bytes == 1:
                            cells.append(v)
                        else:
                            cells += Machine.to_bytes(v, elem_bytes)
                    name = 'obj%d' % p.obj + ''.join('_%s' % x for x in path)
                    r = asmsym.Region(name, cells, True)
                    valid = e.asm_valid.get(key)
                    if valid is not None:
                        r.size = valid * elem_bytes
                    m.regions[name] = r
                    regions[key] = (name, elem_bytes, arr)
                name, eb, arr = regions[key]
                if eb != elem_bytes:
                    raise Unsupported('same object passed with two element sizes')
                return Addr(name, idx * elem_bytes)

            for (pname, t, off, size, k), a in zip(params, args):
                if k == 'slice':
                    et = e.prog.under(t)['elem']
                    eb = e.prog.intinfo(et)[0] // 8
                    if a.obj is None:
                        frame[off] = 0
                    else:
                        if not isinstance(a.off, int):
                            raise Unsupported('symbolic slice offset passed to assembly')
                        frame[off] = region_ptr(Ptr(a.obj, a.path + (a.off,)), eb)
                    frame[off + 8] = a.len if isinstance(a.len, int) else force(a.len)
                    frame[off + 16] = a.cap if isinstance(a.cap, int) else force(a.cap)
                elif k == 'pointer':
                    et = e.prog.under(t)['elem']
                    eb = e.prog.intinfo(et)[0] // 8
                    frame[off] = region_ptr(a, eb)
                else:
                    frame[off] = force(a)
            if on_call is not None:
                on_call(e, short, m, frame)
            if getattr(e, 'asm_branch_oracle', None) is not None:
                m.branch_oracle = lambda pc, cond: e.asm_branch_oracle(e, short, pc, cond)
            try:
                m.run(short, frame)
            except asmsym.AsmUnsupported as ex:
                raise Unsupported('asm %s: %s' % (short, ex))
            rec.events = list(m.events)
            rec.reads = list(m.reads)
            rec.writes = list(m.writes)
            rec.steps = m.steps
            rec.branch_log = list(m.branch_log)
            rec.regions = {name: (key, m.regions[name].size) for key, (name, eb, arr) in regions.items()}
            e.stats['instrs'] += m.steps
            e.asm_calls.append(rec)
            # copy back
            if e.store_log is not None:
                written = set(w[0] for w in m.writes)
                for key, (name, eb, arr) in regions.items():
                    if name in written:
                        e.store_log.add(key[0])
            for key, (name, eb, arr) in regions.items():
                cells = m.regions[name].cells
                for i in range(len(arr)):
                    if eb == 1:
                        arr[i] = cells[i]
                    else:
                        arr[i] = Machine.from_bytes(cells[i * eb:(i + 1) * eb])
            for name in [n for n, r in m.regions.items() if r.kind != 'rodata']:
                del m.regions[name]
            if results:
                vals = []
                for t, off in results:
                    v = m.ret.get(off, 0)
                    vals.append(v)
                return vals[0] if len(vals) == 1 else tuple(vals)
            return None
        return model

    for fname, f in eng.prog.funcs.items():
        if f['external'] and f['pkg'] == pkg:
            short = fname.split('.')[-1]
            if short in listing.funcs:
                eng.intercepts[fname] = make(fname, short)
