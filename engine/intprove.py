# Deciding integer-level (math/big) obligations.
#
# z3's nonlinear integer arithmetic finds counterexamples to wrong modular formulas in milliseconds but
# answers `unknown` when asked to *prove* identities such as  s + (r+s)d = k (mod n).  Proofs are therefore
# obtained from a sound linear abstraction: every polynomial is expanded into monomials (python side),
# each non-linear monomial becomes an independent integer variable, and the hypotheses are saturated with
# products  v * h == 0  (h a polynomial equality of the path condition, v a variable) - valid consequences
# that give linear arithmetic exactly the facts a congruence proof needs.  unsat of the abstraction implies
# unsat of the original; sat of the abstraction proves nothing (the NIA query is used for counterexamples).
import time
import z3


class Poly:
    __slots__ = ('t',)

    def __init__(self, t=None):
        self.t = t if t is not None else {}

    @staticmethod
    def var(name):
        return Poly({(name,): 1})

    @staticmethod
    def const(c):
        return Poly({(): c} if c else {})

    def __add__(a, b):
        b = b if isinstance(b, Poly) else Poly.const(b)
        r = dict(a.t)
        for m, c in b.t.items():
            v = r.get(m, 0) + c
            if v:
                r[m] = v
            else:
                r.pop(m, None)
        return Poly(r)
    __radd__ = __add__

    def __neg__(a):
        return Poly({m: -c for m, c in a.t.items()})

    def __sub__(a, b):
        return a + (-(b if isinstance(b, Poly) else Poly.const(b)))

    def __mul__(a, b):
        b = b if isinstance(b, Poly) else Poly.const(b)
        r = {}
        for m1, c1 in a.t.items():
            for m2, c2 in b.t.items():
                m = tuple(sorted(m1 + m2))
                v = r.get(m, 0) + c1 * c2
                if v:
                    r[m] = v
                else:
                    r.pop(m, None)
        return Poly(r)
    __rmul__ = __mul__

    def degree(a):
        return max([len(m) for m in a.t] + [0])

    def vars(a):
        s = set()
        for m in a.t:
            s.update(m)
        return s


class PinModel:
    """candidate counterexample taken from the linear abstraction: values for the input symbols only.
    It is not a model of the exact path condition; the replay on the real build decides."""
    approx = True

    def __init__(self, pins):
        self.pins = pins   # list of (term, value)

    def eval(self, t, model_completion=True):
        r = z3.simplify(z3.substitute(t, *self.pins)) if self.pins else z3.simplify(t)
        if z3.is_int_value(r) or z3.is_bv_value(r):
            return r
        return z3.IntVal(0) if z3.is_int(t) else z3.BitVecVal(0, t.size()) if z3.is_bv(t) else r


class Linearizer:
    def __init__(self):
        self.mon = {}      # monomial -> z3 Int
        self.atoms = {}    # str(abstracted non-arithmetic term) -> var name
        self.atom_terms = {}
        self.memo = {}
        self.subst = {}    # var name -> int constant (from equalities var == const)
        self.rename = {}   # var name -> representative of its class of provably equal variables
        self.var_terms = {}

    def monvar(self, m):
        if len(m) == 1 and m[0] in self.atom_terms:
            return self.atom_terms[m[0]]
        if m not in self.mon:
            self.mon[m] = z3.Int('mon!' + '*'.join(m))
        return self.mon[m]

    def lin(self, p):
        tot = z3.IntVal(0)
        parts = []
        for m, c in p.t.items():
            if m == ():
                parts.append(z3.IntVal(c))
            else:
                parts.append(c * self.monvar(m))
        if not parts:
            return z3.IntVal(0)
        if len(parts) == 1:
            return parts[0]
        return z3.Sum(parts)

    def poly(self, t):
        """z3 Int term -> Poly over atom names"""
        key = t.get_id()
        if key in self.memo:
            return self.memo[key][1]
        r = self._poly(t)
        self.memo[key] = (t, r)
        return r

    def _poly(self, t):
        if z3.is_int_value(t):
            return Poly.const(t.as_long())
        k = t.decl().kind()
        if k == z3.Z3_OP_ADD:
            r = Poly()
            for c in t.children():
                r = r + self.poly(c)
            return r
        if k == z3.Z3_OP_SUB:
            ch = t.children()
            r = self.poly(ch[0])
            for c in ch[1:]:
                r = r - self.poly(c)
            return r
        if k == z3.Z3_OP_UMINUS:
            return -self.poly(t.arg(0))
        if k == z3.Z3_OP_MUL:
            r = Poly.const(1)
            for c in t.children():
                r = r * self.poly(c)
            return r
        if k == z3.Z3_OP_UNINTERPRETED and t.num_args() == 0:
            name = t.decl().name()
            if name in self.subst:
                return Poly.const(self.subst[name])
            name = self.rename.get(name, name)
            self.var_terms[name] = self.var_terms.get(name, t)
            return Poly.var(name)
        # any other integer term (UF application, ite, mod, bv2int ...) is an atom
        a = self.abstract(t, top=False)
        s = a.sexpr()
        if s not in self.atoms:
            self.atoms[s] = 'atom!%d' % len(self.atoms)
            self.atom_terms[self.atoms[s]] = a
        return Poly.var(self.atoms[s])

    def abstract(self, f, top=True):
        """rebuild formula f with every arithmetic sub-term replaced by its linear form over monomials"""
        if z3.is_int(f):
            k = f.decl().kind()
            if k in (z3.Z3_OP_ADD, z3.Z3_OP_SUB, z3.Z3_OP_UMINUS, z3.Z3_OP_MUL) or z3.is_int_value(f) or (k == z3.Z3_OP_UNINTERPRETED and f.num_args() == 0):
                return self.lin(self.poly(f))
            if f.num_args() == 0:
                return f
            ch = [self.abstract(c, False) for c in f.children()]
            if k == z3.Z3_OP_ITE:
                return z3.If(ch[0], ch[1], ch[2])
            if k in (z3.Z3_OP_MOD, z3.Z3_OP_IDIV, z3.Z3_OP_REM):
                # keep (linear when the divisor is a constant)
                return f.decl()(*ch)
            return f.decl()(*ch)
        if z3.is_bool(f) or z3.is_bv(f):
            if f.num_args() == 0:
                return f
            if z3.is_quantifier(f):
                return f
            ch = [self.abstract(c, False) for c in f.children()]
            try:
                return f.decl()(*ch)
            except Exception:
                return f
        return f


def flatten(pc):
    out = []
    for c in pc:
        if z3.is_and(c):
            out.extend(flatten(c.children()))
        else:
            out.append(c)
    return out


def cvc5_says_unsat(solver, tlimit_ms, stats=None):
    """True iff cvc5 (independent solver, CLI) answers unsat on the solver's assertions within the limit"""
    import subprocess, tempfile, os
    try:
        with tempfile.NamedTemporaryFile('w', suffix='.smt2', delete=False) as f:
            f.write(solver.to_smt2())
            path = f.name
        try:
            r = subprocess.run(['cvc5', '--tlimit=%d' % tlimit_ms, path], capture_output=True, text=True, timeout=tlimit_ms / 1000 + 20)
        finally:
            os.unlink(path)
        if stats is not None:
            stats['queries'] = stats.get('queries', 0) + 1
        out = r.stdout.strip().split('\n')
        return '(error' not in r.stdout and out[:1] == ['unsat']
    except Exception:
        return False


def prove_int(pc, claim, timeout_nia=4000, timeout_lia=60000, stats=None, max_mult_vars=24, scale=1):
    """returns ('proved', how) | ('cex', model) | ('unknown', reason)"""
    import os, sys
    t00 = time.time()
    r = _prove_int(pc, claim, timeout_nia * scale, timeout_lia * scale, stats, max_mult_vars, scale)
    if os.environ.get('VERIF_DEBUG'):
        print('  [prove_int %.2fs -> %s %s] %s' % (time.time() - t00, r[0], r[1] if r[0] != 'cex' else '', str(claim)[:120].replace('\n', ' ')), file=sys.stderr, flush=True)
    return r


def _prove_int(pc, claim, timeout_nia, timeout_lia, stats, max_mult_vars, scale=1):
    t0 = time.time()
    s = z3.Solver()
    s.set('timeout', timeout_nia)
    for c in pc:
        s.add(c)
    neg = z3.Not(claim) if not isinstance(claim, bool) else z3.BoolVal(not claim)
    # ---- linear abstraction with hypothesis-product saturation
    L = Linearizer()
    conj = flatten(list(pc) + [neg])
    # constants: var == c
    changed = True
    while changed:
        changed = False
        for c in conj:
            if z3.is_eq(c) and z3.is_int(c.arg(0)):
                a, b = c.arg(0), c.arg(1)
                for x, y in ((a, b), (b, a)):
                    if x.decl().kind() == z3.Z3_OP_UNINTERPRETED and x.num_args() == 0 and z3.is_int_value(y):
                        if x.decl().name() not in L.subst:
                            L.subst[x.decl().name()] = y.as_long()
                            changed = True
    def collect_hyps():
        hs = []
        for c in conj:
            if z3.is_eq(c) and z3.is_int(c.arg(0)):
                p = L.poly(c.arg(0)) - L.poly(c.arg(1))
                if p.t and p.degree() <= 3:
                    hs.append(p)
        return hs
    hyps = collect_hyps()
    # ---- variables that the (linear part of the) path condition forces to be equal are merged, otherwise
    # monomials such as d*r and d*r' stay unrelated in the abstraction
    nlv = set()
    for h in hyps:
        for m in h.t:
            if len(m) > 1:
                nlv.update(m)
    cand = [v for v in sorted(nlv) if v in L.var_terms]
    if len(cand) > 1:
        s0 = z3.Solver()
        s0.set('timeout', 10000)
        for c in flatten(list(pc)):
            s0.add(L.abstract(c))
        import os, sys
        r0 = s0.check()
        if os.environ.get('VERIF_DEBUG'):
            print('  [merge] base abstraction', r0, file=sys.stderr)
        if r0 == z3.sat:
            m0 = s0.model()
            groups = {}
            for v in cand:
                val = m0.eval(L.monvar((v,)), model_completion=True)
                groups.setdefault(str(val), []).append(v)
            for g in groups.values():
                rest = list(g)
                while len(rest) > 1:
                    rep = rest[0]
                    nxt = []
                    for v in rest[1:]:
                        rr = s0.check(L.monvar((rep,)) != L.monvar((v,)))
                        if rr == z3.unsat:
                            L.rename[v] = rep
                        else:
                            nxt.append(v)
                    rest = nxt
        import os, sys
        if os.environ.get('VERIF_DEBUG'):
            print('  [merge] cand=%s rename=%s' % (cand, L.rename), file=sys.stderr)
        if L.rename:
            L.memo = {}
            hyps = collect_hyps()
    allvars = set()
    for h in hyps:
        allvars |= h.vars()
    # multipliers: variables that occur in non-linear monomials first
    nl = set()
    for h in hyps:
        for m in h.t:
            if len(m) > 1:
                nl.update(m)
    mult = sorted(nl) + sorted(allvars - nl)
    mult = mult[:max_mult_vars]
    # stage A: plain abstraction (linear + uninterpreted functions), no product lemmas
    sA = z3.Solver()
    sA.set('timeout', 5000 * scale)
    absconj = [L.abstract(c) for c in conj]
    for c in absconj:
        sA.add(c)
    rA = sA.check()
    if stats is not None:
        stats['queries'] = stats.get('queries', 0) + 1
    if rA == z3.unsat:
        if stats is not None:
            stats['solver_s'] = stats.get('solver_s', 0) + time.time() - t0
        return ('proved', 'linear abstraction')
    # stage B: saturate with products  v * h == 0
    r2 = z3.unknown
    nl_present = any(h.degree() > 1 for h in hyps)
    if nl_present:
        def has_bv(c):
            return any(z3.is_bv(v) for v in z3.z3util.get_vars(c))
        # first without the conjuncts that talk about bit-vector symbols (byte-length bookkeeping): dropping
        # hypotheses is sound for a proof and keeps the linear problem small; then with everything
        pure = [a for c, a in zip(conj, absconj) if not has_bv(c)]
        nlmult = [v for v in mult if v in nl]
        plans = [(pure, nlmult, 20000 * scale), (pure, mult, 30000 * scale), (absconj, mult, min(timeout_lia, 30000 * scale))]
        seen = set()
        for subset, mvars, budget in plans:
            key = (id(subset), len(mvars))
            if key in seen or (subset is absconj and len(pure) == len(absconj) and (id(pure), len(mvars)) in seen):
                continue
            seen.add(key)
            s2 = z3.Solver()
            s2.set('timeout', budget)
            for c in subset:
                s2.add(c)
            nlem = 0
            for h in hyps:
                if h.degree() > 2:
                    continue
                for v in mvars:
                    s2.add(L.lin(Poly.var(v) * h) == 0)
                    nlem += 1
            r2 = s2.check()
            if stats is not None:
                stats['queries'] = stats.get('queries', 0) + 1
            if r2 == z3.unknown and cvc5_says_unsat(s2, 60000, stats):
                r2 = z3.unsat      # second opinion: z3 ran out of budget on the linear problem, cvc5 refutes it
            if r2 == z3.unsat:
                if stats is not None:
                    stats['solver_s'] = stats.get('solver_s', 0) + time.time() - t0
                return ('proved', 'linear abstraction, %d hypotheses x %d multipliers' % (len(hyps), len(mvars)))
    # the abstraction has a model: hunt for a genuine counterexample by pinning the input symbols to the
    # abstraction's model values (the exact query then is mostly ground arithmetic)
    try:
        mA = sA.model() if rA == z3.sat else None
    except Exception:
        mA = None
    pins = []
    if mA is not None:
        for name, term in L.var_terms.items():
            if name.split('!')[0] in ('rem', 'quo', 'inv', 'invq', 'modinv', 'modinvq', 'dlog'):
                continue
            val = mA.eval(L.monvar((L.rename.get(name, name),)), model_completion=True)
            if z3.is_int_value(val):
                pins.append(term == val)
        if pins:
            s.set('timeout', 2000)
            r = s.check(neg, *pins)
            if r == z3.sat:
                return ('cex', s.model())
    # ask the exact (non-linear) query for a genuine counterexample
    s.set('timeout', timeout_nia)
    r = s.check(neg)
    if r == z3.sat:
        return ('cex', s.model())
    if r == z3.unsat:
        return ('proved', 'nia')
    if mA is not None and pins:
        return ('cex', PinModel([(p.arg(0), p.arg(1)) for p in pins]))
    return ('unknown', 'nia unknown; linear abstraction %s' % r2)
