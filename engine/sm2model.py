# Protocol-level contracts for the SM2 layer (DESIGN.md C01-C03, C12, C13, C19): the real code of
# sm2/sm2.go is executed with the group / field / hash layers replaced by their contracts.  Each contract
# is an obligation of another property (named in `CONTRACTS`) discharged on the real lower-layer code.
import z3
from gosym import (Ptr, Slice, Iface, Big, ByteOf, Opaque, NILPTR, NILSLICE, GoPanic, Unsupported, PathAbort,
                   tobv, force, is_sym, concrete)
import models
from models import slice_int, bigval, id_of

N = 0xFFFFFFFEFFFFFFFFFFFFFFFFFFFFFFFF7203DF6B21C6052B53BBF40939D54123
P = 0xFFFFFFFEFFFFFFFFFFFFFFFFFFFFFFFFFFFFFFFF00000000FFFFFFFFFFFFFFFF
Bc = 0x28E9FA9E9D9F5E344D5A9E4BCF6509A7F39789F515AB8F92DDBCBD414D940E93
MOD = 'github.com/bilibili/smgo'
INT = MOD + '/sm2/internal'
FIAT = MOD + '/sm2/internal/fiat'

X = z3.Function('X', z3.IntSort(), z3.IntSort())      # affine x of [u]G (0 at u = 0, as the code reports)
Y = z3.Function('Y', z3.IntSort(), z3.IntSort())
OnCurve = z3.Function('OnCurve', z3.IntSort(), z3.IntSort(), z3.BoolSort())

CONTRACTS = [
    'utils.ConstantTimeCmp(a,b,l) = sign(BE(a[:l]) - BE(b[:l])), panics for nil, index panic if shorter than l  [C20]',
    'internal.ScalarBaseMult(k): error unless len(k)==32, else the point [BE(k) mod n]G  [C14]',
    'internal.ScalarMixedMult_Unsafe(g,P,s): both scalars indexed as 32 bytes (shorter -> index panic), result [g]G+[s]P  [C14]',
    'SM2Point.IsInfinity: true exactly for the neutral element; GetAffineX_Unsafe: affine x in [0,p), 0 for the point at infinity; Bytes_Unsafe: 04||x||y or the 1-byte infinity encoding  [C15]',
    'SM2Point.SetBytes(04||x||y): succeeds iff x,y < p and on the curve; every such point is [u]G for a unique u in [1,n-1] (prime order group, trusted)  [C15]',
    'fiat.SM2ScalarElement SetBytes/Invert/ToBigInt: value < n else error; inverse mod n (0 for 0)  [C16]',
    'fiat.SM2Element SetBytes/Add/Sub/Mul/Square/Equal: arithmetic mod p on canonical values, decode rejects >= p  [C16]',
    'sm3 hash object = digest of the concatenation of the written slices (uninterpreted, injective on byte strings not assumed)  [C04]',
]


class AbsPoint:
    """group element [dl]G; dl is a python int or z3 Int in [0,n), 0 = point at infinity"""

    def __init__(self, dl):
        self.dl = dl


class IntElem:
    """field / scalar element as a mathematical integer (representative modulo m, lazily reduced)"""

    def __init__(self, v, m):
        self.v = v
        self.m = m


def new_point(e, dl):
    return Ptr(e.new_obj(AbsPoint(dl), 'absPoint'), ())


def getpoint(e, p):
    if p.obj is None:
        raise GoPanic('nil pointer dereference (nil *SM2Point)', 'nil')
    v = e.heap[p.obj][0]
    if not isinstance(v, AbsPoint):
        raise Unsupported('SM2Point pointer to concrete point in protocol model')
    return v


def reg_point(e, dl):
    """range facts of X/Y at a group element"""
    if isinstance(dl, int):
        import sys
        sys.path.insert(0, __file__.rsplit('/', 2)[0] + '/specs')
        import sm2 as ref
        pt = ref.mul(dl % N)
        return (pt[0], pt[1]) if pt else (0, 0)
    key = dl.get_id()
    if key not in e.known_points:
        e.known_points[key] = dl
        e.assume(z3.And(X(dl) >= 0, X(dl) < P, Y(dl) >= 0, Y(dl) < P,
                        z3.Implies(dl != 0, OnCurve(X(dl), Y(dl))), z3.Implies(dl == 0, X(dl) == 0)))
        e.big_bounds[id_of(X(dl))] = (0, P - 1, X(dl))
        e.big_bounds[id_of(Y(dl))] = (0, P - 1, Y(dl))
    return X(dl), Y(dl)


def slice_len_is(e, s, l):
    """branch on len(s) == l for possibly symbolic lengths; returns python bool"""
    if isinstance(s.len, int):
        return s.len == l
    return e.branch(s.len == z3.BitVecVal(l, 64))


def int_of_prefix(e, s, l, what):
    """integer value of s[0:l]; index panic when s is shorter (what the real code does)"""
    if s.obj is None:
        raise GoPanic('runtime error: index out of range [%d] with length 0 (%s)' % (l - 1, what), 'bounds')
    if isinstance(s.len, int):
        if s.len < l:
            raise GoPanic('runtime error: index out of range [%d] with length %d (%s)' % (l - 1, s.len, what), 'bounds')
        return slice_int(e, s, l)
    # symbolic length: result of Big.Bytes()
    short = e.branch(z3.ULT(s.len, z3.BitVecVal(l, 64)))
    if short:
        raise GoPanic('runtime error: index out of range [%d] with length <%d (%s)' % (l - 1, l, what), 'bounds')
    if e.branch(s.len == z3.BitVecVal(l, 64)):
        return slice_int(e, s)
    # longer than l: the first l bytes of the big-endian encoding of x are floor(x / 256^(len-l))
    tag = e.heap[s.obj][1]
    if isinstance(tag, tuple) and tag[0] == 'bigbytes' and tag[2] - l <= 2:
        xv, W_, Lb = tag[1], tag[2], tag[3]
        for j in range(1, W_ - l + 1):
            if j == W_ - l or e.branch(Lb == z3.BitVecVal(l + j, 64)):
                q = e.fresh_int('prefq')
                r_ = e.fresh_int('prefr')
                e.assume(z3.And(xv == q * (256 ** j) + r_, r_ >= 0, r_ < 256 ** j, q >= 0, q < 256 ** l))
                e.big_bounds[id_of(q)] = (0, 256 ** l - 1, q)
                return q, 0, 256 ** l - 1
    raise Unsupported('prefix of a longer symbolic-length slice')


def install(eng, max_candidates=3, reader_modes='full', group=True):
    reg = eng._reg if hasattr(eng, '_reg') else None
    I = eng.intercepts
    def reset(e):
        e.known_points = {}
        e.sm2_log = []
        e.inv_facts = []
        e.hash_memo = {}
    reset(eng)
    if not hasattr(eng, 'path_reset_hooks'):
        eng.path_reset_hooks = []
    eng.path_reset_hooks.append(reset)

    def reg(name, fn):
        def wrap(e, args, ins, fn=fn, name=name):
            if e.in_init:   # package initialisers run on the real code
                return e.exec_func(e.prog.funcs[name], args, ())
            e.models_used.add('contract:' + name)
            return fn(e, args, ins)
        I[name] = wrap

    # ---------------------------------------------------------------- utils.ConstantTimeCmp
    def ctcmp(e, a, ins):
        x, y, l = a
        if not isinstance(l, int):
            raise Unsupported('ConstantTimeCmp symbolic l')
        if x.obj is None or y.obj is None:
            raise GoPanic('nil parameter', 'explicit')
        if l >> 63 or l == 0:
            return 0
        xv, _, _ = int_of_prefix(e, x, l, 'ConstantTimeCmp a')
        yv, _, _ = int_of_prefix(e, y, l, 'ConstantTimeCmp b')
        if isinstance(xv, int) and isinstance(yv, int):
            return ((xv > yv) - (xv < yv)) & ((1 << 64) - 1)
        return z3.If(xv < yv, z3.BitVecVal((1 << 64) - 1, 64), z3.If(xv == yv, z3.BitVecVal(0, 64), z3.BitVecVal(1, 64)))
    reg(MOD + '/utils.ConstantTimeCmp', ctcmp)

    # ---------------------------------------------------------------- group layer
    def scalar_base_mult(e, a, ins):
        k = a[0]
        if not slice_len_is(e, k, 32):
            return (NILPTR, Iface('*errors.errorString', Opaque('error', msg='scalar length is not 32')))
        kv, _, _ = slice_int(e, k, 32)
        e.sm2_log.append(('basemult', kv))
        if isinstance(kv, int):
            return (new_point(e, kv % N), None)
        dl = e.int_mod(kv, N)
        return (new_point(e, dl), None)
    reg(INT + '.ScalarBaseMult', scalar_base_mult)

    def mixed_mult(e, a, ins):
        g, Pp, s = a
        pt = getpoint(e, Pp)
        # the routine recodes `scalar` first (DecomposeNAF indexes 32 bytes), then reads gScalar by fixed offsets
        sv, _, _ = int_of_prefix(e, s, 32, 'ScalarMixedMult_Unsafe scalar')
        gv, _, _ = int_of_prefix(e, g, 32, 'ScalarMixedMult_Unsafe gScalar')
        for sl in (s, g):
            if isinstance(sl.len, int) and sl.len != 32:
                raise Unsupported('mixed mult with scalar longer than 32 bytes')
        e.sm2_log.append(('mixedmult', gv, pt.dl, sv))
        tot = gv + sv * pt.dl
        if isinstance(tot, int):
            return (new_point(e, tot % N), None)
        return (new_point(e, e.int_mod(tot, N)), None)
    reg(INT + '.ScalarMixedMult_Unsafe', mixed_mult)

    def new_sm2_point(e, a, ins):
        return new_point(e, 0)
    reg(INT + '.NewSM2Point', new_sm2_point)

    def is_infinity(e, a, ins):
        pt = getpoint(e, a[0])
        return (pt.dl == 0) if isinstance(pt.dl, int) else e.branch(pt.dl == 0)
    reg('(*%s.SM2Point).IsInfinity' % INT, is_infinity)

    def affine_x(e, a, ins):
        pt = getpoint(e, a[0])
        x, _ = reg_point(e, pt.dl)
        return Ptr(e.new_obj(Big(x), 'math/big.Int'), ())
    reg('(*%s.SM2Point).GetAffineX_Unsafe' % INT, affine_x)
    reg('(*%s.SM2Point).GetAffineX' % INT, affine_x)

    def bytes_unsafe(e, a, ins):
        pt = getpoint(e, a[0])
        isinf = (pt.dl == 0) if isinstance(pt.dl, int) else e.branch(pt.dl == 0)
        if isinf:
            oid = e.new_obj([0] * 65, ('array', 'uint8', 65))
            return Slice(oid, (), 0, 1, 65)
        x, y = reg_point(e, pt.dl)
        cells = [4] + [ByteOf(x, j, 32) for j in range(32)] + [ByteOf(y, j, 32) for j in range(32)]
        oid = e.new_obj(cells, ('array', 'uint8', 65))
        return Slice(oid, (), 0, 65, 65)
    reg('(*%s.SM2Point).Bytes_Unsafe' % INT, bytes_unsafe)
    reg('(*%s.SM2Point).Bytes' % INT, bytes_unsafe)

    def point_set_bytes(e, a, ins):
        recv, b = a
        getpoint(e, recv)
        err = Iface('*errors.errorString', Opaque('error', msg='invalid point'))
        if not isinstance(b.len, int):
            raise Unsupported('SetBytes symbolic length')
        cells = e.slice_list(b)
        if b.len == 1:
            c0 = force(cells[0])
            if isinstance(c0, int):
                if c0 == 0:
                    e.heap[recv.obj][0] = AbsPoint(0)
                    return (recv, None)
                return (NILPTR, err)
            raise Unsupported('symbolic 1-byte point encoding')
        if b.len != 65:
            return (NILPTR, err)
        c0 = force(cells[0])
        if not isinstance(c0, int):
            raise Unsupported('symbolic encoding tag')
        if c0 != 4:
            return (NILPTR, err)
        xv, _, _ = models.int_of_cells(e, cells[1:33])
        yv, _, _ = models.int_of_cells(e, cells[33:65])
        if isinstance(xv, int) and isinstance(yv, int):
            import sys
            sys.path.insert(0, __file__.rsplit('/', 2)[0] + '/specs')
            import sm2 as ref
            if not ref.on_curve((xv, yv)):
                return (NILPTR, err)
            raise Unsupported('concrete public key needs a discrete log: use a symbolic key')
        if not e.branch(xv < P):
            return (NILPTR, err)
        if not e.branch(yv < P):
            return (NILPTR, err)
        if not e.branch(OnCurve(xv, yv)):
            return (NILPTR, err)
        # prime-order group: the point is [u]G for a unique u in [1,n-1]
        u = e.fresh_int('dlog')
        facts = [u >= 1, u < N, X(u) == xv, Y(u) == yv]
        for w in list(e.known_points.values()):
            facts.append(z3.Implies(z3.And(w != 0, X(w) == xv, Y(w) == yv), u == w))
        e.assume(z3.And(*facts))
        reg_point(e, u)
        e.sm2_log.append(('decode', xv, yv, u))
        e.heap[recv.obj][0] = AbsPoint(u)
        return (recv, None)
    reg('(*%s.SM2Point).SetBytes' % INT, point_set_bytes)

    # ---------------------------------------------------------------- scalar field element (mod n)
    SE = '(*%s.SM2ScalarElement).' % FIAT

    def elem_ptr_val(e, p, m=P):
        v = e.load_raw(p)
        if isinstance(v, list):
            v = v[0]
        if isinstance(v, list) and len(v) == 4 and all(isinstance(x, int) for x in v):
            # concrete Montgomery-domain limbs written by real code (package initialiser): decode
            limbs = sum(x << (64 * i) for i, x in enumerate(v))
            return IntElem(limbs * pow(2, -256, m) % m, m)
        return v

    def set_elem(e, p, val):
        cur = e.load_raw(p)
        if isinstance(cur, list):
            cur[0] = val
        else:
            e.store_raw(p, val)

    def mk_setbytes(m):
        def f(e, a, ins):
            recv, v = a
            err = Iface('*errors.errorString', Opaque('error', msg='invalid element encoding'))
            if not slice_len_is(e, v, 32):
                return (NILPTR, err)
            val, _, _ = slice_int(e, v, 32) if isinstance(v.len, int) else slice_int(e, v)
            ok = (val <= m - 1) if isinstance(val, int) else e.branch(val <= m - 1)
            if not ok:
                return (NILPTR, err)
            set_elem(e, recv, IntElem(val, m))
            return (recv, None)
        return f
    reg(SE + 'SetBytes', mk_setbytes(N))

    def invert(m):
        def f(e, a, ins):
            z, x = a
            xv = elem_ptr_val(e, x)
            if not isinstance(xv, IntElem):
                raise Unsupported('Invert of uninitialised element')
            v = xv.v
            if isinstance(v, int):
                r = pow(v, -1, m) if v % m else 0
            else:
                if e.branch(e.int_mod(v, m) == 0):
                    r = 0
                else:
                    r = e.fresh_int('inv')
                    q = e.fresh_int('invq')
                    e.assume(z3.And(r >= 1, r < m, v * r == 1 + q * m))
                    e.big_bounds[id_of(r)] = (1, m - 1, r)
                    e.inv_facts.append((v, r, m))
            set_elem(e, z, IntElem(r, m))
            return z
        return f
    reg(SE + 'Invert', invert(N))

    def to_bigint(e, a, ins):
        xv = elem_ptr_val(e, a[0])
        if not isinstance(xv, IntElem):
            xv = IntElem(0, N)
        v = xv.v
        if not isinstance(v, int):
            lo, hi = models.bounds(e, v)
            if lo is None or lo < 0 or hi is None or hi >= xv.m:
                v = e.int_mod(v, xv.m)
        else:
            v %= xv.m
        return Ptr(e.new_obj(Big(v), 'math/big.Int'), ())
    reg(SE + 'ToBigInt', to_bigint)

    # ---------------------------------------------------------------- coordinate field element (mod p), lazily reduced
    FE = '(*%s.SM2Element).' % FIAT
    reg(FE + 'SetBytes', mk_setbytes(P))
    reg(FE + 'ToBigInt', to_bigint)
    reg(FE + 'Invert', invert(P))

    def fe_bin(op):
        def f(e, a, ins):
            z, x, y = a
            xv, yv = elem_ptr_val(e, x), elem_ptr_val(e, y)
            xi = xv.v if isinstance(xv, IntElem) else 0
            yi = yv.v if isinstance(yv, IntElem) else 0
            r = xi + yi if op == 'add' else xi - yi if op == 'sub' else xi * yi
            set_elem(e, z, IntElem(r, P))
            return z
        return f
    reg(FE + 'Add', fe_bin('add'))
    reg(FE + 'Sub', fe_bin('sub'))
    reg(FE + 'Mul', fe_bin('mul'))

    def fe_one(e, a, ins):
        set_elem(e, a[0], IntElem(1, P))
        return a[0]
    reg(FE + 'One', fe_one)

    def fe_set(e, a, ins):
        xv = elem_ptr_val(e, a[1])
        set_elem(e, a[0], xv if isinstance(xv, IntElem) else IntElem(0, P))
        return a[0]
    reg(FE + 'Set', fe_set)

    def fe_opp(e, a, ins):
        z, x = a
        xv = elem_ptr_val(e, x)
        xi = xv.v if isinstance(xv, IntElem) else 0
        set_elem(e, z, IntElem(-xi, P))
        return z
    reg(FE + 'Opp', fe_opp)

    def fe_iszero(e, a, ins):
        xv = elem_ptr_val(e, a[0])
        xi = xv.v if isinstance(xv, IntElem) else 0
        if isinstance(xi, int):
            return 1 if xi % P == 0 else 0
        return z3.If(e.int_mod(xi, P) == 0, z3.BitVecVal(1, 64), z3.BitVecVal(0, 64))
    reg(FE + 'IsZero', fe_iszero)

    def fe_bytes(e, a, ins):
        xv = elem_ptr_val(e, a[0])
        xi = xv.v if isinstance(xv, IntElem) else 0
        if isinstance(xi, int):
            return e.new_slice(list((xi % P).to_bytes(32, 'big')))
        r = e.int_mod(xi, P)
        return e.new_slice([ByteOf(r, j, 32) for j in range(32)])
    reg(FE + 'Bytes', fe_bytes)

    def fe_select(e, a, ins):
        v, x, y, cond = a
        xv, yv = elem_ptr_val(e, x), elem_ptr_val(e, y)
        xi = xv.v if isinstance(xv, IntElem) else 0
        yi = yv.v if isinstance(yv, IntElem) else 0
        if isinstance(cond, int):
            set_elem(e, v, IntElem(xi if cond == 1 else yi, P))
        else:
            set_elem(e, v, IntElem(z3.If(cond == 1, xi if not isinstance(xi, int) else z3.IntVal(xi), yi if not isinstance(yi, int) else z3.IntVal(yi)), P))
        return v
    reg(FE + 'Select', fe_select)

    def fe_square(e, a, ins):
        z, x = a
        xv = elem_ptr_val(e, x)
        xi = xv.v if isinstance(xv, IntElem) else 0
        set_elem(e, z, IntElem(xi * xi, P))
        return z
    reg(FE + 'Square', fe_square)

    def fe_equal(e, a, ins):
        x, y = a
        xv, yv = elem_ptr_val(e, x), elem_ptr_val(e, y)
        xi = xv.v if isinstance(xv, IntElem) else 0
        yi = yv.v if isinstance(yv, IntElem) else 0
        d = xi - yi
        if isinstance(d, int):
            return 1 if d % P == 0 else 0
        e.sm2_log.append(('fe_equal', xi, yi))
        return z3.If(d % P == 0, z3.BitVecVal(1, 64), z3.BitVecVal(0, 64))
    reg(FE + 'Equal', fe_equal)

    if not group:
        for k in [k for k in list(I) if 'SM2Point' in k or k.endswith('.ScalarBaseMult') or k.endswith('.ScalarMixedMult_Unsafe') or k.endswith('.NewSM2Point')]:
            del I[k]

    # sm2B is a concrete element built by the package initialiser from the curve parameters: expose it as IntElem
    def fix_globals(e):
        g = INT + '.sm2B'
        if g in e.gobj:
            p = e.load(Ptr(e.gobj[g], ()))
            if isinstance(p, Ptr) and p.obj is not None:
                cur = e.heap[p.obj][0]
                if isinstance(cur, list) and isinstance(cur[0], list):
                    bval = e.sm2_b_value
                    cur[0] = IntElem(bval, P)
    eng.sm2_fix_globals = fix_globals
    eng.sm2_b_value = None


# ---------------------------------------------------------------------------- randomness source stub
class ReaderStub:
    """io.Reader returning 32-byte candidates k_0, k_1, ... as symbolic integers; `faults` selects the fault model"""

    def __init__(self, e, max_candidates, faults=False, max_reads=8):
        self.e = e
        self.max = max_candidates
        self.faults = faults
        self.delivered = 0
        self.reads = 0
        self.max_reads = max_reads
        self.ks = []
        self.failed = None
        self.log = []
        self.zero_reads = 0
        self.fault_budget = 1

    def cand(self, i):
        while len(self.ks) <= i:
            k = self.e.fresh_int('k%d' % len(self.ks))
            self.e.assume(z3.And(k >= 0, k < 2 ** 256))
            self.e.big_bounds[id_of(k)] = (0, 2 ** 256 - 1, k)
            self.ks.append(k)
        return self.ks[i]

    def read(self, e, a, ins):
        _, p = a
        if not isinstance(p.len, int) or not isinstance(p.off, int):
            raise Unsupported('Read into symbolic-length buffer')
        self.reads += 1
        if self.reads > self.max_reads:
            raise PathAbort()
        want = p.len
        if self.failed is not None:
            # a failed source keeps failing
            return (0, self.failed)
        mode = 0
        if self.faults and want > 0 and self.fault_budget > 0:
            mode = e.choose(6, 'reader')
            if mode:
                self.fault_budget -= 1
        eof = e.load(Ptr(e.gobj['io.EOF'], ()))
        other = Iface('*errors.errorString', Opaque('error', msg='injected reader failure'))
        if mode == 0:
            n, err = want, None
        elif mode == 1:      # short read, no error
            n, err = max(1, want // 2) if want > 1 else want, None
        elif mode == 2:      # error before any byte
            n, err = 0, other
        elif mode == 3:      # partial data together with EOF
            n, err = want // 2, eof
        elif mode == 4:      # all requested bytes together with an error (allowed by io.Reader)
            n, err = want, other
        else:                # zero bytes, nil error (discouraged but allowed), at most twice in a row
            self.zero_reads += 1
            if self.zero_reads > 2:
                raise PathAbort()
            n, err = 0, None
        if n > 0:
            self.zero_reads = 0
        for t in range(n):
            pos = self.delivered + t
            idx, off = divmod(pos, 32)
            if idx >= self.max:
                raise PathAbort()   # bound on the number of candidates
            e.slice_set(p, t, ByteOf(self.cand(idx), off, 32))
        self.delivered += n
        self.log.append((want, n, None if err is None else err.v.msg))
        if err is not None:
            self.failed = err
        return (n, err)


def install_reader(eng):
    eng.method_models[('stub:Reader', 'Read')] = lambda e, a, ins: a[0].read(e, a, ins)


def new_reader(e, max_candidates=3, faults=False):
    return Iface('stub:Reader', ReaderStub(e, max_candidates, faults))


# ---------------------------------------------------------------------------- SM3 hash model
class HashModel:
    def __init__(self):
        self.cells = []


def install_hash(eng):
    eng.hash_memo = {}

    def sm3_new(e, a, ins):
        e.models_used.add('contract:sm3.New')
        return Iface('model:sm3', HashModel())
    eng.intercepts[MOD + '/sm3.New'] = sm3_new

    def h_write(e, a, ins):
        h, p = a
        if not isinstance(p.len, int):
            # a big.Int encoding of data-dependent length fed to the hash: late case split on the byte length
            # (W, W-1, W-2, 1, 0 explored; the other lengths are cut - the same stated bound as in sym_copy)
            tag = e.heap[p.obj][1] if p.obj is not None else None
            if not (isinstance(tag, tuple) and tag[0] == 'bigbytes'):
                raise Unsupported('hash.Write of symbolic length')
            W_, Lb = tag[2], tag[3]
            Ls = [L_ for L_ in (W_, W_ - 1, W_ - 2, 1, 0) if 0 <= L_ <= W_]
            L_ = Ls[e.choose(len(Ls), 'byteslen-late')]
            e.assume(Lb == z3.BitVecVal(L_, 64))
            if not e.feasible(z3.BoolVal(True)):
                raise PathAbort()
            arr = e._nav(e.heap[p.obj][0], p.path)
            off = concrete(z3.simplify(z3.substitute(tobv(p.off, 64), (Lb, z3.BitVecVal(L_, 64)))))
            n = concrete(z3.simplify(z3.substitute(tobv(p.len, 64), (Lb, z3.BitVecVal(L_, 64)))))
            if off is None or n is None:
                raise Unsupported('hash.Write of symbolic length')
            h.cells.extend(arr[off:off + n])
            return (n, None)
        h.cells.extend(e.slice_list(p))
        return (p.len, None)

    def digest_int(e, cells):
        key = tuple(cell_key(c) for c in cells)
        if key not in e.hash_memo:
            d = e.fresh_int('H')
            e.hash_memo[key] = (d, list(cells))
        d = e.hash_memo[key][0]
        e.assume(z3.And(d >= 0, d < 2 ** 256))
        e.big_bounds[id_of(d)] = (0, 2 ** 256 - 1, d)
        return d
    eng.digest_int = lambda cells: digest_int(eng, cells)

    def h_sum(e, a, ins):
        h, b = a
        d = digest_int(e, h.cells)
        out = [ByteOf(d, j, 32) for j in range(32)]
        pre = e.slice_list(b) if b.obj is not None else []
        return e.new_slice(pre + out)
    eng.method_models[('model:sm3', 'Write')] = h_write
    eng.method_models[('model:sm3', 'Sum')] = h_sum
    eng.method_models[('model:sm3', 'Reset')] = lambda e, a, ins: a[0].cells.clear()


def cell_key(c):
    c2 = c
    if isinstance(c2, ByteOf):
        return ('B', id_of(c2.x), c2.j, c2.W)
    if isinstance(c2, int):
        return c2
    return ('t', c2.get_id())
