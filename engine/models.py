# Models (intercepted callees) for gosym: exact semantics of small stdlib helpers and the
# mathematical-integer model of math/big.  Every model used by a check is listed in its
# evidence file (engine.models_used).
import z3
from gosym import (Engine, Ptr, Slice, Iface, Big, ByteOf, Opaque, FuncVal, NILPTR, NILSLICE,
                   GoPanic, Unsupported, PathAbort, tobv, force, is_sym, concrete, simp)


class MixedCells(Exception):
    pass


def install_common(eng):
    I = eng.intercepts
    eng.models_used = set()

    TAINT_RESULTS = {'math/bits.Add64': 2, 'math/bits.Sub64': 2, 'math/bits.Mul64': 2, 'math/bits.Add32': -2, 'math/bits.Sub32': -2,
                     'math/bits.RotateLeft32': -1, 'math/bits.RotateLeft64': 1}

    def reg(name, fn):
        def wrap(e, args, ins, fn=fn, name=name):
            e.models_used.add(name)
            if getattr(e, 'taint', False) and name in TAINT_RESULTS and any(is_sym(force(a)) for a in args):
                k = TAINT_RESULTS[name]
                w = 64 if k > 0 else 32
                s = z3.BitVec('secret%d' % w, w)
                return s if abs(k) == 1 else (s, s)
            return fn(e, args, ins)
        I[name] = wrap

    # ---- math/bits
    def add_n(w):
        def f(e, a, ins):
            x, y, c = [force(v) for v in a]
            if all(isinstance(v, int) for v in (x, y, c)):
                s = x + y + c
                return (s & ((1 << w) - 1), s >> w)
            s = z3.ZeroExt(1, tobv(x, w)) + z3.ZeroExt(1, tobv(y, w)) + z3.ZeroExt(1, tobv(c, w))
            return (simp(z3.Extract(w - 1, 0, s)), simp(z3.ZeroExt(w - 1, z3.Extract(w, w, s))))
        return f

    def sub_n(w):
        def f(e, a, ins):
            x, y, c = [force(v) for v in a]
            if all(isinstance(v, int) for v in (x, y, c)):
                s = x - y - c
                return (s & ((1 << w) - 1), 1 if s < 0 else 0)
            s = z3.ZeroExt(1, tobv(x, w)) - z3.ZeroExt(1, tobv(y, w)) - z3.ZeroExt(1, tobv(c, w))
            return (simp(z3.Extract(w - 1, 0, s)), simp(z3.ZeroExt(w - 1, z3.Extract(w, w, s))))
        return f

    def mul64(e, a, ins):
        x, y = [force(v) for v in a]
        if isinstance(x, int) and isinstance(y, int):
            p = x * y
            return (p >> 64, p & ((1 << 64) - 1))
        p = z3.ZeroExt(64, tobv(x, 64)) * z3.ZeroExt(64, tobv(y, 64))
        return (simp(z3.Extract(127, 64, p)), simp(z3.Extract(63, 0, p)))

    def rotl(w):
        def f(e, a, ins):
            x, k = force(a[0]), force(a[1])
            if not isinstance(k, int):
                raise Unsupported('symbolic rotate count')
            if k >> 63:
                k -= 1 << 64
            k %= w
            if isinstance(x, int):
                return ((x << k) | (x >> (w - k))) & ((1 << w) - 1) if k else x
            return simp(z3.RotateLeft(x, k))
        return f

    reg('math/bits.Add64', add_n(64))
    reg('math/bits.Add32', add_n(32))
    reg('math/bits.Sub64', sub_n(64))
    reg('math/bits.Sub32', sub_n(32))
    reg('math/bits.Mul64', mul64)
    reg('math/bits.RotateLeft32', rotl(32))
    reg('math/bits.RotateLeft64', rotl(64))

    # further math/bits helpers a changed tree may reach for: exact on concrete values, byte reversal also on terms;
    # data-dependent results in taint mode are secrets; anything else is refused (inconclusive, never guessed)
    def bits_fn(name, w, f, symf=None):
        def g(e, a, ins):
            x = force(a[0])
            if isinstance(x, int):
                return f(x & ((1 << w) - 1))
            if getattr(e, 'taint', False):
                return z3.BitVec('secret64', 64) if name.startswith(('Len', 'LeadingZeros', 'TrailingZeros', 'OnesCount')) else z3.BitVec('secret%d' % w, w)
            if symf is not None:
                return simp(symf(tobv(x, w)))
            raise Unsupported('math/bits.%s%s on a symbolic value' % (name, '' if w == 64 and name in ('Len', 'LeadingZeros') else w))
        return g
    for w in (8, 16, 32, 64):
        reg('math/bits.Len%d' % w, bits_fn('Len', w, lambda x: x.bit_length()))
        reg('math/bits.LeadingZeros%d' % w, bits_fn('LeadingZeros', w, lambda x, w=w: w - x.bit_length()))
        reg('math/bits.TrailingZeros%d' % w, bits_fn('TrailingZeros', w, lambda x, w=w: (x & -x).bit_length() - 1 if x else w))
        reg('math/bits.OnesCount%d' % w, bits_fn('OnesCount', w, lambda x: bin(x).count('1')))
        if w > 8:
            reg('math/bits.ReverseBytes%d' % w, bits_fn('ReverseBytes', w, lambda x, w=w: int.from_bytes(x.to_bytes(w // 8, 'big'), 'little'),
                                                        lambda t, w=w: z3.Concat(*[z3.Extract(8 * i + 7, 8 * i, t) for i in range(w // 8)])))
    reg('math/bits.Len', bits_fn('Len', 64, lambda x: x.bit_length()))
    reg('math/bits.LeadingZeros', bits_fn('LeadingZeros', 64, lambda x: 64 - x.bit_length()))
    reg('math/bits.TrailingZeros', bits_fn('TrailingZeros', 64, lambda x: (x & -x).bit_length() - 1 if x else 64))
    reg('math/bits.OnesCount', bits_fn('OnesCount', 64, lambda x: bin(x).count('1')))
    reg('math/bits.Reverse8', bits_fn('Reverse', 8, lambda x: int('{:08b}'.format(x)[::-1], 2), lambda t: z3.Concat(*[z3.Extract(i, i, t) for i in range(8)])))

    # ---- errors / fmt
    def errors_new(e, a, ins):
        return Iface('*errors.errorString', Opaque('error', msg=a[0] if isinstance(a[0], str) else '<sym>'))

    def fmt_errorf(e, a, ins):
        return Iface('*errors.errorString', Opaque('error', msg='fmt:' + str(a[0])))

    def bytes_equal(e, a, ins):
        # bytes.Equal compares with an early exit (memequal): with secret contents that is a data-dependent branch
        x, y = a
        lx, ly = force(x.len), force(y.len)
        if isinstance(lx, int) and isinstance(ly, int) and lx != ly:
            return False
        xs, ys = [force(c) for c in e.slice_list(x)], [force(c) for c in e.slice_list(y)]
        if all(isinstance(c, int) for c in xs + ys):
            return xs == ys
        if getattr(e, 'taint', False):
            e.taint_event('symbranch', 'bytes.Equal on secret data (early-exit comparison)')
            return z3.Bool('secret_bool')
        return simp(z3.And(*[tobv(p, 8) == tobv(q, 8) for p, q in zip(xs, ys)]))
    reg('bytes.Equal', bytes_equal)
    reg('errors.New', errors_new)
    reg('fmt.Errorf', fmt_errorf)
    reg('fmt.Printf', lambda e, a, ins: (0, None))
    reg('fmt.Println', lambda e, a, ins: (0, None))
    reg('fmt.Sprintf', lambda e, a, ins: 'fmt:' + str(a[0]))
    eng.method_models[('*errors.errorString', 'Error')] = lambda e, a, ins: a[0].msg
    reg('strconv.Itoa', lambda e, a, ins: str(a[0]) if isinstance(a[0], int) else '<sym>')

    # ---- math
    def math_pow(e, a, ins):
        return float(a[0]) ** float(a[1])
    reg('math.Pow', math_pow)

    # ---- encoding/hex
    def hex_decode(e, a, ins):
        try:
            b = bytes.fromhex(a[0])
        except ValueError:
            return (NILSLICE, errors_new(e, ['hex'], ins))
        return (e.new_slice(list(b)), None)
    reg('encoding/hex.DecodeString', hex_decode)

    # ---- cpuid
    def cpu_supports(e, a, ins):
        return bool(getattr(e, 'cando_asm', False))
    reg('(github.com/klauspost/cpuid/v2.CPUInfo).Supports', cpu_supports)
    reg('(*github.com/klauspost/cpuid/v2.CPUInfo).Supports', cpu_supports)

    install_big(eng, reg)
    return reg


# ---------------------------------------------------------------------------- math/big
def bigval(e, p):
    """Big stored behind pointer p"""
    if p.obj is None:
        raise GoPanic('nil pointer dereference (nil *big.Int)', 'nil')
    v = e.load_raw(p)
    if not isinstance(v, Big):
        raise Unsupported('big.Int pointer to non Big: %r' % (v,))
    return v


def setbig(e, p, val, lo=None, hi=None):
    b = Big(val)
    b_lo, b_hi = lo, hi
    e.store_raw(p, b)
    if getattr(e, 'store_log', None) is not None and getattr(p, 'obj', None) is not None:
        e.store_log.add(p.obj)       # a write to the receiver of a math/big operation (write-set audit, C17)
    e.big_bounds[id_of(val)] = (b_lo, b_hi, val)
    return p


def id_of(v):
    if isinstance(v, int):
        return ('c', v)
    return ('t', v.get_id())


def bounds(e, v):
    if isinstance(v, int):
        return (v, v)
    return e.big_bounds.get(id_of(v), (None, None))[:2]


def int_of_cells(e, cells):
    """mathematical integer denoted by big-endian byte cells; returns (value, lo, hi)"""
    m = len(cells)
    if m == 0:
        return 0, 0, 0
    if all(isinstance(c, int) for c in cells):
        v = int.from_bytes(bytes(cells), 'big')
        return v, v, v
    c0 = cells[0]
    if all(isinstance(c, ByteOf) for c in cells) and all(c.x is c0.x and c.W == c0.W for c in cells) \
            and all(cells[i].j == c0.j + i for i in range(m)) and c0.j + m == c0.W:
        lo, hi = bounds(e, c0.x)
        if c0.j == 0 or (hi is not None and hi < 256 ** m):
            return c0.x, (lo if lo is not None else 0), (hi if hi is not None else 256 ** c0.W - 1)
        # suffix of a wider encoding: value mod 256^m
        v = c0.x % (256 ** m)
        return v, 0, 256 ** m - 1
    # leading concrete zero bytes followed by a full encoding
    k = 0
    while k < m and isinstance(cells[k], int) and cells[k] == 0:
        k += 1
    if 0 < k < m:
        return int_of_cells(e, cells[k:])
    if getattr(e, 'forbid_mixed', False):
        raise MixedCells('integer conversion of a buffer that is not one complete draw: %s' % ([type(c).__name__ for c in cells[:4]],))
    bv = z3.Concat(*[tobv(c, 8) for c in cells]) if m > 1 else tobv(cells[0], 8)
    v = z3.BV2Int(bv)
    return v, 0, 256 ** m - 1


def slice_int(e, s, n=None):
    """integer value of the first n (default all) bytes of slice s, big endian"""
    if s.obj is None:
        if n:
            raise GoPanic('index out of range on nil slice', 'bounds')
        return 0, 0, 0
    tag = e.heap[s.obj][1]
    ln = s.len if n is None else n
    if isinstance(tag, tuple) and tag[0] == 'bigbytes' and n is None:
        # result of Big.Bytes(): the slice covers exactly the significant bytes
        _, x, W, Lb = tag
        if (isinstance(s.off, int) and isinstance(s.len, int)):
            pass
        else:
            same = z3.is_true(z3.simplify(z3.And(tobv(s.off, 64) == z3.BitVecVal(W, 64) - Lb, tobv(s.len, 64) == Lb)))
            if same:
                lo, hi = bounds(e, x)
                return x, lo, hi
            raise Unsupported('symbolic sub-slice of Bytes() result')
    if not isinstance(s.off, int) or not isinstance(ln, int):
        raise Unsupported('slice_int with symbolic bounds')
    if isinstance(s.len, int) and ln > s.len:
        raise GoPanic('index out of range [%d] with length %d' % (ln - 1, s.len), 'bounds')
    arr = e._nav(e.heap[s.obj][0], s.path)
    return int_of_cells(e, arr[s.off:s.off + ln])


def install_big(eng, reg):
    eng.big_bounds = {}

    def int_mod(x, m):
        """x mod m (m a positive constant) as a fresh remainder with an explicit quotient, so that the
        path condition stays polynomial (see intprove.py)"""
        key = ('mod', x.get_id(), m)
        if key in eng.mod_memo and eng.mod_memo[key][0].eq(x):
            r = eng.mod_memo[key][1]
            return r
        r = eng.fresh_int('rem')
        q = eng.fresh_int('quo')
        eng.assume(z3.And(r >= 0, r < m, x == q * m + r))
        eng.big_bounds[id_of(r)] = (0, m - 1, r)
        eng.mod_memo[key] = (x, r)
        return r
    eng.int_mod = int_mod
    eng.mod_memo = {}

    def load_raw(p):
        o = eng.heap[p.obj][0]
        for q in p.path:
            o = o[q]
        return o

    def store_raw(p, v):
        if getattr(eng, 'store_log', None) is not None and p.obj is not None:
            eng.store_log.add(p.obj)     # a write to the receiver of a math/big operation (write-set audit, C17)
        if len(p.path) == 0:
            eng.heap[p.obj][0] = v
            return
        o = eng.heap[p.obj][0]
        for q in p.path[:-1]:
            o = o[q]
        o[p.path[-1]] = v
    eng.load_raw = load_raw
    eng.store_raw = store_raw

    P = '(*math/big.Int).'

    def mk(v, lo, hi):
        if not isinstance(v, int):
            eng.big_bounds[id_of(v)] = (lo, hi, v)
        return v

    def new_int(e, a, ins):
        v = a[0]
        if not isinstance(v, int):
            raise Unsupported('big.NewInt symbolic')
        if v >> 63:
            v -= 1 << 64
        return Ptr(e.new_obj(Big(v), 'math/big.Int'), ())
    reg('math/big.NewInt', new_int)

    def set_bytes(e, a, ins):
        z, s = a
        bigval(e, z)
        v, lo, hi = slice_int(e, s)
        mk(v, lo, hi)
        store_raw(z, Big(v))
        return z
    reg(P + 'SetBytes', set_bytes)

    def set_(e, a, ins):
        z, x = a
        store_raw(z, Big(bigval(e, x).v))
        return z
    reg(P + 'Set', set_)

    def set_string(e, a, ins):
        z, s, base = a
        try:
            v = int(s, base)
        except ValueError:
            return (NILPTR, False)
        store_raw(z, Big(v))
        return (z, True)
    reg(P + 'SetString', set_string)

    def set_int64(e, a, ins):
        z, v = a
        if not isinstance(v, int):
            raise Unsupported('SetInt64 sym')
        if v >> 63:
            v -= 1 << 64
        store_raw(z, Big(v))
        return z
    reg(P + 'SetInt64', set_int64)

    def arith(opname):
        def f(e, a, ins):
            z, x, y = a
            bigval(e, z)
            xv, yv = bigval(e, x).v, bigval(e, y).v
            xl, xh = bounds(e, xv)
            yl, yh = bounds(e, yv)
            if opname == 'Add':
                r = xv + yv
                lo = None if xl is None or yl is None else xl + yl
                hi = None if xh is None or yh is None else xh + yh
            elif opname == 'Sub':
                r = xv - yv
                lo = None if xl is None or yh is None else xl - yh
                hi = None if xh is None or yl is None else xh - yl
            else:
                r = xv * yv
                if None in (xl, xh, yl, yh):
                    lo = hi = None
                else:
                    c = [xl * yl, xl * yh, xh * yl, xh * yh]
                    lo, hi = min(c), max(c)
            mk(r, lo, hi)
            store_raw(z, Big(r))
            return z
        return f
    reg(P + 'Add', arith('Add'))
    reg(P + 'Sub', arith('Sub'))
    reg(P + 'Mul', arith('Mul'))

    def mod(e, a, ins):
        z, x, y = a
        bigval(e, z)
        xv, yv = bigval(e, x).v, bigval(e, y).v
        if not isinstance(yv, int):
            raise Unsupported('Mod by symbolic modulus')
        if yv == 0:
            raise GoPanic('division by zero', 'div')
        if isinstance(xv, int):
            r = xv % abs(yv)
        else:
            r = e.int_mod(xv, abs(yv))
        store_raw(z, Big(r))
        return z
    reg(P + 'Mod', mod)

    def mod_inverse(e, a, ins):
        z, g, n = a
        bigval(e, z)
        gv, nv = bigval(e, g).v, bigval(e, n).v
        if not isinstance(nv, int):
            raise Unsupported('ModInverse symbolic modulus')
        if isinstance(gv, int):
            import math
            if nv == 0 or math.gcd(gv % nv, nv) != 1:
                return NILPTR
            store_raw(z, Big(pow(gv, -1, nv)))
            return z
        if not e.is_prime_modulus(nv):
            raise Unsupported('ModInverse modulo non-prime with symbolic operand')
        if e.branch(gv % nv == 0):
            return NILPTR
        inv = e.fresh_int('modinv')
        q = e.fresh_int('modinvq')
        e.assume(z3.And(inv > 0, inv < nv, gv * inv == 1 + q * nv))
        mk(inv, 1, nv - 1)
        e.modinv_facts.append((gv, inv, nv))
        store_raw(z, Big(inv))
        return z
    reg(P + 'ModInverse', mod_inverse)
    eng.modinv_facts = []
    SM2_P = 0xFFFFFFFEFFFFFFFFFFFFFFFFFFFFFFFFFFFFFFFF00000000FFFFFFFFFFFFFFFF
    SM2_N = 0xFFFFFFFEFFFFFFFFFFFFFFFFFFFFFFFF7203DF6B21C6052B53BBF40939D54123
    eng.is_prime_modulus = lambda m: m in (SM2_P, SM2_N)

    def cmp_(e, a, ins):
        x, y = a
        xv, yv = bigval(e, x).v, bigval(e, y).v
        if isinstance(xv, int) and isinstance(yv, int):
            return ((xv > yv) - (xv < yv)) & ((1 << 64) - 1)
        m1 = z3.BitVecVal((1 << 64) - 1, 64)
        return z3.If(xv < yv, m1, z3.If(xv == yv, z3.BitVecVal(0, 64), z3.BitVecVal(1, 64)))
    reg(P + 'Cmp', cmp_)

    def sign(e, a, ins):
        xv = bigval(e, a[0]).v
        if isinstance(xv, int):
            return ((xv > 0) - (xv < 0)) & ((1 << 64) - 1)
        m1 = z3.BitVecVal((1 << 64) - 1, 64)
        return z3.If(xv < 0, m1, z3.If(xv == 0, z3.BitVecVal(0, 64), z3.BitVecVal(1, 64)))
    reg(P + 'Sign', sign)

    def bytes_(e, a, ins):
        xv = bigval(e, a[0]).v
        if isinstance(xv, int):
            v = abs(xv)
            b = v.to_bytes((v.bit_length() + 7) // 8, 'big')
            return e.new_slice(list(b))
        lo, hi = bounds(e, xv)
        if lo is None or hi is None or lo < 0:
            # ask the solver for sign and a coarse bound
            if e.check(xv < 0) != z3.unsat:
                raise Unsupported('Bytes() of possibly negative big.Int')
            lo = 0
            if hi is None:
                for Wtry in (32, 33, 64, 65, 128):
                    if e.check(xv >= 256 ** Wtry) == z3.unsat:
                        hi = 256 ** Wtry - 1
                        break
                else:
                    raise Unsupported('Bytes(): no bound')
        W = max(1, (hi.bit_length() + 7) // 8)
        # tighten once through the solver (e.g. d+1 <= n-1 known from the path condition)
        while W > 1 and W in (33, 65) and e.check(xv >= 256 ** (W - 1)) == z3.unsat:
            W -= 1
            hi = min(hi, 256 ** W - 1)
        e.big_bounds[id_of(xv)] = (lo, hi, xv)
        choices = getattr(e, 'byteslen_choices', None)
        if choices:
            # case split on the byte length (the listed lengths are explored, the others are cut and reported as a bound)
            Ls = [L for L in choices if L <= W]
            L = Ls[e.choose(len(Ls), 'byteslen')]
            e.assume(z3.And(xv < 256 ** L, xv >= (256 ** (L - 1) if L > 0 else 0)))
            cells = [ByteOf(xv, W - L + j, W) for j in range(L)]
            if L == 0:
                return e.new_slice([])
            return e.new_slice(cells)
        Lb = e.fresh_bv('blen', 64)
        cons = [z3.ULE(Lb, W)]
        for j in range(W + 1):
            cons.append(z3.ULE(Lb, j) == (xv < 256 ** j))
        e.assume(z3.And(*cons))
        cells = [ByteOf(xv, j, W) for j in range(W)]
        oid = e.new_obj(cells, ('bigbytes', xv, W, Lb))
        off = z3.BitVecVal(W, 64) - Lb
        return Slice(oid, (), off, Lb, Lb)
    reg(P + 'Bytes', bytes_)

    def bitlen(e, a, ins):
        xv = bigval(e, a[0]).v
        if isinstance(xv, int):
            return abs(xv).bit_length()
        raise Unsupported('BitLen symbolic')
    reg(P + 'BitLen', bitlen)

    def string_(e, a, ins):
        xv = bigval(e, a[0]).v
        return str(xv) if isinstance(xv, int) else '<big>'
    reg(P + 'String', string_)
