#!/usr/bin/env python3
# C02 - SM2 signatures are exactly the GM/T 0003.2 values for (d, e, k).  DESIGN.md section 3/C02.
import time, os
from sm2lib import *


def main():
    ck = Check('C02')
    prog = dump_ssa('c02')
    thorough = ck.tier == 'thorough'
    maxc = 3 if thorough else 2
    keylens = list(range(0, 34)) if thorough else [0, 1, 31, 32, 33]
    if os.environ.get('VERIF_KEYLENS'):
        keylens = [int(x) for x in os.environ['VERIF_KEYLENS'].split(',')]
    ck.bounds.append('SignHashed: private key lengths %s (contents symbolic), digest 32 symbolic bytes, nonce stream = up to %d symbolic 32-byte candidates' % (keylens, maxc))
    ck.outside.append('more than %d consecutive rejected nonce candidates (paths needing a further draw are cut and counted)' % maxc)
    ck.outside.append('randomness sources that fail or return short reads (property C19)')
    ck.assumptions += sm2model.CONTRACTS
    eng = proto_engine(prog)
    # ---------------------------------------------------------------- special vectors on the real build first (cheap): the signature for keys with
    # leading zero bytes, short and all-ones key encodings, extreme digests and nonces must be the GM/T 0003.2 value
    rng0 = ck.rng
    sv = []
    for dv, klen_ in [(rng0.randrange(1, N - 1), 32), (rng0.randrange(1, 2 ** 247), 32), (rng0.randrange(1, 2 ** 200), 32), (1, 32), (N - 2, 32), (rng0.randrange(2 ** 240, 2 ** 248), 31),
                      (rng0.randrange(1, 2 ** 240), 31), (rng0.randrange(2 ** 120, 2 ** 128), 16), (0xff, 1), (0xffff, 2), (5, 32), (2 ** 248 - 1, 31)]:
        for evv, kv in [(rng0.getrandbits(256), rng0.randrange(1, N)), (0, 1), (2 ** 256 - 1, N - 1), (rng0.getrandbits(200), rng0.randrange(1, 2 ** 200))][:(4 if thorough else 2)]:
            rs = ref.sign_k(dv, evv, kv)
            if rs is None:
                continue
            sv.append('{%s,%s,%s,%s,%s},' % (go_bytes(list(dv.to_bytes(klen_, 'big'))), go_bytes(b32(evv)), go_bytes(b32(kv) + b32(0x1234567) * 2), go_bytes(b32(rs[0])), go_bytes(b32(rs[1]))))
    src0 = '''package sm2
import ("testing"; "bytes")
type verifReader struct{ b []byte; used int }
func (r *verifReader) Read(p []byte) (int, error) { if r.used >= len(r.b) { for i := range p { p[i] = 0x5a }; r.used += len(p); return len(p), nil }; n := copy(p, r.b[r.used:]); r.used += n; return n, nil }
type chunkReader struct{ b []byte; used, chunk int }
func (r *chunkReader) Read(p []byte) (int, error) { if len(p) > r.chunk { p = p[:r.chunk] }; if r.used >= len(r.b) { for i := range p { p[i] = 0x5a }; r.used += len(p); return len(p), nil }; n := copy(p, r.b[r.used:]); r.used += n; return n, nil }
func TestVerifReplay(t *testing.T) {
	cases := []struct{ d, e, k, r, s []byte }{
%s
	}
	for i, c := range cases {
		rd := &verifReader{b: c.k}
		r, s, err := SignHashed(rd, c.d, c.e)
		if err != nil { t.Fatalf("case %%d (key of %%d bytes): sign error %%v", i, len(c.d), err) }
		if !bytes.Equal(r, c.r) || !bytes.Equal(s, c.s) || rd.used != 32 { t.Fatalf("case %%d (key %%x): r=%%x s=%%x used=%%d, GM/T 0003.2 gives r=%%x s=%%x used=32", i, c.d, r, s, rd.used, c.r, c.s) }
		// the same stream delivered in chunks (short reads without error are legal for an io.Reader): same nonce, same signature
		for _, chunk := range []int{16, 1, 31} {
			cr := &chunkReader{b: c.k, chunk: chunk}
			r2, s2, err := SignHashed(cr, c.d, c.e)
			if err != nil || !bytes.Equal(r2, c.r) || !bytes.Equal(s2, c.s) || cr.used != 32 { t.Fatalf("case %%d: with a reader delivering %%d bytes per call r=%%x s=%%x used=%%d err=%%v, GM/T 0003.2 gives r=%%x s=%%x used=32", i, chunk, r2, s2, cr.used, err, c.r, c.s) }
		}
	}
}''' % '\n'.join(sv)
    ok0, out0, path0 = ck.go_test('sm2', src0, name='special_vectors')
    if ok0 is True:
        ck.validated += len(sv)
    elif ok0 is False:
        ck.record('sign[special-vectors]', 'violated', 'the signature for a special key / digest / nonce differs from the GM/T 0003.2 value: ' + (out0 or '')[-300:].replace('\n', ' '))
        ck.violation('special-vectors', 'SignHashed differs from the standard for a special key (leading zero bytes, short or all-ones encoding, extreme digest or nonce)', path0)
    # a violation is already established by the special vectors: the symbolic phase then only gets a short budget
    eng.deadline = time.time() + (120 if ok0 is False else (900 if not thorough else 4 * 3600))
    fails = {}      # key -> list of (desc, model, info)
    cexkeys = set()
    unknown = []
    npaths = 0
    cut = [0]
    t0 = time.time()
    for klen in keylens:
        def run(e, klen=klen):
            d, priv = int_input(e, 'd', klen) if klen else (0, e.new_slice([]))
            ev, eb = int_input(e, 'e', 32)
            rd = sm2model.new_reader(e, maxc)
            out = e.call_outcome(SM2 + '.SignHashed', [rd, priv, eb])
            stub = rd.v
            info = dict(d=d, e=ev, ks=list(stub.ks), klen=klen)
            res = []

            def claim(key, desc, c):
                if key in cexkeys:
                    return      # a counterexample for this claim is already in hand (kept for the replay): do not pay the failed-proof budget again on every further path
                v = e.prove_i(c)
                if v[0] == 'cex':
                    cexkeys.add(key)
                    res.append((key, desc, v[1], info))
                elif v[0] != 'proved':
                    unknown.append((key, desc, str(v[1])[:100]))
            if out.kind == 'panic':
                v = e.prove_i(False)
                res.append(('SignHashed.panic', 'SignHashed panics: %s at %s' % (out.panic.msg, out.panic.pos), v[1] if v[0] == 'cex' else None, info))
                return res
            r, s, err = out.values
            ncand = stub.delivered // 32
            if err is not None:
                if r.obj is not None or s.obj is not None:
                    res.append(('SignHashed.err-with-output', 'error returned together with a signature', None, info))
                if stub.delivered != 0:
                    res.append(('SignHashed.err-after-draw', 'error after consuming %d nonce bytes without reader failure' % stub.delivered, None, info))
                # the standard demands refusal only for keys outside [1, n-2]
                if klen <= 32:   # longer encodings are documented as refused
                    claim('key.refused-valid', 'a private key in [1,n-2] is refused', z3.Not(z3.And(d >= 1, d <= N - 2)) if not isinstance(d, int) else True)
                if klen <= 32 and isinstance(d, int) is False:
                    pass
                return res
            # success path
            if stub.delivered != 32 * ncand or ncand == 0:
                res.append(('SignHashed.draw-unit', 'nonce bytes consumed: %d (not a positive multiple of 32)' % stub.delivered, None, info))
                return res
            if not (isinstance(r.len, int) and r.len == 32 and isinstance(s.len, int) and s.len == 32):
                res.append(('SignHashed.output-length', 'r/s are not 32 bytes: %s/%s' % (r.len, s.len), None, info))
                return res
            rv, _ = slice_value(e, r)
            sv, _ = slice_value(e, s)
            dd = d
            claim('key.accepted-invalid', 'a private key outside [1,n-2] is accepted and a signature is produced',
                  z3.And(dd >= 1, dd <= N - 2) if not isinstance(dd, int) else (1 <= dd <= N - 2))
            # earlier candidates must have been rejected for a reason the standard names
            for j in range(ncand - 1):
                k = stub.ks[j]
                rj = spec_r(e, ev, k)
                sj = e.int_mod(k - rj * dd, N)
                claim('nonce.skipped-valid', 'candidate %d is skipped although the standard accepts it' % j,
                      z3.Or(k == 0, k >= N, rj == 0, rj + k == N, sj == 0))
            k = stub.ks[ncand - 1]
            rk_ = spec_r(e, ev, k)
            claim('nonce.range', 'a nonce outside [1,n-1] is used (k = 0 or k >= n)', z3.And(k >= 1, k <= N - 1))
            claim('nonce.r0', 'a candidate with r = 0 or r + k = n is used', z3.And(rk_ != 0, rk_ + k != N))
            claim('sig.r', 'r differs from (e + x1) mod n', rv == rk_)
            claim('sig.s', 's differs from (1+d)^-1 (k - r d) mod n', e.int_mod(sv * (1 + dd) - (k - rk_ * dd), N) == 0)
            claim('sig.s-range', 's = 0 or s >= n is output', z3.And(sv >= 1, sv <= N - 1))
            return res
        for r in eng.explore(run):
            npaths += 1
            for f in r:
                fails.setdefault(f[0], []).append(f)
    secs = time.time() - t0
    ck.absorb(eng)
    if getattr(eng, 'budget_hit', None):
        ck.record('sign[time-budget]', 'inconclusive', 'the symbolic exploration stopped at its time budget after %d paths (%d decision prefixes left unexplored)' % (npaths, eng.budget_hit))

    # ---------------------------------------------------------------- replay of counterexamples on the real build
    def replay(key, f):
        _, desc, m, info = f
        klen = info['klen']
        if m is None:
            return None, 'no model', None
        dv = mval(m, info['d']) if klen else 0
        evv = mval(m, info['e'])
        ks = [mval(m, k) for k in info['ks']]
        # append a well-behaved candidate so the reference always terminates
        stream = b''.join(k.to_bytes(32, 'big') for k in ks) + (0x1234567 + 7 * len(ks)).to_bytes(32, 'big') * 2
        priv = dv.to_bytes(klen, 'big') if klen else b''
        valid_key = 1 <= dv <= N - 2
        exp = ref.sign_stream(dv, evv, stream) if valid_key else None
        if exp:
            want = 'wantErr := false; wantR := %s; wantS := %s; wantUsed := %d' % (go_bytes(b32(exp[0])), go_bytes(b32(exp[1])), exp[2])
        else:
            want = 'wantErr := true; var wantR, wantS []byte; wantUsed := 0'
        src = '''package sm2
import ("testing"; "bytes")
type verifReader struct{ b []byte; used int }
func (r *verifReader) Read(p []byte) (int, error) { if r.used >= len(r.b) { for i := range p { p[i] = 0x5a }; r.used += len(p); return len(p), nil }; n := copy(p, r.b[r.used:]); r.used += n; return n, nil }
func TestVerifReplay(t *testing.T) {
	rd := &verifReader{b: %s}
	%s
	r, s, err := SignHashed(rd, %s, %s)
	if wantErr {
		if err == nil { t.Fatalf("key outside [1,n-2] accepted: r=%%x s=%%x", r, s) }
		return
	}
	if err != nil { t.Fatalf("unexpected error %%v", err) }
	if !bytes.Equal(r, wantR) || !bytes.Equal(s, wantS) || rd.used != wantUsed { t.Fatalf("got r=%%x s=%%x used=%%d, standard gives r=%%x s=%%x used=%%d", r, s, rd.used, wantR, wantS, wantUsed) }
}''' % (go_bytes(stream), want, go_bytes(priv), go_bytes(b32(evv)))
        ok, out, path = ck.go_test('sm2', src, name='sign_' + key.replace('.', '_').replace('-', '_'))
        return ok, out, path

    for key, fl in sorted(fails.items()):
        withm = [f for f in fl if f[2] is not None]
        done = False
        for f in withm[:4]:
            ok, out, path = replay(key, f)
            if ok is False:
                info = f[3]
                ck.record('sign[' + key + ']', 'violated', '%s (%d failing paths)' % (f[1], len(fl)),
                          sample=dict(key=key, d=hex(mval(f[2], info['d']) if info['klen'] else 0), keylen=info['klen'], k=[hex(mval(f[2], k)) for k in info['ks']]))
                ck.violation(key, f[1], path)
                done = True
                break
        if not done:
            if withm and all(getattr(f[2], 'approx', False) for f in withm[:4]):
                ck.record('sign[' + key + ']', 'inconclusive', '%s: only candidate inputs from the linear abstraction, none reproduced' % fl[0][1])
            elif withm:
                ck.encoder_mismatch('sign[' + key + ']', '%s: model did not reproduce' % fl[0][1])
            else:
                ck.record('sign[' + key + ']', 'violated', fl[0][1] + ' (structural, no solver model)')
                ck.violation(key, fl[0][1], '-')
    if unknown:
        keys = sorted(set(u[0] for u in unknown))
        ck.record('sign_unknown', 'inconclusive', 'solver unknown on %d claims: %s' % (len(unknown), keys))
    allkeys = ['key.refused-valid', 'key.accepted-invalid', 'nonce.skipped-valid', 'nonce.range', 'nonce.r0', 'sig.r', 'sig.s', 'sig.s-range']
    ukeys = set(u[0] for u in unknown)
    for k in allkeys:
        if k not in fails and k not in ukeys:
            ck.record('sign[' + k + ']', 'proved', 'holds on all %d explored paths' % npaths, ck.bounds[0], secs)
    ck.extra['paths'] = npaths

    # ---------------------------------------------------------------- witnesses for each rejection rule (vacuity guard):
    # the solver constructs inputs that hit each rule; they are replayed against the reference on the real build
    eng2 = proto_engine(prog)
    wit = {}

    def run_w(e):
        d, priv = int_input(e, 'd', 32, 1, N - 2)
        ev, eb = int_input(e, 'e', 32)
        rd = sm2model.new_reader(e, 2)
        out = e.call_outcome(SM2 + '.SignHashed', [rd, priv, eb])
        stub = rd.v
        if out.kind != 'return' or out.values[2] is not None or stub.delivered != 64:
            return None
        k0 = stub.ks[0]
        r0 = spec_r(e, ev, k0)
        for name, cond in (('k>=n', k0 >= N), ('r=0', z3.And(k0 >= 1, k0 < N, r0 == 0)), ('r+k=n', z3.And(k0 >= 1, k0 < N, r0 + k0 == N)),
                           ('s=0', z3.And(k0 >= 1, k0 < N, r0 != 0, r0 + k0 != N))):
            if name in wit:
                continue
            if e.check(cond) == z3.sat:
                m = e.solver.model()
                A = (lambda t: e.lin.abstract(t)) if e.lin is not None else (lambda t: t)
                wit[name] = (mval(m, A(d)), mval(m, A(ev)), [mval(m, A(k)) for k in stub.ks], None)
        return None
    eng2.explore(run_w)
    ck.absorb(eng2)
    # refine uninterpreted x-coordinates with the true values and replay
    nw = 0
    for name, (dv, evv, ks, xk) in sorted(wit.items()):
        k0 = ks[0]
        if name == 'r=0' and 1 <= k0 < N:
            evv = (-ref.mul(k0)[0]) % N
        if name == 'r+k=n' and 1 <= k0 < N:
            evv = (N - k0 - ref.mul(k0)[0]) % N
        if name == 's=0' and 1 <= k0 < N:
            # k = r d  ->  choose d = k / r for the true r
            r0 = (evv + ref.mul(k0)[0]) % N
            if r0 == 0:
                continue
            dv = k0 * pow(r0, -1, N) % N
            if not (1 <= dv <= N - 2):
                continue
        stream = b''.join(k.to_bytes(32, 'big') for k in ks) + (0x777).to_bytes(32, 'big')
        exp = ref.sign_stream(dv, evv, stream)
        first = ref.sign_k(dv, evv, k0)
        if first is not None or exp is None:
            continue
        src = '''package sm2
import ("testing"; "bytes")
type verifReader struct{ b []byte; used int }
func (r *verifReader) Read(p []byte) (int, error) { if r.used >= len(r.b) { for i := range p { p[i] = 0x5a }; r.used += len(p); return len(p), nil }; n := copy(p, r.b[r.used:]); r.used += n; return n, nil }
func TestVerifReplay(t *testing.T) {
	rd := &verifReader{b: %s}
	r, s, err := SignHashed(rd, %s, %s)
	if err != nil || !bytes.Equal(r, %s) || !bytes.Equal(s, %s) || rd.used != %d { t.Fatalf("rule %s: got r=%%x s=%%x used=%%d err=%%v", r, s, rd.used, err) }
}''' % (go_bytes(stream), go_bytes(b32(dv)), go_bytes(b32(evv)), go_bytes(b32(exp[0])), go_bytes(b32(exp[1])), exp[2], name)
        ok, out, path = ck.go_test('sm2', src, name='rule_' + ''.join(c if c.isalnum() else '_' for c in name))
        if ok is True:
            nw += 1
            ck.validated += 1
        elif ok is False:
            ck.record('rejection_rule[' + name + ']', 'violated', 'a stream crafted to hit rule %s is not handled as the standard demands' % name, sample=dict(rule=name, d=hex(dv), e=hex(evv), k0=hex(k0)))
            ck.violation('rule.' + name, 'rejection rule %s mishandled' % name, path)
    ck.record('rejection_witnesses', 'proved' if nw >= 3 else 'inconclusive', '%d of 4 rejection rules exercised by solver-constructed streams and replayed on the real build (%s)' % (nw, sorted(wit)))
    ck.finish()


if __name__ == '__main__':
    guarded_main('C02', main)
