#!/usr/bin/env python3
# C10 - buffer contracts: dst is appended to, inputs are never modified.  DESIGN.md section 3/C10.
import time, os, re, random
from sm4lib import *
import sm2model, models
import sm2 as ref

AEAD = '(*%s.sm4GcmAsm).' % SM4


def cells_equal(a, b):
    if len(a) != len(b):
        return False
    for x, y in zip(a, b):
        if isinstance(x, asmsym.Aff) or isinstance(y, asmsym.Aff):
            if not asmsym.aff_eq(x, y):
                return False
            continue
        x, y = force(x), force(y)
        if isinstance(x, int) and isinstance(y, int):
            if x != y:
                return False
        elif isinstance(x, int) or isinstance(y, int):
            return False
        elif not x.eq(y):
            if not z3.is_true(z3.simplify(x == y)):
                return False
    return True


def few_sym(e, rng, name, n, k=3):
    """n bytes, concrete (seeded) except up to k symbolic ones at the first, middle and last position: the solver
    quantifies over those, the assembly's GHASH terms stay small"""
    cells = [rng.randrange(256) for _ in range(n)]
    for pos in sorted(set([0, n // 2, n - 1]))[:k]:
        if 0 <= pos < n:
            cells[pos] = asmsym.Aff.byte('%s_%d_%d' % (name, n, pos))
    return cells


def main():
    ck = Check('C10')
    thorough = ck.tier == 'thorough'
    L = load_listing()
    prog = dump_ssa('c10')
    key = STD_KEY
    fails = {}
    nruns = 0
    t0 = time.time()
    pls = [0, 1, 15, 16, 17, 33, 64, 100] if not thorough else [0, 1, 2, 15, 16, 17, 31, 32, 33, 63, 64, 65, 100, 127, 129, 255, 257, 300]
    shapes = [('nil', None, None), ('empty', 0, 0), ('exact', 3, 3), ('spare-enough', 3, None), ('spare-large', 3, 400), ('spare-short', 3, 5), ('zero-len-cap', 0, None)]
    ck.bounds.append('Seal/Open through the Go glue and the real assembly: plaintext lengths %s x destination shapes %s x tag 12/16, in-place idiom dst=in[:0]; up to 3 data bytes per buffer symbolic (first/middle/last), the others fixed by VERIF_SEED' % (pls, [s[0] for s in shapes]))
    ck.outside.append('lengths above %d' % pls[-1])

    eng = new_engine(prog, cando_asm=True)
    asmbridge.install(eng, L)
    # the one data-dependent branch (tag verdict) is followed in the direction of a matching tag / explored both ways below
    eng.asm_branch_oracle = lambda e, fn, pc, cond: False   # JNE tagUnMatch not taken: the tag of Seal's own output matches (C07 decides that)
    ck.assumptions.append('Open on the output of Seal: the tag verdict branch is followed in the matching direction (property C07 decides that it matches)')

    def add(key_, desc, case):
        fails.setdefault(key_, []).append((desc, case))

    for ts in (16, 12):
        for pl in pls:
            for (sname, dl, dc) in shapes:
                def run(e, ts=ts, pl=pl, sname=sname, dl=dl, dc=dc):
                    asmsym.aff_reset()
                    blk, _ = e.call(SM4 + '.NewCipher', [e.new_slice(key)])
                    aead, _ = e.call('(*%s.sm4CipherAsm).NewGCM' % SM4, [blk.v, 12, ts])
                    nonce_b = list(range(1, 13))
                    pt_b = few_sym(e, random.Random(ck.seed * 1000 + pl), 'p', pl)
                    aad_b = few_sym(e, random.Random(ck.seed), 'a', 5, 1)
                    nonce, pt, aad = e.new_slice(nonce_b), e.new_slice(pt_b) if pl else e.new_slice([]), e.new_slice(aad_b)
                    need = pl + ts
                    case = dict(op='Seal', pt=pl, tag=ts, dst=sname)
                    if dl is None:
                        dst, pre = NILSLICE, []
                    else:
                        cap = dl + need if dc is None else dc
                        pre = [0x10 + i for i in range(dl)]
                        d0 = e.new_slice(pre + [0xAA] * (cap - dl))
                        dst = Slice(d0.obj, (), 0, dl, cap)
                    out = e.call_outcome(AEAD + 'Seal', [aead.v, dst, nonce, pt, aad])
                    if out.kind == 'panic':
                        add('Seal.panic:' + sname, 'Seal panics (%s) for a destination with len=%s cap=%s' % (out.panic.msg, dl, dc if dc is not None else 'len+needed'), case)
                        return
                    r = out.values
                    got = e.slice_list(r)
                    if not isinstance(r.len, int) or r.len != len(pre) + need or not cells_equal(got[:len(pre)], pre):
                        add('Seal.append', 'Seal result is not dst followed by %d output bytes' % need, case)
                    if dl is not None and dc is not None and dc >= dl + need and r.obj != dst.obj:
                        pass   # reallocation although capacity suffices is allowed by the AEAD contract
                    if not (cells_equal(e.slice_list(nonce), nonce_b) and cells_equal(e.slice_list(pt), pt_b) and cells_equal(e.slice_list(aad), aad_b)):
                        add('Seal.inputs', 'Seal modifies nonce, plaintext or additional data', case)
                    sealed = got[len(pre):]
                    # Open on the sealed message, same destination shapes
                    ct_b = list(sealed)
                    ct = e.new_slice(ct_b)
                    case2 = dict(op='Open', ct=len(ct_b), tag=ts, dst=sname)
                    if dl is None:
                        dst2, pre2 = NILSLICE, []
                    else:
                        cap = dl + pl if dc is None else dc
                        pre2 = [0x20 + i for i in range(dl)]
                        d1 = e.new_slice(pre2 + [0xBB] * max(0, cap - dl))
                        dst2 = Slice(d1.obj, (), 0, dl, max(cap, dl))
                    o2 = e.call_outcome(AEAD + 'Open', [aead.v, dst2, nonce, ct, aad])
                    if o2.kind == 'panic':
                        add('Open.panic:' + sname, 'Open panics (%s) for a destination with len=%s cap=%s and %d plaintext bytes' % (o2.panic.msg, dl, dc, pl), case2)
                        return
                    p2, err = o2.values
                    if err is not None:
                        add('Open.reject', 'Open rejects the output of Seal', case2)
                        return
                    g2 = e.slice_list(p2)
                    if len(g2) != len(pre2) + pl or not cells_equal(g2[:len(pre2)], pre2) or not cells_equal(g2[len(pre2):], pt_b):
                        add('Open.append', 'Open result is not dst followed by the plaintext', case2)
                    if not cells_equal(e.slice_list(ct), ct_b):
                        changed = [i for i, (x, y) in enumerate(zip(e.slice_list(ct), ct_b)) if not cells_equal([x], [y])]
                        add('Open.inputs', 'Open modifies the caller\'s ciphertext (bytes %d..%d of %d: the received tag)' % (changed[0], changed[-1], len(ct_b)), case2)
                    if not (cells_equal(e.slice_list(nonce), nonce_b) and cells_equal(e.slice_list(aad), aad_b)):
                        add('Open.inputs-other', 'Open modifies nonce or additional data', case2)
                    # a second Open on the same buffers must give the same answer
                    o3 = e.call_outcome(AEAD + 'Open', [aead.v, NILSLICE, nonce, ct, aad])
                    if o3.kind == 'panic' or o3.values[1] is not None or not cells_equal(e.slice_list(o3.values[0]), pt_b):
                        add('Open.repeat', 'a second Open of the same ciphertext buffer fails', case2)
                if sname not in ('nil', 'spare-enough') and pl not in (0, 17, 100) and not thorough:
                    continue
                for _ in eng.explore(run):
                    nruns += 1
    # every prefix length 0..40 on the reallocation path (cap == len: the prefix is copied by copyAsm) and with spare capacity
    for dl in range(0, 41):
        for (sname, dc) in (('exact%d' % dl, dl), ('spare%d' % dl, None)):
            shapes_extra = (sname, dl, dc)
            def run_prefix(e, dl=dl, dc=dc, sname=sname):
                asmsym.aff_reset()
                blk, _ = e.call(SM4 + '.NewCipher', [e.new_slice(key)])
                aead, _ = e.call('(*%s.sm4CipherAsm).NewGCM' % SM4, [blk.v, 12, 16])
                nonce = e.new_slice(list(range(1, 13)))
                pl = 17
                pt_b = few_sym(e, random.Random(ck.seed + dl), 'p', pl)
                pre = [(0xA0 + i) & 0xff for i in range(dl)]
                for (op, need) in (('Seal', pl + 16), ('Open', pl)):
                    cap = dl + need if dc is None else dc
                    d0 = e.new_slice(pre + [0xAA] * (cap - dl))
                    dst = Slice(d0.obj, (), 0, dl, cap) if dl or cap else e.new_slice([])
                    case = dict(op=op, pt=pl, tag=16, dst='prefix len %d cap %s' % (dl, 'len' if dc is not None else 'len+needed'), dl=dl, spare=dc is None)
                    if op == 'Seal':
                        out = e.call_outcome(AEAD + 'Seal', [aead.v, dst, nonce, e.new_slice(list(pt_b)), NILSLICE])
                        if out.kind == 'panic':
                            add('Seal.panic:prefix', 'Seal panics (%s) for a %d-byte dst prefix' % (out.panic.msg, dl), case)
                            return
                        got = e.slice_list(out.values)
                        sealed = got[dl:]
                        if len(got) != dl + need or not cells_equal(got[:dl], pre):
                            add('Seal.append:prefix', 'Seal does not preserve a %d-byte dst prefix (cap %s)' % (dl, 'len' if dc is not None else 'len+needed'), case)
                    else:
                        o2 = e.call_outcome(AEAD + 'Open', [aead.v, dst, nonce, e.new_slice(list(sealed)), NILSLICE])
                        if o2.kind == 'panic' or o2.values[1] is not None:
                            add('Open.panic:prefix', 'Open fails for a %d-byte dst prefix' % dl, case)
                            return
                        g2 = e.slice_list(o2.values[0])
                        if len(g2) != dl + pl or not cells_equal(g2[:dl], pre) or not cells_equal(g2[dl:], pt_b):
                            add('Open.append:prefix', 'Open does not preserve a %d-byte dst prefix (cap %s)' % (dl, 'len' if dc is not None else 'len+needed'), case)
            for _ in eng.explore(run_prefix):
                nruns += 1
    # in-place idiom
    for pl in pls:
        def run_inplace(e, pl=pl):
            asmsym.aff_reset()
            blk, _ = e.call(SM4 + '.NewCipher', [e.new_slice(key)])
            aead, _ = e.call('(*%s.sm4CipherAsm).NewGCM' % SM4, [blk.v, 12, 16])
            nonce = e.new_slice(list(range(1, 13)))
            pt_b = few_sym(e, random.Random(ck.seed * 1000 + pl), 'p', pl)
            buf = e.new_slice(pt_b + [0] * 16)
            pt = Slice(buf.obj, (), 0, pl, pl + 16)
            out = e.call_outcome(AEAD + 'Seal', [aead.v, Slice(buf.obj, (), 0, 0, pl + 16), nonce, pt, NILSLICE])
            case = dict(op='Seal in place', pt=pl)
            if out.kind == 'panic':
                add('Seal.inplace', 'Seal(dst=plaintext[:0]) panics: ' + out.panic.msg, case)
                return
            sealed = e.slice_list(out.values)
            # reference: out-of-place on fresh buffers
            o2 = e.call_outcome(AEAD + 'Seal', [aead.v, NILSLICE, nonce, e.new_slice(pt_b), NILSLICE])
            if o2.kind == 'panic' or not cells_equal(sealed, e.slice_list(o2.values)):
                add('Seal.inplace', 'in-place Seal differs from out-of-place Seal', case)
            cbuf = e.new_slice(list(sealed))
            o3 = e.call_outcome(AEAD + 'Open', [aead.v, Slice(cbuf.obj, (), 0, 0, len(sealed)), nonce, cbuf, NILSLICE])
            if o3.kind == 'panic':
                add('Open.inplace', 'Open(dst=ciphertext[:0]) panics: ' + o3.panic.msg, dict(op='Open in place', pt=pl))
            elif o3.values[1] is not None or not cells_equal(e.slice_list(o3.values[0]), pt_b):
                add('Open.inplace', 'in-place Open does not return the plaintext', dict(op='Open in place', pt=pl))
        for _ in eng.explore(run_inplace):
            nruns += 1
    ck.absorb(eng)

    # block ciphers and key expansion: inputs untouched, in-place allowed
    eng = new_engine(prog, cando_asm=True)
    asmbridge.install(eng, L)

    def run_blk(e):
        kb = list(key)
        ks = e.new_slice(kb)
        for ctor, label in ((SM4 + '.NewCipher', 'asm'), (SM4 + '.newCipherGeneric', 'generic')):
            blk, _ = e.call(ctor, [ks])
            if not cells_equal(e.slice_list(ks), kb):
                add('NewCipher.key', 'key slice modified by %s construction' % label, {})
            src_b = sym_bytes(e, 's', 16) if label == 'asm' else [ck.rng.randrange(256) for _ in range(16)]
            src, dst = e.new_slice(src_b), e.new_slice([0] * 16)
            tname = '(*%s.%s).' % (SM4, 'sm4CipherAsm' if label == 'asm' else 'sm4Cipher')
            e.call(tname + 'Encrypt', [blk.v, dst, src])
            if not cells_equal(e.slice_list(src), src_b):
                add('Encrypt.src', '%s Encrypt modifies its source' % label, {})
            same = e.new_slice(list(src_b))
            e.call(tname + 'Encrypt', [blk.v, same, same])
            if not cells_equal(e.slice_list(same), e.slice_list(dst)):
                add('Encrypt.inplace', '%s in-place Encrypt differs from out-of-place' % label, {})
    eng.explore(run_blk)
    ck.absorb(eng)

    # SM2 / SM3: byte slices handed in are never written (store log over the protocol run)
    peng = new_engine(prog, timeout_ms=3000)
    peng.use_linear_abstraction()
    sm2model.install(peng)
    sm2model.install_reader(peng)
    sm2model.install_hash(peng)
    SM2 = MOD + '/sm2'

    def run_sm2(e):
        from sm2lib import int_input
        d, priv = int_input(e, 'd', 32, 1, sm2model.N - 2)
        ev, eb = int_input(e, 'e', 32)

        def roomy(sl_):
            # the same bytes as a sub-slice of a longer array (spare capacity filled with a canary): an append into
            # the spare capacity of an input is a write to the caller's memory as well
            cells = list(e.heap[sl_.obj][0])
            o = e.new_obj(cells + [0xC5] * 40, 'arr')
            return Slice(o, (), 0, len(cells), len(cells) + 40)
        priv, eb = roomy(priv), roomy(eb)
        before = [list(e.heap[s.obj][0]) for s in (priv, eb)]
        rd = sm2model.new_reader(e, 1)
        out = e.call_outcome(SM2 + '.SignHashed', [rd, priv, eb])
        if out.kind != 'return' or out.values[2] is not None:
            return
        r, s, _ = out.values
        px, py = sm2model.reg_point(e, d)
        pubx = roomy(e.new_slice([ByteOf(px, j, 32) for j in range(32)]))
        puby = roomy(e.new_slice([ByteOf(py, j, 32) for j in range(32)]))
        r, s = roomy(r), roomy(s)
        idb = roomy(e.new_slice([0x31 + (j % 8) for j in range(16)]))
        sl = [priv, eb, r, s, pubx, puby, idb]
        snap = [list(e.heap[x.obj][0]) for x in sl]
        e.call_outcome(SM2 + '.VerifyHashed', [pubx, puby, eb, r, s])
        e.call_outcome(SM2 + '.ZA', [idb, pubx, puby])
        e.call_outcome(SM2 + '.CheckOnCurve', [pubx, puby])
        e.call_outcome(SM2 + '.DerivePublic', [priv])
        for name, x, sn in zip(('priv', 'e', 'r', 's', 'pubx', 'puby', 'id'), sl, snap):
            if [sm2model.cell_key(c) for c in e.heap[x.obj][0]] != [sm2model.cell_key(c) for c in sn]:
                add('sm2.inputs', 'SignHashed/VerifyHashed/ZA/CheckOnCurve/DerivePublic write to the %s argument or to the spare capacity behind it' % name, {})
        if [sm2model.cell_key(c) for c in e.heap[priv.obj][0]] != [sm2model.cell_key(c) for c in before[0]]:
            add('sm2.inputs', 'SignHashed modifies the private key slice', {})
    peng.explore(run_sm2)
    ck.absorb(peng)
    secs = time.time() - t0

    # ------------------------------------------------------------ replays
    keylit = go_bytes(key)

    def replay(k, desc, case):
        ts = case.get('tag', 16)
        pl = case.get('pt', case.get('ct', ts) - ts if 'ct' in case else 17)
        if 'dl' in case:
            mk = 'func() []byte { d := make([]byte, %d, %s); for i := range d { d[i] = byte(0xA0 + i) }; return d }()' % (case['dl'], ('%d+need' % case['dl']) if case['spare'] else str(case['dl']))
        dstexpr = {'nil': '[]byte(nil)', 'empty': '[]byte{}', 'exact': '[]byte{1,2,3}', 'spare-enough': 'append(make([]byte, 0, 3+need), 1, 2, 3)',
                   'spare-large': 'append(make([]byte, 0, 400), 1, 2, 3)', 'spare-short': 'append(make([]byte, 0, 5), 1, 2, 3)',
                   'zero-len-cap': 'make([]byte, 0, need)'}.get(case.get('dst', 'nil'), '[]byte(nil)')
        if 'dl' in case:
            dstexpr = mk
        src = '''package sm4
import ("testing"; "bytes"; "crypto/cipher")
func TestVerifReplay(t *testing.T) {
	b, _ := NewCipher(%s)
	a, err := cipher.NewGCMWithTagSize(b, %d)
	if err != nil { t.Fatal(err) }
	g, _ := newCipherGeneric(%s)
	refA, _ := cipher.NewGCMWithTagSize(g, %d)   // standard library GCM over the portable cipher
	nonce := []byte{1,2,3,4,5,6,7,8,9,10,11,12}
	pt := make([]byte, %d); for i := range pt { pt[i] = byte(i*7 + 1) }
	aad := []byte{9, 8, 7, 6, 5}
	want := refA.Seal(nil, nonce, pt, aad)
	need := len(want); _ = need
	dst := %s
	pre := append([]byte{}, dst...)
	got := a.Seal(dst, nonce, pt, aad)
	if !bytes.Equal(got, append(pre, want...)) { t.Fatalf("Seal: result is not dst||output") }
	ct := append([]byte{}, want...)
	need = len(pt)
	dst2 := %s
	pre2 := append([]byte{}, dst2...)
	p, err := a.Open(dst2, nonce, ct, aad)
	if err != nil || !bytes.Equal(p, append(pre2, pt...)) { t.Fatalf("Open: %%v %%x", err, p) }
	if !bytes.Equal(ct, want) { t.Fatalf("Open modified the ciphertext buffer: %%x != %%x", ct, want) }
	p, err = a.Open(nil, nonce, ct, aad)
	if err != nil || !bytes.Equal(p, pt) { t.Fatalf("second Open of the same buffer: %%v", err) }
	// in place
	buf := append(append([]byte{}, pt...), make([]byte, %d)...)
	s2 := a.Seal(buf[:0], nonce, buf[:len(pt)], aad)
	if !bytes.Equal(s2, want) { t.Fatalf("in-place Seal differs") }
	p2, err := a.Open(s2[:0], nonce, s2, aad)
	if err != nil || !bytes.Equal(p2, pt) { t.Fatalf("in-place Open: %%v", err) }
}''' % (keylit, ts, keylit, ts, pl, dstexpr, dstexpr, ts)
        return ck.go_test('sm4', src, name='buf_' + re.sub(r'\W', '_', k))

    # SM2 / SM3 entry points on the real build: every byte-slice argument is a sub-slice of a longer array with a canary
    # behind it; neither the argument bytes nor the canary may change, and a repeated call gives the same answer
    src_sm2 = '''package sm2
import ("testing"; "bytes"; "github.com/bilibili/smgo/sm3")
type fixedReader struct{ b byte }
func (r *fixedReader) Read(p []byte) (int, error) { for i := range p { p[i] = r.b + byte(i) }; return len(p), nil }
func TestVerifReplay(t *testing.T) {
	var arrays [][]byte; var copies [][]byte; var names []string
	roomy := func(name string, b []byte) []byte {
		arr := make([]byte, len(b)+40); copy(arr, b)
		for i := len(b); i < len(arr); i++ { arr[i] = 0xC5 }
		arrays = append(arrays, arr); copies = append(copies, append([]byte{}, arr...)); names = append(names, name)
		return arr[:len(b):len(arr)]
	}
	check := func(after string) {
		for i := range arrays { if !bytes.Equal(arrays[i], copies[i]) { t.Fatalf("%s modified (argument bytes or the spare capacity behind them) by %s", names[i], after) } }
	}
	privb := make([]byte, 32); for i := range privb { privb[i] = byte(7*i + 3) }
	priv := roomy("private key", privb)
	px0, py0, err := DerivePublic(priv); if err != nil { t.Fatal(err) }
	check("DerivePublic")
	px, py := roomy("public key x", px0), roomy("public key y", py0)
	id := roomy("id", []byte("1234567812345678")); msg := roomy("message", []byte("message digest"))
	e := roomy("digest", bytes.Repeat([]byte{0x5a}, 32))
	r0, s0, err := SignHashed(&fixedReader{9}, priv, e); if err != nil { t.Fatal(err) }
	check("SignHashed")
	r, s := roomy("r", r0), roomy("s", s0)
	if ok, err := VerifyHashed(px, py, e, r, s); !ok || err != nil { t.Fatalf("VerifyHashed: %v %v", ok, err) }
	check("VerifyHashed")
	if ok, _ := VerifyHashed(px, py, e, r, s); !ok { t.Fatalf("second VerifyHashed on the same buffers fails") }
	za0, err := ZA(id, px, py); if err != nil { t.Fatal(err) }
	check("ZA")
	za := roomy("ZA", za0)
	r1, s1, err := Sign(id, px, py, &fixedReader{5}, priv, msg); if err != nil { t.Fatal(err) }
	check("Sign")
	rr, ss := roomy("r (Sign)", r1), roomy("s (Sign)", s1)
	if ok, err := Verify(id, px, py, msg, rr, ss); !ok || err != nil { t.Fatalf("Verify: %v %v", ok, err) }
	check("Verify")
	if ok, err := VerifyZa(px, py, za, msg, rr, ss); !ok || err != nil { t.Fatalf("VerifyZa: %v %v", ok, err) }
	check("VerifyZa")
	if _, _, err := SignZa(&fixedReader{5}, priv, za, msg); err != nil { t.Fatal(err) }
	check("SignZa")
	if !CheckOnCurve(px, py) { t.Fatalf("CheckOnCurve") }
	check("CheckOnCurve")
	TestPrivateKey(priv); check("TestPrivateKey")
	// sm3: Write must not modify its argument, Sum appends to its argument
	data := roomy("sm3 data", bytes.Repeat([]byte{0xab}, 150))
	h := sm3.New(); h.Write(data); check("sm3 Write")
	pre := roomy("Sum prefix", []byte{1, 2, 3, 4})
	out := h.Sum(pre)
	if !bytes.Equal(out[:4], []byte{1, 2, 3, 4}) || len(out) != 36 { t.Fatalf("Sum(prefix) is not prefix || digest") }
	d2 := sm3.SumSM3(data); if !bytes.Equal(out[4:], d2[:]) { t.Fatalf("Sum(prefix) digest differs from SumSM3") }
	copies[len(copies)-1] = append(append([]byte{}, pre...), arrays[len(arrays)-1][4:]...)   // Sum may use the spare capacity of its own prefix
	check("sm3 Sum")
}'''
    ok_sm2, out_sm2, path_sm2 = ck.go_test('sm2', src_sm2, name='inputs_sm2')
    if ok_sm2 is True:
        ck.validated += 1
    elif ok_sm2 is False and not any(k.startswith('sm2.') for k in fails):
        fails.setdefault('sm2.inputs', []).append(('an SM2/SM3 entry point modifies an input buffer or the spare capacity behind it: ' + (out_sm2 or '')[-200:].replace('\n', ' '), {}))

    for k, fl in sorted(fails.items()):
        desc, case = fl[0]
        if k.startswith('sm2.'):
            if ok_sm2 is False:
                ck.record('buffers[' + k + ']', 'violated', desc + ' - confirmed on the real build: ' + (out_sm2 or '')[-200:].replace('\n', ' '))
                ck.violation(k, desc, path_sm2)
            else:
                ck.encoder_mismatch('buffers[' + k + ']', desc)
            continue
        if k.startswith('sm2.') or k.startswith('Encrypt') or k.startswith('NewCipher'):
            ck.record('buffers[' + k + ']', 'violated', desc + ' (write observed in the symbolic store log)')
            ck.violation(k, desc, '-')
            continue
        ok, out, path = replay(k, desc, case)
        if ok is False:
            ck.record('buffers[' + k + ']', 'violated', '%s (%d cases, e.g. %s)' % (desc, len(fl), case), sample=dict(finding=k, case=case))
            ck.violation(k, desc, path)
        else:
            ck.encoder_mismatch('buffers[' + k + ']', desc + ' :: ' + (out or '')[-300:])
    if not fails:
        ck.record('buffers', 'proved', '%d runs (Go glue from go/ssa + assembly from the listing, data symbolic): Seal/Open return dst||output for every destination shape incl. spare capacity and dst=in[:0]; nonce, aad, plaintext, ciphertext (tag included) unmodified; repeated Open identical; block ciphers and SM2 entry points leave their inputs untouched' % nruns,
                  ck.bounds[0], secs, sample=dict(op='Open', ct=33, tag=16, dst='spare-large', claim='result == dst || plaintext, ciphertext buffer unchanged'))
    # always: one replay of the contract on the real build (validates the composed engines on a concrete case)
    ok, out, path = replay('validate', '', dict(pt=37, tag=16, dst='spare-enough'))
    if ok is True:
        ck.validated += 1
    elif ok is False and not fails:
        ck.record('contract_replay', 'violated', 'AEAD buffer contract fails on the real build: ' + (out or '')[-200:].replace('\n', ' '))
        ck.violation('aead-contract', 'AEAD buffer contract fails on the real build (dst with spare capacity, in-place, repeated Open)', path)
    ck.assumptions.append('sm3 Sum append rule is obligation sum_step of C04')
    # ------------------------------------------------------------ arm64: Go glue (go/ssa GOARCH=arm64) + NEON leaf routines (arm64 listing)
    import arm64lib
    a64fails = {}
    t_a64 = time.time()
    try:
        a64env = arm64lib.Env('c10')
        n_a64 = arm64lib.c10(ck, a64env, lambda k, d, w=None: a64fails.setdefault(k, []).append((d, w)), thorough)
    except (asmsym.AsmUnsupported, Unsupported, RuntimeError) as ex:
        n_a64 = 0
        a64fails.setdefault('a64:unsupported', []).append(('arm64 part not completed: %s' % ex, None))
    if not arm64lib.report(ck, a64fails):
        ck.record('arm64', 'proved', 'arm64 glue: append contract for every destination shape, inputs unchanged (%d cases)' % n_a64, secs=time.time() - t_a64)
    ck.finish()


if __name__ == '__main__':
    guarded_main('C10', main)
