#!/usr/bin/env python3
# C15 - SM2 point arithmetic is complete; encodings round-trip and are strict.  DESIGN.md section 3/C15.
import time, os
from sm2lib import *
import rcb
from sm2model import IntElem

INT = MOD + '/sm2/internal'
FIAT = MOD + '/sm2/internal/fiat'
PT = INT + '.SM2Point'
B = ref.B


def field_engine(prog):
    eng = new_engine(prog, timeout_ms=5000)
    eng.use_linear_abstraction()
    sm2model.install(eng, group=False)
    return eng


def mk_elem(e, v):
    return Ptr(e.new_obj([IntElem(v, P)], FIAT + '.SM2Element'), ())


def mk_point(e, name, coords=None):
    if coords is None:
        coords = [e.fresh_int('%s_%s' % (name, c)) for c in 'XYZ']
    els = [mk_elem(e, v) for v in coords]
    return Ptr(e.new_obj(list(els), PT), ()), coords


def coords_of(e, p):
    out = []
    for ptr in e.heap[p.obj][0]:
        v = e.heap[ptr.obj][0][0]
        if isinstance(v, IntElem):
            out.append(v.v)
        elif isinstance(v, list) and all(isinstance(x, int) for x in v):
            limbs = sum(x << (64 * i) for i, x in enumerate(v))
            out.append(limbs * pow(2, -256, P) % P)
        else:
            out.append(None)
    return out


def poly_equal(a, b):
    """integer polynomial identity, decided by z3's polynomial normaliser / solver"""
    d = z3.simplify(a - b, som=True)
    if z3.is_int_value(d):
        return d.as_long() == 0, 'normal form'
    s = z3.Solver()
    s.set('timeout', 30000)
    r = s.check(a != b)
    return (r == z3.unsat), str(r)


def cong_mod_p(e, a, b):
    """a == b (mod p) as polynomials: the difference must be p times a polynomial; here the code and the specification
    must coincide as integer polynomials up to the constant b reduced mod p, so plain identity is tried first"""
    return poly_equal(a, b)


def main():
    ck = Check('C15')
    prog = dump_ssa('c15')
    thorough = ck.tier == 'thorough'
    ck.assumptions += ['field operations replaced by their contracts (integers modulo p, property C16)',
                       'completeness of the Renes-Costello-Batina formulas on prime-order curves is the published theorem (eprint 2015/1060); the transcription of the output polynomials is validated against the affine chord-tangent law at start-up (doubling, inverse, infinity, random Z scalings)',
                       'outputs satisfy the projective curve equation whenever inputs do: consequence of the theorem, not re-proved here']
    fails = {}
    engines = []
    t0 = time.time()

    def add(k, desc):
        fails.setdefault(k, []).append(desc)

    # ------------------------------------------------------------ 1. Add / Double / Negate as polynomial identities, all aliasing patterns
    eng = field_engine(prog)
    eng.deadline = time.time() + (600 if not thorough else 3600)    # a changed tree can make the point code fork on field comparisons
    engines.append(eng)
    nid = 0

    def run_arith(e):
        nonlocal nid
        for alias in ('none', 'q=p1', 'q=p2', 'p1=p2', 'all'):
            p1, c1 = mk_point(e, 'p')
            if alias in ('p1=p2', 'all'):
                p2, c2 = p1, c1
            else:
                p2, c2 = mk_point(e, 'r')
            q = {'none': None, 'q=p1': p1, 'q=p2': p2, 'p1=p2': None, 'all': p1}[alias]
            if q is None:
                q, _ = mk_point(e, 'q', [0, 1, 0])
            out = e.call_outcome('(*%s).Add' % PT, [q, p1, p2])
            if out.kind != 'return':
                add('Add.panic', 'Add panics (%s): %s' % (alias, out.panic.msg))
                continue
            got = coords_of(e, q)
            want = rcb.add(*c1, *c2, -3, B)
            for nm, g, w in zip('XYZ', got, want):
                ok, how = poly_equal(g, w)
                nid += 1
                if not ok:
                    add('Add', 'Add (%s): %s3 differs from the complete-addition polynomial (%s)' % (alias, nm, how))
            # operands other than the receiver are unchanged
            if q is not p1 and coords_of(e, p1) != c1:
                add('Add.operand', 'Add modifies its first operand')
        for alias in ('none', 'q=p'):
            p1, c1 = mk_point(e, 'd')
            q = p1 if alias == 'q=p' else mk_point(e, 'q', [0, 1, 0])[0]
            out = e.call_outcome('(*%s).Double' % PT, [q, p1])
            if out.kind != 'return':
                add('Double.panic', 'Double panics: ' + out.panic.msg)
                continue
            got = coords_of(e, q)
            want = rcb.double(*c1, -3, B)
            for nm, g, w in zip('XYZ', got, want):
                ok, how = poly_equal(g, w)
                nid += 1
                if not ok:
                    add('Double', 'Double (%s): %s3 differs from the doubling polynomial (%s)' % (alias, nm, how))
        p1, c1 = mk_point(e, 'n')
        q = mk_point(e, 'q', [0, 1, 0])[0]
        e.call('(*%s).Negate' % PT, [q, p1])
        got = coords_of(e, q)
        for nm, g, w in zip('XYZ', got, [c1[0], -c1[1], c1[2]]):
            if not poly_equal(g, w)[0]:
                add('Negate', 'Negate: %s differs from (X, -Y, Z)' % nm)
        # Select / Set / NewSM2Point / NewFromXY
        a_, ca = mk_point(e, 'a')
        b_, cb = mk_point(e, 'b')
        for cond in (0, 1):
            q = mk_point(e, 'q', [0, 1, 0])[0]
            e.call('(*%s).Select' % PT, [q, a_, b_, cond])
            if not all(poly_equal(g, w)[0] for g, w in zip(coords_of(e, q), ca if cond == 1 else cb)):
                add('Select', 'Select(cond=%d) picks the wrong point' % cond)
        inf = e.call(INT + '.NewSM2Point', [])
        ci = coords_of(e, inf)
        if not (ci[0] == 0 and ci[1] == 1 and ci[2] == 0):
            add('NewSM2Point', 'NewSM2Point is not (0:1:0): %s' % ci)
    eng.explore(run_arith)
    ck.absorb(eng)

    # ------------------------------------------------------------ 2. decoding: exactly 00 and 04||x||y with canonical on-curve coordinates
    eng = field_engine(prog)
    eng.deadline = time.time() + (600 if not thorough else 3600)    # a changed tree can make the point code fork on field comparisons
    engines.append(eng)
    unknown = []

    def run_decode(e):
        x, xs = int_input(e, 'x', 32)
        y, ys = int_input(e, 'y', 32)
        tag = e.fresh_bv('tag', 8)
        enc = e.new_slice([tag] + e.slice_list(xs) + e.slice_list(ys))
        recv, c0 = mk_point(e, 'recv')
        out = e.call_outcome('(*%s).SetBytes' % PT, [recv, enc])
        if out.kind != 'return':
            add('SetBytes.panic', 'SetBytes panics on a 65-byte string: ' + out.panic.msg)
            return
        p, err = out.values
        spec = z3.And(tag == 4, x < P, y < P, (y * y - (x * x * x - 3 * x + B)) % P == 0)
        if err is None:
            v = e.prove_i(spec)
            if v[0] == 'cex':
                add('SetBytes.accept', 'a 65-byte string that is not 04||canonical on-curve x||y is accepted')
            elif v[0] != 'proved':
                unknown.append('accept')
            got = coords_of(e, recv)
            v = e.prove_i(z3.And((got[0] - x) % P == 0, (got[1] - y) % P == 0, (got[2] - 1) % P == 0))
            if v[0] != 'proved':
                add('SetBytes.value', 'decoded point differs from (x : y : 1)') if v[0] == 'cex' else unknown.append('value')
        else:
            v = e.prove_i(z3.Not(spec))
            if v[0] == 'cex':
                add('SetBytes.reject', 'a valid uncompressed encoding is rejected')
            elif v[0] != 'proved':
                unknown.append('reject')
            if coords_of(e, recv) != c0:
                add('SetBytes.receiver', 'receiver modified although decoding failed')
    eng.explore(run_decode)

    def run_decode_lens(e):
        for L in (0, 1, 2, 32, 33, 64, 66):
            for first in (0, 2, 3, 4):
                recv, c0 = mk_point(e, 'recv')
                enc = e.new_slice([first] + [1] * (L - 1)) if L else e.new_slice([])
                out = e.call_outcome('(*%s).SetBytes' % PT, [recv, enc])
                if out.kind != 'return':
                    add('SetBytes.panic', 'SetBytes panics on a %d-byte string' % L)
                    continue
                p, err = out.values
                if L == 1 and first == 0:
                    ci = coords_of(e, recv)
                    if err is not None or not (ci[2] == 0 or (not isinstance(ci[2], int) and False)):
                        add('SetBytes.infinity', 'the one-byte infinity encoding is not decoded to the point at infinity')
                    else:
                        # the result must be a point of the projective curve: Z = 0 forces X = 0 and Y != 0 (the receiver's
                        # previous coordinates are arbitrary symbolic values here); (X : Y : 0) with X != 0 is not neutral for Add
                        def modp_zero(v):
                            if isinstance(v, int):
                                return v % P == 0
                            r_ = e.prove_i(v % P == 0)
                            return True if r_[0] == 'proved' else (False if r_[0] == 'cex' else None)

                        def modp_nonzero(v):
                            if isinstance(v, int):
                                return v % P != 0
                            r_ = e.prove_i(v % P != 0)
                            return True if r_[0] == 'proved' else (False if r_[0] == 'cex' else None)
                        zx, ny = modp_zero(ci[0]), modp_nonzero(ci[1])
                        if zx is False or ny is False:
                            add('SetBytes.infinity-representative', 'the one-byte infinity encoding decodes to (X : Y : 0) with X != 0 or Y = 0 for some receiver state: not a point of the curve, not neutral for Add')
                        elif zx is None or ny is None:
                            unknown.append('infinity-representative')
                elif err is None:
                    add('SetBytes.accept-length', 'a %d-byte string starting with %d is accepted' % (L, first))
                elif coords_of(e, recv) != c0:
                    add('SetBytes.receiver', 'receiver modified although decoding failed (%d bytes)' % L)
    eng.explore(run_decode_lens)
    ck.absorb(eng)

    # ------------------------------------------------------------ 3. encoding / affine conversion (safe and fast versions)
    eng = field_engine(prog)
    eng.deadline = time.time() + (600 if not thorough else 3600)    # a changed tree can make the point code fork on field comparisons
    engines.append(eng)

    eng.byteslen_choices = [32, 31, 1, 0]     # 2..30-byte coordinates: the prover does not get through (candidate models only); covered by the concrete search in the replay below
    ck.bounds.append('Bytes_Unsafe: byte lengths of the affine coordinates case-split over %s (other leading-zero counts are cut)' % eng.byteslen_choices)

    def run_encode(e):
        for fn in ('Bytes', 'Bytes_Unsafe'):
            pt, c = mk_point(e, 'p')
            for v in c:
                e.assume(z3.And(v >= 0, v < P))
                e.big_bounds[models.id_of(v)] = (0, P - 1, v)
            out = e.call_outcome('(*%s).%s' % (PT, fn), [pt])
            if out.kind != 'return':
                if e.prove_i(False)[0] != 'proved':
                    add(fn + '.panic', '%s panics: %s' % (fn, out.panic.msg))
                continue
            enc = out.values
            if not isinstance(enc.len, int):
                add(fn + '.length', 'encoding length is data dependent beyond finite/infinite')
                continue
            cells = e.slice_list(enc)
            if enc.len == 1:
                v = e.prove_i(c[2] % P == 0)
                if cells != [0] or v[0] == 'cex':
                    add(fn + '.infinity', '%s returns the infinity encoding for a finite point' % fn)
                continue
            if enc.len != 65 or force(cells[0]) != 4:
                add(fn + '.format', '%s: not a 65-byte 04||x||y encoding' % fn)
                continue
            xv, _, _ = models.int_of_cells(e, cells[1:33])
            yv, _, _ = models.int_of_cells(e, cells[33:65])
            enc_claim = z3.And(c[2] % P != 0, xv >= 0, xv < P, yv >= 0, yv < P, (xv * c[2] - c[0]) % P == 0, (yv * c[2] - c[1]) % P == 0)
            v = e.prove_i(enc_claim)
            if v[0] == 'unknown' or (v[0] == 'cex' and getattr(v[1], 'approx', False)):
                v = e.prove_i(enc_claim, scale=4)      # no verdict within the budget (machine under load?): once more with four times the budget
            if v[0] == 'cex' and getattr(v[1], 'approx', False):
                unknown.append(fn)
            elif v[0] == 'cex':
                add(fn + '.value', '%s: encoded coordinates are not X/Z, Y/Z mod p (canonical)' % fn)
            elif v[0] != 'proved':
                unknown.append(fn)
        for fn in ('GetAffineX', 'GetAffineX_Unsafe'):
            pt, c = mk_point(e, 'p')
            for v in c:
                e.assume(z3.And(v >= 0, v < P))
                e.big_bounds[models.id_of(v)] = (0, P - 1, v)
            out = e.call_outcome('(*%s).%s' % (PT, fn), [pt])
            if out.kind != 'return':
                if e.prove_i(False)[0] != 'proved':
                    add(fn + '.panic', '%s panics: %s' % (fn, out.panic.msg))
                continue
            xv = models.bigval(e, out.values).v
            v = e.prove_i(z3.Or(z3.And(c[2] % P == 0, xv == 0), z3.And(c[2] % P != 0, xv >= 0, xv < P, (xv * c[2] - c[0]) % P == 0)))
            if v[0] == 'cex' and getattr(v[1], 'approx', False):
                unknown.append(fn)
            elif v[0] == 'cex':
                add(fn + '.value', '%s is not X/Z mod p (0 at infinity)' % fn)
            elif v[0] != 'proved':
                unknown.append(fn)
    eng.explore(run_encode)
    ck.absorb(eng)
    secs = time.time() - t0
    ck.bounds.append('Add/Double/Negate/Select with all six (nine) projective coordinates symbolic integers and every receiver/operand aliasing pattern; SetBytes on all 65-byte strings and lengths 0,1,2,32,33,64,66; Bytes/Bytes_Unsafe/GetAffineX/GetAffineX_Unsafe on all projective representatives')
    ck.outside.append('compressed encodings (unimplemented in the library and required to be rejected); the completeness theorem itself')

    # ------------------------------------------------------------ replay / validation on the real build: special pairs in random projective representations
    rng = ck.rng
    rows = []
    pts = [ref.mul(rng.randrange(1, N)) for _ in range(3)]
    pairs = [(pts[0], pts[1]), (pts[0], pts[0]), (pts[1], ref.neg(pts[1])), (pts[2], None), (None, pts[0]), (None, None), (ref.G, ref.mul(2)), (ref.G, ref.neg(ref.G))]
    # finite points with a zero coordinate: x = 0 gives (0, +-sqrt(b)) (p = 3 mod 4); no point has y = 0 (odd prime order).  They are the only
    # finite points on which a test of X, instead of Z, for zero can be told from the infinity test (seed C15_j), and the only ones whose
    # projective X is zero in every representative; pairs that *produce* them (Z0 - Q, Q) are included so arithmetic reaches them with Z != 1.
    y0 = pow(ref.B, (P + 1) // 4, P)
    assert y0 * y0 % P == ref.B
    Z0, Z0n = (0, y0), (0, P - y0)
    pairs += [(Z0, pts[0]), (Z0, Z0), (Z0, Z0n), (Z0n, None), (None, Z0), (ref.add(Z0, ref.neg(pts[1])), pts[1]), (ref.add(Z0n, ref.neg(ref.G)), ref.G)]

    def enc(pt):
        return [0] if pt is None else [4] + b32(pt[0]) + b32(pt[1])
    for p_, q_ in pairs:
        rows.append('{%s, %s, %s, %s, %s},' % (go_bytes(enc(p_)), go_bytes(enc(q_)), go_bytes(enc(ref.add(p_, q_))), go_bytes(enc(ref.add(p_, p_))), go_bytes(b32(rng.randrange(1, P)))))
    src = '''package internal
import ("testing"; "bytes"; "encoding/binary"; "github.com/bilibili/smgo/sm2/internal/fiat")
func scale(p *SM2Point, zb []byte) *SM2Point {
	z, _ := new(fiat.SM2Element).SetBytes(zb)
	return &SM2Point{x: new(fiat.SM2Element).Mul(p.x, z), y: new(fiat.SM2Element).Mul(p.y, z), z: new(fiat.SM2Element).Mul(p.z, z)}
}
func TestVerifReplay(t *testing.T) {
	cases := []struct{ p, q, sum, dbl, z []byte }{
%s
	}
	for i, c := range cases {
		p, e1 := NewSM2Point().SetBytes(c.p); q, e2 := NewSM2Point().SetBytes(c.q)
		if e1 != nil || e2 != nil { t.Fatalf("case %%d: decode", i) }
		p, q = scale(p, c.z), scale(q, c.z)
		if got := NewSM2Point().Add(p, q).Bytes(); !bytes.Equal(got, c.sum) { t.Fatalf("case %%d: Add = %%x want %%x", i, got, c.sum) }
		if got := NewSM2Point().Add(p, q).Bytes_Unsafe(); !bytes.Equal(got, c.sum) { t.Fatalf("case %%d: Bytes_Unsafe differs", i) }
		if got := NewSM2Point().Double(p).Bytes(); !bytes.Equal(got, c.dbl) { t.Fatalf("case %%d: Double", i) }
		r := scale(p, c.z); r.Add(r, q); if !bytes.Equal(r.Bytes(), c.sum) { t.Fatalf("case %%d: aliased Add", i) }
		r = scale(p, c.z); r.Double(r); if !bytes.Equal(r.Bytes(), c.dbl) { t.Fatalf("case %%d: aliased Double", i) }
		n := NewSM2Point().Negate(p); n.Add(n, p); if !bytes.Equal(n.Bytes(), []byte{0}) { t.Fatalf("case %%d: P + (-P) != O", i) }
		back, err := NewSM2Point().SetBytes(p.Bytes()); if err != nil || !bytes.Equal(back.Bytes(), c.p) { t.Fatalf("case %%d: round trip", i) }
	}
	bad := append([]byte{4}, make([]byte, 64)...)
	if _, err := NewSM2Point().SetBytes(bad); err == nil { t.Fatalf("(0,0) accepted") }
	comp := append([]byte{2}, cases[0].p[1:33]...)
	if _, err := NewSM2Point().SetBytes(comp); err == nil { t.Fatalf("compressed encoding accepted") }
	// the two affine-x conversions on every representative of the point at infinity and on finite points with Z != 1
	g2 := NewSM2Point().Double(NewSM2Generator())
	for j, o := range []*SM2Point{NewSM2Point(), NewSM2Point().Add(NewSM2Generator(), NewSM2Point().Negate(NewSM2Generator())), NewSM2Point().Double(NewSM2Point()), NewSM2Point().Add(g2, NewSM2Point().Negate(g2))} {
		func() {
			defer func() { if x := recover(); x != nil { t.Fatalf("infinity representative %%d: affine conversion panics: %%v", j, x) } }()
			if o.GetAffineX().Sign() != 0 || o.GetAffineX_Unsafe().Sign() != 0 { t.Fatalf("infinity representative %%d: affine x is not reported as 0 by both conversions", j) }
			if !bytes.Equal(o.Bytes(), []byte{0}) || !bytes.Equal(o.Bytes_Unsafe(), []byte{0}) { t.Fatalf("infinity representative %%d: encoding is not the single byte 00", j) }
		}()
	}
	if g2.GetAffineX().Cmp(g2.GetAffineX_Unsafe()) != 0 { t.Fatalf("GetAffineX and GetAffineX_Unsafe differ for Z != 1") }
	// coordinates with two or more leading zero bytes (outside the symbolic case split of Bytes_Unsafe): search some and compare the conversions
	found := 0
	for i := uint64(1); i < 400000 && found < 4; i++ {
		k := make([]byte, 32); binary.BigEndian.PutUint64(k[24:], i*0x9E3779B97F4A7C15)
		p, _ := ScalarBaseMult(k)
		b := p.Bytes()
		if (b[1] == 0 && b[2] == 0) || (b[33] == 0 && b[34] == 0) {
			found++
			if !bytes.Equal(p.Bytes_Unsafe(), b) { t.Fatalf("Bytes_Unsafe differs from Bytes for a coordinate with leading zero bytes (k=%%x)", k) }
			h := NewSM2Point().Add(NewSM2Point().Double(p), NewSM2Point().Negate(p))
			if !bytes.Equal(h.Bytes_Unsafe(), b) || !bytes.Equal(h.Bytes(), b) { t.Fatalf("projective representative with leading-zero coordinate encodes differently") }
		}
	}
	// the infinity encoding decoded into receivers that hold finite points: the result must be neutral for Add on both sides
	for j, enc := range [][]byte{cases[0].p, cases[0].q, cases[6].q} {
		recv, _ := NewSM2Point().SetBytes(enc)
		recv.Double(recv)
		o, err := recv.SetBytes([]byte{0}); if err != nil { t.Fatalf("receiver %%d: infinity encoding refused", j) }
		p, _ := NewSM2Point().SetBytes(cases[0].p)
		if got := NewSM2Point().Add(p, o).Bytes(); !bytes.Equal(got, cases[0].p) { t.Fatalf("receiver %%d: P + O != P after decoding 00 into a used receiver", j) }
		if got := NewSM2Point().Add(o, p).Bytes(); !bytes.Equal(got, cases[0].p) { t.Fatalf("receiver %%d: O + P != P after decoding 00 into a used receiver", j) }
		if got := NewSM2Point().Add(NewSM2Point().Negate(o), p).Bytes(); !bytes.Equal(got, cases[0].p) { t.Fatalf("receiver %%d: -O + P != P", j) }
		if got := NewSM2Point().Double(o).Bytes(); !bytes.Equal(got, []byte{0}) { t.Fatalf("receiver %%d: 2O != O", j) }
	}
	for j, in := range [][]byte{%s} {
		recv, _ := NewSM2Point().SetBytes(cases[0].p)
		before := recv.Bytes()
		if _, err := recv.SetBytes(in); err == nil { t.Fatalf("invalid encoding %%d accepted", j) }
		if !bytes.Equal(recv.Bytes(), before) { t.Fatalf("invalid encoding %%d: receiver modified although decoding failed", j) }
	}
}''' % ('\n'.join(rows), ', '.join(go_bytes(x) for x in [
        [4] + b32(ref.G[0]) + b32(ref.G[1] ^ 1), [4] + b32(P) + b32(1), [4] + b32(1) + b32(P + 5), [4] + b32(ref.G[0]) + b32(ref.G[1])[:31],
        [5] + b32(ref.G[0]) + b32(ref.G[1]), [0, 0], [4] + [0xff] * 64, [6] + b32(ref.G[0]) + b32(ref.G[1]), [7] + b32(ref.G[0]) + b32(ref.G[1]),
        [2] + b32(ref.G[0]), [3] + b32(ref.G[0]), [0] + b32(ref.G[0]) + b32(ref.G[1]), [4] + b32(ref.G[0]) + b32(ref.G[1]) + [0]]))
    okr, outr, pathr = ck.go_test('sm2/internal', src, name='points')
    if okr is True:
        ck.validated += len(pairs)
    for k, fl in sorted(fails.items()):
        if okr is False:
            ck.record('points[' + k + ']', 'violated', '%s (%d) - the real build also disagrees with the affine reference: %s' % (fl[0], len(fl), (outr or '')[-160:].replace('\n', ' ')))
            ck.violation(k, fl[0], pathr)
        else:
            ck.record('points[' + k + ']', 'inconclusive', '%s (%d) - symbolic mismatch not reproduced by the special pairs on the real build' % (fl[0], len(fl)))
    if okr is False and not fails:
        ck.record('reference_points', 'violated', 'real build disagrees with the affine reference on special pairs: ' + (outr or '')[-200:].replace('\n', ' '))
        ck.violation('points-reference', 'point arithmetic / encoding disagrees with the affine reference', pathr)
    if any(getattr(g_, 'budget_hit', None) for g_ in engines):
        ck.record('points[time-budget]', 'inconclusive', 'a symbolic exploration stopped at its time budget (%s decision prefixes left)' % [getattr(g_, 'budget_hit', 0) for g_ in engines])
    if unknown:
        ck.record('points_unknown', 'inconclusive', 'solver unknown on %s' % sorted(set(unknown)))
    if not fails:
        ck.record('formulas', 'proved', '%d polynomial identities: Add and Double outputs equal the complete-addition output polynomials for a=-3 (all aliasing patterns), Negate = (X,-Y,Z), Select exact' % nid, ck.bounds[0], secs,
                  sample=dict(obligation='Add.X3', aliasing='q=p1', claim='X3 == (X1Y2+X2Y1)(Y1Y2+3(X1Z2+X2Z1)-3bZ1Z2) - (Y1Z2+Y2Z1)(-3X1X2+3b(X1Z2+X2Z1)-9Z1Z2) as polynomials'))
        if not unknown:
            ck.record('encodings', 'proved', 'decode accepts exactly 00 and 04||x||y with x,y<p on the curve and leaves the receiver untouched otherwise; encode gives canonical X/Z, Y/Z for every representative (safe and fast conversions satisfy the same defining congruence); infinity <-> 00')
    # coordinate decoding on the real code: the field-element contract used above ("SetBytes accepts exactly the canonical
    # encodings") is discharged here on the real fiat.SM2Element.SetBytes, and a failure is replayed through SM2Point.SetBytes
    okd, detail, wit = setbytes_obligation(prog, ck, 'SM2Element', ref.P, 'sm2')
    if okd is True:
        ck.record('coordinate_decoding', 'proved', detail + ' (real fiat.SM2Element.SetBytes, all 2^256 strings)')
    elif okd == 'cex':
        xs = 1
        while True:
            rhs = (xs ** 3 - 3 * xs + ref.B) % ref.P
            ys = pow(rhs, (ref.P + 1) // 4, ref.P)
            if ys * ys % ref.P == rhs and xs + ref.P < 2 ** 256:
                break
            xs += 1
        enc = [4] + list(b32(xs + ref.P)) + list(b32(ys))
        srcd = '''package internal
import ("testing"; "bytes")
func TestVerifReplay(t *testing.T) {
	in := %s
	q, err := NewSM2Point().SetBytes(in)
	if err == nil && !bytes.Equal(q.Bytes_Unsafe(), in) { t.Fatalf("non-canonical encoding (x = p + %d) accepted; re-encoding differs from the input") }
	if err == nil { t.Fatalf("non-canonical encoding accepted") }
}''' % (go_bytes(enc), xs)
        okx, outx, pathx = ck.go_test('sm2/internal', srcd, name='noncanonical')
        if okx is False:
            ck.record('coordinate_decoding', 'violated', detail, sample=dict(encoding=hexs(enc)))
            ck.violation('SetBytes.noncanonical', 'point decoding accepts coordinates >= p (decoded modulo p), so decode/encode does not round-trip', pathx)
        else:
            ck.encoder_mismatch('coordinate_decoding', detail)
    else:
        ck.record('coordinate_decoding', 'inconclusive', detail)
    ck.finish()


if __name__ == '__main__':
    guarded_main('C15', main)
