#!/usr/bin/env python3
# C06 - SM4-GCM: Seal output equals NIST SP 800-38D GCM over SM4.  DESIGN.md section 3/C06.
import time, os, re, random
from sm4lib import *


def main():
    ck = Check('C06')
    thorough = ck.tier == 'thorough'
    L = load_listing()
    prog = dump_ssa('c06')
    m = Machine(L)
    rng = ck.rng
    keys = KEYS + [[rng.randrange(256) for _ in range(16)] for _ in range(5 if thorough else 2)]
    rks = [rk_bytes(round_keys(k)) for k in keys]
    if thorough:
        pls = sorted(set(list(range(0, 130)) + list(range(250, 262)) + [271, 300, 383, 384, 385, 511, 512, 513, 639, 767, 768, 769, 1023, 1024, 1025, 1099, 1100]))
        als = sorted(set(list(range(0, 40)) + [63, 64, 65, 127, 128, 129, 271, 1100]))
        nls = sorted(set(list(range(1, 40)) + [63, 64, 65, 127, 128, 129, 143, 144, 271, 300]))
    else:
        pls = [0, 1, 15, 16, 17, 31, 32, 33, 47, 48, 63, 64, 65, 127, 128, 129, 255, 256, 257, 271, 511, 513, 1025, 1100]
        als = [0, 1, 15, 16, 17, 64, 127, 128, 129, 144, 160, 176, 183, 240, 271]     # block counts 8.. in every residue mod 4 (4-way GHASH loop)
        nls = [1, 8, 11, 12, 13, 16, 17, 127, 128, 129, 144, 160, 176, 183, 300]
    tuples = [(12, pl, al, 16) for pl in pls for al in (0, 5)] + [(12, pl, 16, ts) for pl in (0, 17, 64, 271) for ts in (12, 13, 14, 15, 16)] + \
             [(12, pl, al, 16) for al in als for pl in (0, 37)] + [(nl, pl, 3, 16) for nl in nls for pl in (0, 17, 271)]
    tuples = sorted(set(tuples))
    ck.bounds.append('sealAsm: %d (nonce,plaintext,aad,tag) length tuples (plaintext 0..%d, aad 0..%d, nonce 1..%d, tag 12..16) x keys {standard sample key, 0^128, 1^128, %d seeded}; nonce concrete (seeded), plaintext/aad: up to 3+2 bytes symbolic (first/middle/last) and all others fixed by VERIF_SEED; solved nonces that put the initial counter within 17 blocks of 2^32' % (
        len(tuples), pls[-1], als[-1], nls[-1], len(keys) - 3))
    ck.outside.append('all key values (keys are concrete: with a symbolic key GHASH is a product of two symbolic field elements, out of solver reach); all data bytes symbolic at once for long inputs (every byte position is covered only by the listed symbolic positions and seeds); lengths above the bounds')
    fails = {}
    nq = 0
    t0 = time.time()

    def check_case(ki, nonce, pt, aad, ts, label):
        nonlocal nq
        key = keys[ki]
        m.reset()
        try:
            m.run('sealAsm', seal_args(m, key, nonce, pt, aad, ts, rk=rks[ki]))
        except asmsym.AsmUnsupported as ex:
            fails.setdefault('unsupported', []).append((str(ex), None))
            return
        ck.states += 1
        got = list(m.regions['dst'].cells)
        ct, tag, _ = G.seal(S.encrypt_block, key, nonce, pt, aad, ts)
        want = ct + tag
        q = cells_differ_query(got, want)
        if m.events:
            fails.setdefault('events', []).append((label + ': ' + str(m.events[0]), None))
        if q is None:
            return
        s = z3.Solver()
        s.set('timeout', 30000)
        t1 = time.time()
        r = s.check(q)
        nq += 1
        ck.queries += 1
        ck.solver_s += time.time() - t1
        if r == z3.unsat:
            return
        mdl = s.model() if r == z3.sat else None
        fails.setdefault('seal', []).append(('%s: ciphertext||tag differs from SP 800-38D (%s)' % (label, r), dict(key=key, nonce=nonce, pt=concretize(pt, mdl), aad=concretize(aad, mdl), ts=ts)))

    for idx, (nl, pl, al, ts) in enumerate(tuples):
        asmsym.aff_reset()
        r2 = random.Random(ck.seed * 7919 + idx)
        nonce = [r2.randrange(256) for _ in range(nl)]
        pt, _ = aff_data(r2, 'p', pl, 3)
        aad, _ = aff_data(r2, 'a', al, 2)
        check_case(idx % len(keys), nonce, pt, aad, ts, 'nonce=%d pt=%d aad=%d tag=%d' % (nl, pl, al, ts))

    # fully symbolic short messages (every plaintext and aad bit at once)
    for (pl, al) in ([(5, 3), (16, 0), (33, 16)] if not thorough else [(1, 0), (5, 3), (15, 1), (16, 0), (17, 17), (33, 16), (48, 5), (64, 0)]):
        asmsym.aff_reset()
        pt = [asmsym.Aff.byte('fp_%d' % i) for i in range(pl)]
        aad = [asmsym.Aff.byte('fa_%d' % i) for i in range(al)]
        check_case(0, list(range(12)), pt, aad, 16, 'all %d+%d data bytes symbolic' % (pl, al))

    # counter wrap: nonces solved so that the low 32 bits of J0 are just below 2^32
    wraps = []
    for target in (0xffffffff, 0xfffffffe, 0xfffffff0, 0xffffffef):
        asmsym.aff_reset()
        r2 = random.Random(ck.seed + target)
        nonce = [r2.randrange(256) for _ in range(16)]
        for p in (0, 5, 10, 15, 3, 12):
            nonce[p] = asmsym.Aff.byte('n_%d' % p)
        h = int.from_bytes(bytes(S.encrypt_block(STD_KEY, [0] * 16)), 'big')
        j0 = G.ghash(h, G.pad16(nonce) + [0] * 8 + list((8 * 16).to_bytes(8, 'big')))
        # J0 is GF(2)-affine in the symbolic nonce bits: the 32 equations "low word == target" are a linear system,
        # solved by elimination (a SAT search over XOR constraints does not finish: z3 unknown at 30 s), then the
        # solver only confirms the assignment
        vals = j0.cols()
        nbits = len(vals) - 1
        rows = []
        for i in range(32):
            coeff = 0
            for j in range(nbits):
                if (vals[1 + j] >> i) & 1:
                    coeff |= 1 << j
            rhs = ((vals[0] >> i) & 1) ^ ((target >> i) & 1)
            rows.append([coeff, rhs])
        piv = {}
        for r_ in rows:
            c_, b_ = r_
            for pj, (pc_, pb_) in piv.items():
                if (c_ >> pj) & 1:
                    c_ ^= pc_
                    b_ ^= pb_
            if c_:
                pj = c_.bit_length() - 1
                for q in list(piv):
                    if (piv[q][0] >> pj) & 1:
                        piv[q] = (piv[q][0] ^ c_, piv[q][1] ^ b_)
                piv[pj] = (c_, b_)
            elif b_:
                piv = None
                break
        if piv is None:
            fails.setdefault('wrap-nonce', []).append(('no nonce found for initial counter %#x (system inconsistent)' % target, None))
            continue
        assign = {pj: pb_ for pj, (pc_, pb_) in piv.items()}
        bytevals = {}
        for j in range(nbits):
            name, bit = asmsym.AFFKEYS[j]
            bytevals[name] = bytevals.get(name, 0) | (assign.get(j, 0) << bit)
        s = z3.Solver()
        s.set('timeout', 30000)
        t1 = time.time()
        r = s.check(z3.And(*[asmsym.bitvar(n) == v for n, v in bytevals.items()]), z3.Extract(31, 0, asmsym.bv(j0, 128)) == target)
        ck.queries += 1
        ck.solver_s += time.time() - t1
        if r != z3.sat:
            fails.setdefault('wrap-nonce', []).append(('solved nonce for initial counter %#x not confirmed (%s)' % (target, r), None))
            continue
        cn = concretize(nonce, s.model())
        wraps.append((target, cn))
        for pl in ((300, 17) if not thorough else (16, 17, 33, 64, 129, 271, 300, 600)):
            asmsym.aff_reset()
            pt, _ = aff_data(r2, 'p', pl, 3)
            check_case(0, cn, pt, [1, 2, 3], 16, 'counter wrap: J0 low word %#x, pt=%d' % (target, pl))
    ck.transitions += m.steps

    # Go glue + assembly through the public method for a few tuples (the pointer/length plumbing of Seal)
    eng = new_engine(prog, cando_asm=True)
    asmbridge.install(eng, L)
    glue_bad = []

    def run_glue(e):
        blk, _ = e.call(SM4 + '.NewCipher', [e.new_slice(STD_KEY)])
        for (nl, pl, al, ts) in [(12, 0, 0, 16), (12, 37, 5, 16), (13, 64, 0, 12), (12, 271, 17, 14)]:
            asmsym.aff_reset()
            aead, _ = e.call('(*%s.sm4CipherAsm).NewGCM' % SM4, [blk.v, nl, ts])
            r2 = random.Random(ck.seed + pl)
            nonce = [r2.randrange(256) for _ in range(nl)]
            pt, _ = aff_data(r2, 'p', pl, 3)
            aad, _ = aff_data(r2, 'a', al, 1)
            out = e.call_outcome('(*%s.sm4GcmAsm).Seal' % SM4, [aead.v, NILSLICE, e.new_slice(nonce), e.new_slice(list(pt)), e.new_slice(list(aad))])
            if out.kind == 'panic':
                glue_bad.append('Seal panics: ' + out.panic.msg)
                continue
            got = e.slice_list(out.values)
            ct, tag, _ = G.seal(S.encrypt_block, STD_KEY, nonce, pt, aad, ts)
            if cells_differ_query(got, ct + tag) is not None:
                s = z3.Solver()
                if s.check(cells_differ_query(got, ct + tag)) != z3.unsat:
                    glue_bad.append('Seal(nonce %d, pt %d, aad %d, tag %d) through the Go method differs from the standard' % (nl, pl, al, ts))
        # wrong nonce length must panic
        aead, _ = e.call('(*%s.sm4CipherAsm).NewGCM' % SM4, [blk.v, 12, 16])
        out = e.call_outcome('(*%s.sm4GcmAsm).Seal' % SM4, [aead.v, NILSLICE, e.new_slice([1] * 11), e.new_slice([1]), NILSLICE])
        if out.kind != 'panic':
            glue_bad.append('Seal accepts a nonce of the wrong length')
    eng.explore(run_glue)
    ck.absorb(eng)
    for g in glue_bad:
        fails.setdefault('glue', []).append((g, dict(key=STD_KEY, nonce=list(range(12)), pt=[7] * 37, aad=[1, 2, 3, 4, 5], ts=16)))
    secs = time.time() - t0

    # ------------------------------------------------------------ replay: real Seal against the standard's value (and the stdlib generic path)
    def replay(cases, name):
        rows = []
        for c in cases:
            ct, tag, _ = G.seal(S.encrypt_block, c['key'], c['nonce'], c['pt'], c['aad'], c['ts'])
            rows.append('{%s,%s,%s,%s,%d,%s},' % (go_bytes(c['key']), go_bytes(c['nonce']), go_bytes(c['pt']), go_bytes(c['aad']), c['ts'], go_bytes(ct + tag)))
        src = '''package sm4
import ("testing"; "bytes"; "crypto/cipher")
func TestVerifReplay(t *testing.T) {
	cases := []struct{ key, nonce, pt, aad []byte; ts int; want []byte }{
%s
	}
	for i, c := range cases {
		b, _ := NewCipher(c.key)
		a, err := b.(gcmAble).NewGCM(len(c.nonce), c.ts)
		if err != nil { t.Fatal(err) }
		if got := a.Seal(nil, c.nonce, c.pt, c.aad); !bytes.Equal(got, c.want) { t.Fatalf("case %%d (nonce %%d, pt %%d, aad %%d, tag %%d): Seal differs from SP 800-38D\\n got %%x\\nwant %%x", i, len(c.nonce), len(c.pt), len(c.aad), c.ts, got, c.want) }
		g, _ := newCipherGeneric(c.key)
		var ga cipher.AEAD
		err = nil
		if c.ts == 16 { ga, err = cipher.NewGCMWithNonceSize(g, len(c.nonce)) } else if len(c.nonce) == 12 { ga, err = cipher.NewGCMWithTagSize(g, c.ts) } else { err = bytes.ErrTooLarge }
		if err == nil { if got := ga.Seal(nil, c.nonce, c.pt, c.aad); !bytes.Equal(got, c.want) { t.Fatalf("case %%d: generic path (stdlib GCM over the portable cipher) differs", i) } }
	}
}''' % '\n'.join(rows)
        return ck.go_test('sm4', src, name=name)

    for k, fl in sorted(fails.items()):
        cases = [c for _, c in fl if c][:6]
        desc = '%s (%d failing cases)' % (fl[0][0], len(fl))
        if not cases:
            ck.record('seal[' + k + ']', 'inconclusive', desc)
            continue
        ok, out, path = replay(cases, 'seal_' + k)
        if ok is False:
            ck.record('seal[' + k + ']', 'violated', desc, sample=dict(case={kk: (hexs(v) if isinstance(v, list) else v) for kk, v in cases[0].items()}))
            ck.violation('seal:' + k, desc, path)
        else:
            ck.encoder_mismatch('seal[' + k + ']', desc + ' :: ' + (out or '')[-200:])
    # validation traces: concrete cases incl. the solved wrap nonces, through the asm path and the stdlib generic path
    vcases = [dict(key=STD_KEY, nonce=cn, pt=[rng.randrange(256) for _ in range(300)], aad=[1, 2, 3], ts=16) for _, cn in wraps]
    for (nl, pl, al, ts) in [(12, 1100, 5, 16), (300, 271, 129, 12), (1, 17, 0, 13)]:
        vcases.append(dict(key=keys[-1], nonce=[rng.randrange(256) for _ in range(nl)], pt=[rng.randrange(256) for _ in range(pl)], aad=[rng.randrange(256) for _ in range(al)], ts=ts))
    ok, out, path = replay(vcases, 'validate')
    if ok is True:
        ck.validated += len(vcases)
    elif ok is False and not fails:
        ck.record('reference_replay', 'violated', 'real Seal differs from SP 800-38D on concrete cases (incl. counter-wrap nonces): ' + (out or '')[-300:].replace('\n', ' '))
        ck.violation('seal:reference', 'real Seal differs from the standard on concrete cases', path)
    if not fails:
        ck.record('seal_equals_sp800_38d', 'proved', '%d symbolic runs, %d solver queries: for every listed length tuple and key, ciphertext||tag stored by sealAsm equals the standard for all values of the symbolic bytes; 3 fully symbolic short messages; %d counter-wrap nonces solved and crossed; Go method plumbing checked on 4 tuples' % (ck.states, nq, len(wraps)),
                  ck.bounds[0], secs, sample=dict(nonce=13, pt=271, aad=3, tag=16, symbolic=['p_0', 'p_135', 'p_270', 'a_0', 'a_2'], claim='dst[0:pt+tag] == GCM-SM4(key, nonce, aad, pt)[:pt+tag]'))
    ck.assumptions.append('stdlib crypto/cipher generic GCM is SP 800-38D (used only as an additional replay oracle)')
    # ------------------------------------------------------------ arm64: Go glue (go/ssa GOARCH=arm64) + NEON leaf routines (arm64 listing)
    import arm64lib
    a64fails = {}
    t_a64 = time.time()
    try:
        a64env = arm64lib.Env('c06')
        n_a64 = arm64lib.c06(ck, a64env, lambda k, d, w=None: a64fails.setdefault(k, []).append((d, w)), thorough, keys, wraps)
    except (asmsym.AsmUnsupported, Unsupported, RuntimeError) as ex:
        n_a64 = 0
        a64fails.setdefault('a64:unsupported', []).append(('arm64 part not completed: %s' % ex, None))
    if not arm64lib.report(ck, a64fails):
        ck.record('arm64', 'proved', 'arm64 Seal (Go glue + NEON leaf routines) equals the SP 800-38D specification on every length tuple of the arm64 bound (%d cases)' % n_a64, secs=time.time() - t_a64)
    ck.finish()


if __name__ == '__main__':
    guarded_main('C06', main)
