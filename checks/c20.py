#!/usr/bin/env python3
# C20 - comparison and signed-window recoding helpers are exact.  DESIGN.md section 3/C20.
import sys, os, time
sys.path.insert(0, os.path.join(os.path.dirname(os.path.abspath(__file__)), '..', 'engine'))
import z3
from common import *
from gosym import *
from harness import *

CMP = MOD + '/utils.ConstantTimeCmp'
NAF = MOD + '/utils.DecomposeNAF'
M64 = (1 << 64) - 1


class CutReached(Exception):
    def __init__(self, vals):
        self.vals = vals


def sint(v):
    return v - (1 << 64) if isinstance(v, int) and v >> 63 else v


def naf_ref(sbytes, n, w):
    """reference recoding (textbook right-to-left signed window, digits in (-2^w, 2^w))"""
    v = int.from_bytes(bytes(sbytes), 'big')
    out = [0] * n
    i = 0
    while v != 0 and i < n:
        if v & 1:
            d = v & ((1 << (w + 1)) - 1)
            if d >= (1 << w):
                d -= 1 << (w + 1)
            out[i] = d
            v -= d
        v >>= 1
        i += 1
    return out


def main():
    ck = Check('C20')
    prog = dump_ssa('c20')
    thorough = ck.tier == 'thorough'

    # ------------------------------------------------------------------ ConstantTimeCmp
    eng = new_engine(prog)
    lens = list(range(0, 41)) if thorough else [0, 1, 2, 3, 8, 16, 31, 32, 33, 40]
    ck.bounds.append('ConstantTimeCmp: l in %s, both arguments of length l (and l+3), contents symbolic' % ('0..40' if thorough else lens))
    ck.outside.append('ConstantTimeCmp with l > 40')
    bad = []
    t0 = time.time()
    ncmp = 0
    for l in lens:
        for extra in (0, 3):
            def run(e, l=l, extra=extra):
                a = sym_bytes(e, 'a', l + extra)
                b = sym_bytes(e, 'b', l + extra)
                sa, sb = e.new_slice(a), e.new_slice(b)
                out = e.call_outcome(CMP, [sa, sb, l])
                if out.kind != 'return':
                    return ('cex', 'panic: ' + out.panic.msg, None, a, b)
                r = out.values
                if l == 0:
                    want = z3.BitVecVal(0, 64)
                else:
                    A, B = bytes_to_bv(a[:l]), bytes_to_bv(b[:l])
                    want = z3.If(z3.ULT(A, B), z3.BitVecVal(M64, 64), z3.If(A == B, z3.BitVecVal(0, 64), z3.BitVecVal(1, 64)))
                v = e.prove(tobv(r, 64) == want)
                unchanged = e.slice_list(sa) == a and e.slice_list(sb) == b
                if not unchanged:
                    return ('cex', 'arguments modified', None, a, b)
                return (v[0], 'result differs from lexicographic order', v[1], a, b)
            for r in eng.explore(run):
                ncmp += 1
                if r[0] != 'proved':
                    bad.append((l, extra, r))
    secs = time.time() - t0

    def run_nil(e):
        o1 = e.call_outcome(CMP, [NILSLICE, e.new_slice([1]), 1])
        o2 = e.call_outcome(CMP, [e.new_slice([1]), NILSLICE, 1])
        o3 = e.call_outcome(CMP, [e.new_slice([]), e.new_slice([]), 0])
        return (o1.kind, o2.kind, o3.kind, o3.values)
    nilres = eng.explore(run_nil)[0]
    ck.absorb(eng)
    if bad:
        l, extra, r = bad[0]
        cex = [b for b in bad if b[2][0] == 'cex']
        if cex:
            l, extra, r = cex[0]
            av = model_bytes(r[2], r[3]) if r[2] is not None else [0] * (l + extra)
            bv = model_bytes(r[2], r[4]) if r[2] is not None else [0] * (l + extra)
            A, B = bytes(av[:l]), bytes(bv[:l])
            want = (A > B) - (A < B)
            src = '''package utils
import "testing"
func TestVerifReplay(t *testing.T) {
	got := ConstantTimeCmp(%s, %s, %d)
	if got != %d { t.Fatalf("ConstantTimeCmp = %%d, want %%d", got, %d) }
}''' % (go_bytes(av), go_bytes(bv), l, want, want)
            ok, out, path = ck.go_test('utils', src, name='cmp')
            if ok is False:
                ck.record('cmp_lexicographic', 'violated', '%s at l=%d (%d failing (l,path) cases)' % (r[1], l, len(cex)), sample=dict(a=hexs(av), b=hexs(bv), l=l, want=want))
                ck.violation('ConstantTimeCmp', r[1], path)
            else:
                ck.encoder_mismatch('cmp_lexicographic', (out or '')[-300:])
        else:
            ck.record('cmp_lexicographic', 'inconclusive', 'solver unknown for l=%d' % l)
    else:
        ck.record('cmp_lexicographic', 'proved', '%d paths over %d lengths: result == sign of big-endian comparison of the first l bytes; arguments unmodified' % (ncmp, len(lens)), ck.bounds[-1], secs,
                  sample=dict(obligation='cmp_lexicographic', l=32, claim='forall a,b in {0..255}^32: ConstantTimeCmp(a,b,32) == sign(BE(a)-BE(b))'))
    if nilres[0] == 'panic' and nilres[1] == 'panic' and nilres[2] == 'return' and nilres[3] == 0:
        ck.record('cmp_nil', 'proved', 'panics for a nil argument, returns 0 for empty non-nil arguments with l=0')
    else:
        ck.record('cmp_nil', 'violated', 'nil handling changed: %r' % (nilres,))
        src = '''package utils
import "testing"
func TestVerifReplay(t *testing.T) {
	defer func() { if recover() == nil { t.Fatalf("no panic for nil argument") } }()
	ConstantTimeCmp(nil, []byte{1}, 1)
}'''
        ok, out, path = ck.go_test('utils', src, name='cmpnil')
        if ok is False:
            ck.violation('ConstantTimeCmp.nil', 'nil argument does not panic', path)

    # ------------------------------------------------------------------ DecomposeNAF: exhaustive small widths by forking
    eng = new_engine(prog)
    small = [(9, w) for w in range(1, 8)] + ([(17, w) for w in range(1, 8)] if thorough else [(17, 4), (17, 7)])
    ck.bounds.append('DecomposeNAF end-to-end: (n,w) in %s with all byte contents symbolic (paths forked)' % small)
    nbad = []
    npaths = 0
    t0 = time.time()
    for (n, w) in small:
        nb = (n - 1) // 8

        def run(e, n=n, w=w, nb=nb):
            s = sym_bytes(e, 's', nb)
            # the digit buffer is longer than n (the function has its own n parameter): entries beyond n-1 belong to the caller
            outo = e.new_obj([0] * (n + 3), ('array', 'int', n + 3))
            out = e.call_outcome(NAF, [Slice(outo, (), 0, n + 3, n + 3), e.new_slice(s), n, w])
            if out.kind != 'return':
                return ('cex', 'panic: ' + out.panic.msg, None, s)
            spare = e.heap[outo][0][n:]
            if not all(isinstance(force(x), int) and force(x) == 0 for x in spare):
                vsp = e.prove(z3.And(*[tobv(x, 64) == 0 for x in spare]))
                if vsp[0] != 'proved':
                    return (vsp[0], 'digits are written beyond position n-1 of a longer buffer', vsp[1], s)
            digs = e.heap[outo][0][:n]
            S = z3.ZeroExt(64 - 8 * nb, bytes_to_bv(s))
            tot = z3.BitVecVal(0, 64)
            conds = []
            for i, d in enumerate(digs):
                d64 = tobv(d, 64)
                tot = tot + (d64 << i)
                odd = z3.Extract(0, 0, d64) == 1
                conds.append(z3.Or(d64 == 0, z3.And(odd, d64 < (1 << w), d64 > -(1 << w))))
                for k in range(1, w + 1):
                    if i + k < n:
                        conds.append(z3.Implies(d64 != 0, tobv(digs[i + k], 64) == 0))
            conds.append(tot == S)
            v = e.prove(z3.And(*conds))
            return (v[0], 'digits do not form a valid w-NAF of the input', v[1], s)
        for r in eng.explore(run):
            npaths += 1
            if r[0] != 'proved':
                nbad.append((n, w, r))
    secs = time.time() - t0
    ck.absorb(eng)

    def replay_naf(sv, n, w, name):
        want = naf_ref(sv, n, w)
        src = '''package utils
import "testing"
func TestVerifReplay(t *testing.T) {
	out := make([]int, %d)
	DecomposeNAF(out, %s, %d, %d)
	want := []int{%s}
	sum := 0
	for i, d := range out {
		if d != want[i] { t.Fatalf("digit %%d = %%d, reference %%d (out=%%v)", i, d, want[i], out) }
		sum += d << uint(i)
	}
	// the same call with a longer digit buffer: positions n.. belong to the caller and the first n digits must not change
	long := make([]int, %d)
	DecomposeNAF(long, %s, %d, %d)
	for i := range long {
		if i < len(want) && long[i] != want[i] { t.Fatalf("longer buffer: digit %%d = %%d, reference %%d", i, long[i], want[i]) }
		if i >= len(want) && long[i] != 0 { t.Fatalf("longer buffer: position %%d beyond n-1 written (%%d)", i, long[i]) }
	}
}''' % (n, go_bytes(sv), n, w, ','.join(map(str, want)), n + 3, go_bytes(sv), n, w)
        return ck.go_test('utils', src, name=name)
    if nbad:
        cex = [b for b in nbad if b[2][0] == 'cex']
        if cex:
            n, w, r = cex[0]
            sv = model_bytes(r[2], r[3]) if r[2] is not None else [0] * ((n - 1) // 8)
            ok, out, path = replay_naf(sv, n, w, 'naf_small')
            if ok is False:
                ck.record('naf_small', 'violated', '%s for n=%d w=%d' % (r[1], n, w), sample=dict(s=hexs(sv), n=n, w=w))
                ck.violation('DecomposeNAF.small', r[1], path)
            else:
                ck.encoder_mismatch('naf_small', (out or '')[-300:])
        else:
            ck.record('naf_small', 'inconclusive', 'solver unknown')
    else:
        ck.record('naf_small', 'proved', '%d paths: digits zero or odd, |d|<2^w, w zeros after each non-zero digit, weighted sum == input' % npaths, ck.bounds[-1], secs)

    # ------------------------------------------------------------------ DecomposeNAF: full size by one-step induction
    # Invariant at the loop header (position i, carry c):  sum_{t<i} out[t] 2^t + c 2^i == s mod 2^i, digits valid so far,
    # out[t] untouched for t >= i.  One iteration from EVERY (i, c) with all 256 bits of s symbolic must re-establish it.
    eng = new_engine(prog)
    n = 257
    ws = list(range(1, 8)) if thorough else [4]
    positions = list(range(0, 256)) if thorough else list(range(0, 256))
    if not thorough:
        extra_ws = [(1, [0, 1, 7, 8, 100, 254, 255]), (2, [0, 7, 253, 254, 255]), (7, [0, 1, 6, 7, 8, 9, 120, 247, 248, 249, 250, 254, 255])]
    else:
        extra_ws = []
    ck.bounds.append('DecomposeNAF n=257 (256-bit input): one loop iteration from every (position, carry) for w in %s%s; all 32 input bytes symbolic' % (
        ws, '' if thorough else ' plus selected positions for w=1,2,7'))
    ck.outside.append('DecomposeNAF with n > 257 or n-1 not a multiple of 8')
    sbad = []
    nsteps = 0
    t0 = time.time()
    todo = [(w, i) for w in ws for i in positions] + [(w, i) for w, ps in extra_ws for i in ps]
    for (w, i) in todo:
        for c in (False, True):
            def run(e, w=w, i=i, c=c):
                s = sym_bytes(e, 's', 32)
                o = [e.fresh_bv('o%d' % t, 64) for t in range(n)]
                outo = e.new_obj(list(o), ('array', 'int', n))
                state = {'n': 0}

                def on_phi(e2, f, bi, prev, phis, newvals, env):
                    if f['name'] != NAF:
                        return None
                    byc = {ph['x'].get('comment'): k for k, ph in enumerate(phis)}
                    if 'outIdx' not in byc or 'carry' not in byc:
                        return None
                    if state['n'] >= 1 and bi != state['hdr']:
                        return None
                    state['n'] += 1
                    if state['n'] == 1:
                        state['hdr'] = bi
                        nv = list(newvals)
                        nv[byc['outIdx']] = (nv[byc['outIdx']][0], i)
                        nv[byc['carry']] = (nv[byc['carry']][0], c)
                        return nv
                    nxt = newvals[byc['outIdx']][1]
                    if isinstance(nxt, int) and nxt >= n - 1:
                        return None   # the loop condition fails now: run on to the function's end
                    raise CutReached((nxt, newvals[byc['carry']][1]))
                e.on_phi = on_phi
                S = bytes_to_bv(s)  # 256 bits
                cin = 1 if c else 0
                try:
                    out = e.call_outcome(NAF, [Slice(outo, (), 0, n, n), e.new_slice(s), n, w])
                    e.on_phi = None
                    if out.kind != 'return':
                        return ('cex', 'panic at position %d: %s' % (i, out.panic.msg), None, s)
                    # loop exited: i' >= n-1; out[n-1] is set to 1 iff carry
                    digs = e.heap[outo][0]
                    exited = True
                    i2 = None
                    c2 = None
                except CutReached as cr:
                    e.on_phi = None
                    digs = e.heap[outo][0]
                    exited = False
                    i2, c2 = cr.vals
                # which cells changed
                changed = [t for t in range(n) if not (is_sym(digs[t]) and digs[t].eq(o[t]))]
                conds = []
                d = tobv(digs[i], 64) if i in changed else None
                if exited:
                    # final step: infer carry-out from out[n-1]
                    top = digs[n - 1]
                    c2v = 1 if (n - 1) in changed else 0
                    if (n - 1) in changed and not (isinstance(top, int) and top == 1):
                        return ('cex', 'final carry digit is not 1', None, s)
                    others = [t for t in changed if t not in (i, n - 1)]
                    if others:
                        return ('cex', 'writes digits %s besides position %d' % (others, i), None, s)
                    if d is None:
                        # no digit: i+1 == n-1 must hold and 2c' - c == bit i
                        if i + 1 != n - 1:
                            return ('cex', 'loop left early at position %d' % i, None, s)
                        bit = z3.ZeroExt(63, z3.Extract(i, i, S))
                        conds.append(2 * c2v - cin == bit)
                    else:
                        width = min(w + 1, 256 - i)
                        win = z3.ZeroExt(64 - width, z3.Extract(i + width - 1, i, S))
                        # carry-out has weight 2^(n-1-i) relative to position i
                        if c2v:
                            if i + w + 1 != n - 1:
                                return ('cex', 'carry out of the top window at position %d lands on the wrong digit' % i, None, s)
                            conds.append(d + (1 << (w + 1)) - cin == win)
                        else:
                            conds.append(d - cin == win)
                        conds.append(z3.And(z3.Extract(0, 0, d) == 1, d < (1 << w), d > -(1 << w)))
                else:
                    others = [t for t in changed if t != i]
                    if others:
                        return ('cex', 'writes digits %s besides position %d' % (others, i), None, s)
                    if not isinstance(i2, int):
                        return ('unknown', 'symbolic next position', None, s)
                    c2v = z3.If(c2, z3.BitVecVal(1, 64), z3.BitVecVal(0, 64)) if is_sym(c2) else (1 if c2 else 0)
                    if d is None:
                        if i2 != i + 1:
                            return ('cex', 'zero digit but position advanced by %d' % (i2 - i), None, s)
                        bit = z3.ZeroExt(63, z3.Extract(i, i, S))
                        conds.append(2 * c2v - cin == bit)
                    else:
                        if i2 != i + w + 1:
                            return ('cex', 'non-zero digit but position advanced by %d (want w+1)' % (i2 - i), None, s)
                        win = z3.ZeroExt(64 - (w + 1), z3.Extract(i + w, i, S))
                        conds.append(d + c2v * (1 << (w + 1)) - cin == win)
                        conds.append(z3.And(z3.Extract(0, 0, d) == 1, d < (1 << w), d > -(1 << w)))
                v = e.prove(z3.And(*conds))
                return (v[0], 'one recoding step from position %d (carry %s) breaks the invariant' % (i, c), v[1], s)
            for r in eng.explore(run):
                nsteps += 1
                if r[0] != 'proved':
                    sbad.append((w, i, c, r))
    secs = time.time() - t0
    ck.absorb(eng)
    if sbad:
        cex = [b for b in sbad if b[3][0] == 'cex']
        if cex:
            w, i, c, r = cex[0]
            # a step counterexample starts from an invariant state; replay needs a full input: search concrete inputs
            # around the model (low bits free) with the reference recoding as oracle
            sv = model_bytes(r[2], r[3]) if r[2] is not None else [0] * 32
            found = None
            rng = ck.rng
            for attempt in range(400):
                cand = list(sv)
                if attempt:
                    # randomise the bits below position i (they only decide the carry), keep the window
                    lowbits = rng.getrandbits(max(1, i))
                    v = int.from_bytes(bytes(sv), 'big')
                    v = (v >> i << i) | (lowbits & ((1 << i) - 1))
                    cand = list(v.to_bytes(32, 'big'))
                ok, out, path = replay_naf(cand, n, w, 'naf_step')
                if ok is False:
                    found = (cand, path)
                    break
                if attempt >= 30:
                    break
            if found:
                ck.record('naf_step', 'violated', '%s (w=%d); %d failing (w,position,carry) cases' % (r[1], w, len(cex)), sample=dict(s=hexs(found[0]), w=w, position=i))
                ck.violation('DecomposeNAF.step', r[1], found[1])
            else:
                ck.record('naf_step', 'inconclusive', 'step counterexample at w=%d position=%d carry=%s could not be reproduced from a reachable state (invariant may be too weak): %s' % (w, i, c, r[1]))
        else:
            ck.record('naf_step', 'inconclusive', 'solver unknown on %d steps' % len(sbad))
    else:
        ck.record('naf_step', 'proved', '%d step paths over %d (w, position, carry) states: digit valid, only out[i] written, d + c\'*2^(w+1) - c == window bits' % (nsteps, 2 * len(todo)), ck.bounds[-1], secs,
                  sample=dict(obligation='naf_step', w=4, position=131, carry=True, claim='forall s in {0,1}^256: one iteration preserves sum(out[t]2^t)+c*2^i == s mod 2^i'))
    ck.assumptions.append('DecomposeNAF full size: induction over the loop with the stated invariant; the caller supplies an all-zero out slice (documented precondition)')

    # ------------------------------------------------------------------ engine validation on concrete traces
    eng = new_engine(prog)
    cases = []
    for k in range(30):
        w = ck.rng.randrange(1, 8)
        sv = [ck.rng.randrange(256) for _ in range(32)]
        if k % 5 == 0:
            sv = [0xff] * 32
        if k % 7 == 0:
            sv = [0] * 31 + [k]
        cases.append((sv, w))

    def run_val(e):
        res = []
        for sv, w in cases:
            outo = e.new_obj([0] * 257, ('array', 'int', 257))
            o = e.call_outcome(NAF, [Slice(outo, (), 0, 257, 257), e.new_slice(sv), 257, w])
            if o.kind != 'return':
                res.append(['panic', o.panic.msg])
                continue
            res.append([sint(x) for x in e.heap[outo][0]])
        a = [ck.rng.randrange(256) for _ in range(32)]
        b = list(a)
        b[20] ^= 1
        res.append(sint(e.call(CMP, [e.new_slice(a), e.new_slice(b), 32])))
        return res, a, b
    res, a, b = eng.explore(run_val)[0]
    ck.absorb(eng)
    rows = []
    panics = [(sv, w, digs[1]) for (sv, w), digs in zip(cases, res[:-1]) if digs and digs[0] == 'panic']
    if panics:
        sv, w, msg = panics[0]
        srcp = '''package utils
import "testing"
func TestVerifReplay(t *testing.T) {
	out := make([]int, 257)
	DecomposeNAF(out, %s, 257, %d)
}''' % (go_bytes(sv), w)
        okp, outp, pathp = ck.go_test('utils', srcp, name='naf_panic')
        if okp is False:
            ck.record('naf_panic', 'violated', 'DecomposeNAF panics for a 256-bit input with w=%d: %s' % (w, msg), sample=dict(w=w, s=hexs(sv)))
            ck.violation('DecomposeNAF.panic', 'DecomposeNAF panics for w=%d (%s)' % (w, msg), pathp)
        else:
            ck.encoder_mismatch('naf_panic', (outp or '')[-200:])
    cases = [c for c, digs in zip(cases, res[:-1]) if not (digs and digs[0] == 'panic')]
    res = [d for d in res[:-1] if not (d and d[0] == 'panic')] + [res[-1]]
    for (sv, w), digs in zip(cases, res[:-1]):
        rows.append('{%s, %d, []int{%s}},' % (go_bytes(sv), w, ','.join(map(str, digs))))
    src = '''package utils
import "testing"
func TestVerifReplay(t *testing.T) {
	cases := []struct{ s []byte; w int; want []int }{
%s
	}
	for i, c := range cases {
		out := make([]int, 257)
		DecomposeNAF(out, c.s, 257, c.w)
		for j := range out { if out[j] != c.want[j] { t.Fatalf("case %%d digit %%d: real %%d engine %%d", i, j, out[j], c.want[j]) } }
	}
	if ConstantTimeCmp(%s, %s, 32) != %d { t.Fatalf("cmp mismatch") }
}''' % ('\n'.join(rows), go_bytes(a), go_bytes(b), res[-1])
    ok, out, path = ck.go_test('utils', src, name='validate')
    if ok is True:
        ck.validated += len(cases) + 1
        # the engine's digits must also agree with the independent reference
        for (sv, w), digs in zip(cases, res[:-1]):
            if digs != naf_ref(sv, 257, w):
                ck.record('naf_reference', 'inconclusive', 'reference recoding and implementation differ on a concrete input w=%d s=%s' % (w, hexs(sv)))
                break
    else:
        ck.record('engine_validation', 'inconclusive', 'interpreter and real build disagree: ' + (out or '')[-300:])
    ck.finish()


if __name__ == '__main__':
    guarded_main('C20', main)
