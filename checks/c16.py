#!/usr/bin/env python3
# C16 - field arithmetic mod p and mod n agrees with the integers.  DESIGN.md section 3/C16 and 1.4.
import sys, os, time
sys.path.insert(0, os.path.join(os.path.dirname(os.path.abspath(__file__)), '..', 'engine'))
sys.path.insert(0, os.path.join(os.path.dirname(os.path.abspath(__file__)), '..', 'specs'))
import z3
from common import *
from gosym import *
from harness import *
import intmode
from intmode import IV, W, limbs_value, iv

FIAT = MOD + '/sm2/internal/fiat'
P = 0xFFFFFFFEFFFFFFFFFFFFFFFFFFFFFFFFFFFFFFFF00000000FFFFFFFFFFFFFFFF
N = 0xFFFFFFFEFFFFFFFFFFFFFFFFFFFFFFFF7203DF6B21C6052B53BBF40939D54123
R = 1 << 256
FIELDS = [('field', 'sm2', P, 'SM2Element'), ('scalar', 'sm2Scalar', N, 'SM2ScalarElement')]


class Exp:
    """x^e: stands for a field element in the addition-chain obligation"""

    def __init__(self, e):
        self.e = e


def main():
    ck = Check('C16')
    prog = dump_ssa('c16')
    thorough = ck.tier == 'thorough'
    t00 = time.time()
    ck.assumptions += ['limb distributivity: (sum a_i 2^64i)(sum b_j 2^64j) = sum a_i b_j 2^(64(i+j)), with each word product a_i*b_j one integer shared by implementation and specification',
                       'monotonicity: a < m and b < m imply a*b <= (m-1)^2 (used only for the canonical-result claim)',
                       'Fermat: x^(m-2) is the inverse of x modulo the prime m, and 0 for x = 0']
    ck.outside.append('divstep-based inversion (sm2Inv / sm2Divstep) is not used by the library wrappers and is not covered')

    def solver(im, extra=()):
        s = z3.Solver()
        s.set('timeout', 120000)
        for c in im.eqs + im.ranges:
            s.add(c)
        for c in extra:
            s.add(c)
        return s

    def check(s, claim, name, detail):
        t0 = time.time()
        r = s.check(z3.Not(claim))
        ck.queries += 1
        ck.solver_s += time.time() - t0
        if r == z3.unsat:
            return True
        if r == z3.sat:
            m = s.model()
            return ('cex', m)
        return ('unknown', None)

    results = []
    forced = []     # (field, a, b): canonical values whose Montgomery forms are the limb vectors of a solver counterexample

    def record(name, ok, detail, replay_info=None):
        results.append((name, ok, detail, replay_info))

    # ------------------------------------------------------------ integer-mode obligations on the Montgomery code
    for fname, pre, M, T in FIELDS:
        limbs_m = [(M >> (64 * i)) & (W - 1) for i in range(4)]
        for op in ('Mul', 'Square', 'ToMontgomery', 'FromMontgomery', 'Add', 'Sub', 'Opp'):
            eng = new_engine(prog)
            res = {}

            def run(e, op=op, pre=pre, M=M):
                im = intmode.IntMode(e)
                e.intercepts[FIAT + '.%sCmovznzU64' % pre] = lambda e2, a, ins: e2.store(a[0], im.select(a[1], a[2], a[3]))
                A = [im.word('a%d' % i) for i in range(4)]
                B = [im.word('b%d' % i) for i in range(4)]
                oa, ob, oo = e.new_obj(list(A), 'arr'), e.new_obj(list(B), 'arr'), e.new_obj([0] * 4, 'arr')
                args = [Ptr(oo, ()), Ptr(oa, ())] + ([Ptr(ob, ())] if op in ('Mul', 'Add', 'Sub') else [])
                out = e.call_outcome(FIAT + '.%s%s' % (pre, op), args)
                if out.kind != 'return':
                    res['err'] = 'panic: ' + out.panic.msg
                    return
                O = [iv(x) for x in e.heap[oo][0]]
                Av, Bv, Ov = limbs_value(A), limbs_value(B), limbs_value(O)
                if im.obligations:
                    res['err'] = im.obligations[0][0]
                    return
                pre_a = [Av < M] + ([Bv < M] if op in ('Mul', 'Add', 'Sub') else [])
                if op in ('Mul', 'Square'):
                    Bl = B if op == 'Mul' else A
                    Tt = 0
                    for i in range(4):
                        for j in range(4):
                            Pij = im.product(A[i], Bl[j])
                            if Pij is None:
                                res['err'] = 'word product a%d*b%d is never computed by the code' % (i, j)
                                return
                            Tt = Tt + Pij * (1 << (64 * (i + j)))
                    pre_a.append(Tt <= (M - 1) * (M - 1))
                elif op == 'ToMontgomery':
                    Tt = Av * (R * R % M)
                elif op == 'FromMontgomery':
                    Tt = Av
                if op in ('Mul', 'Square', 'ToMontgomery', 'FromMontgomery'):
                    qs = []
                    for x, c in im.mulconst:
                        if c in limbs_m and not any(x.t.eq(q.t) for q in qs):
                            qs.append(x)
                    if len(qs) != 4:
                        res['err'] = 'expected 4 Montgomery multipliers, found %d' % len(qs)
                        return
                    Q = sum(q.t * (1 << (64 * i)) for i, q in enumerate(qs))
                    s = solver(im)
                    # out*R == T + Q*m, up to the final conditional subtraction of m
                    res['cong'] = check(s, z3.Or(Ov * R == Tt + Q * M, Ov * R == Tt + Q * M - M * R), op, '')
                    s = solver(im, pre_a)
                    res['canon'] = check(s, Ov < M, op, '')
                else:
                    s = solver(im, pre_a)
                    want = {'Add': Av + Bv, 'Sub': Av - Bv, 'Opp': -Av}[op]
                    res['cong'] = check(s, z3.Or(Ov == want, Ov == want - M, Ov == want + M), op, '')
                    res['canon'] = check(s, z3.And(Ov < M, Ov >= 0), op, '')
                res['stats'] = (len(im.eqs), im.lemmas)
                # a counterexample is a pair of Montgomery-domain limb vectors: keep it for the replay
                for k in ('cong', 'canon'):
                    if isinstance(res.get(k), tuple) and res[k][0] == 'cex':
                        mdl = res[k][1]
                        val = lambda L: sum((mdl.eval(x.t, model_completion=True).as_long() if not isinstance(x.t, int) else x.t) << (64 * i) for i, x in enumerate(L))
                        res.setdefault('wit', []).append((val(A), val(B)))
            eng.explore(run)
            ck.absorb(eng)
            name = '%s.%s' % (fname, op)
            if 'err' in res:
                record(name, False, res['err'], (fname, op))
            elif res.get('cong') is True and res.get('canon') is True:
                record(name, True, 'out*2^256 == a*b + q*m (resp. exact for Add/Sub/Opp) and out < m; %d word equations, %d discarded-sum lemmas' % res['stats'])
            else:
                bad = [k for k in ('cong', 'canon') if res.get(k) is not True]
                kind = 'cex' if any(isinstance(res.get(k), tuple) and res[k][0] == 'cex' for k in bad) else 'unknown'
                record(name, kind, 'claims %s not proved (%s)' % (bad, kind), (fname, op))
                for av, bv in res.get('wit', []):
                    Rinv = pow(R, -1, M)
                    forced.append((fname, av % M * Rinv % M, bv % M * Rinv % M))

    # ------------------------------------------------------------ bit-vector obligations: selection, byte conversion, decode checks
    eng = new_engine(prog, timeout_ms=60000)

    def run_bv(e):
        res = []
        for fname, pre, M, T in FIELDS:
            # Selectznz / CmovznzU64: exact for every mask value
            a = [e.fresh_bv('a%d' % i, 64) for i in range(4)]
            b = [e.fresh_bv('b%d' % i, 64) for i in range(4)]
            c = e.fresh_bv('c', 64)
            oa, ob, oo = e.new_obj(list(a), 'arr'), e.new_obj(list(b), 'arr'), e.new_obj([0] * 4, 'arr')
            e.assume(z3.ULE(c, 1))
            e.call(FIAT + '.%sSelectznz' % pre, [Ptr(oo, ()), c, Ptr(oa, ()), Ptr(ob, ())])
            o = e.heap[oo][0]
            v = e.prove(z3.And(*[tobv(o[i], 64) == z3.If(c == 0, a[i], b[i]) for i in range(4)]))
            res.append(('%s.Selectznz' % fname, v[0]))
            # ToBytes / FromBytes: little-endian, round trip
            ob32 = e.new_obj([0] * 32, 'arr')
            e.call(FIAT + '.%sToBytes' % pre, [Ptr(ob32, ()), Ptr(oa, ())])
            bs = e.heap[ob32][0]
            want = []
            for i in range(4):
                want += [z3.Extract(8 * k + 7, 8 * k, a[i]) for k in range(8)]
            v = e.prove(z3.And(*[tobv(g, 8) == w for g, w in zip(bs, want)]))
            res.append(('%s.ToBytes' % fname, v[0]))
            by = sym_bytes(e, 'y', 32)
            oby = e.new_obj(list(by), 'arr')
            ol = e.new_obj([0] * 4, 'arr')
            e.call(FIAT + '.%sFromBytes' % pre, [Ptr(ol, ()), Ptr(oby, ())])
            lw = e.heap[ol][0]
            v = e.prove(z3.And(*[tobv(lw[i], 64) == z3.Concat(*[by[8 * i + k] for k in range(7, -1, -1)]) for i in range(4)]))
            res.append(('%s.FromBytes' % fname, v[0]))
        return res
    for name, v in eng.explore(run_bv)[0]:
        record(name, True if v == 'proved' else v, 'exact for all inputs (bit-vector query)')
    ck.absorb(eng)

    # SetBytes: rejects exactly the encodings >= m and wrong lengths; the accepted value reaches the Montgomery conversion unchanged
    from sm2lib import setbytes_obligation
    for fname, pre, M, T in FIELDS:
        ok, detail, wit = setbytes_obligation(prog, ck, T, M, pre)
        record('%s.SetBytes' % fname, ok, detail, (fname, 'SetBytes'))

    # the exported wrapper methods: each is one call of the generated leaf with the operands in the right places (leaves
    # replaced by recorders), Set copies the limbs, Select is executed on the real selectznz with arbitrary limbs
    from sm2lib import equality_obligation
    for fname, pre, M, T in FIELDS:
        eng = new_engine(prog, timeout_ms=60000)
        calls = []

        def mk_rec(leaf):
            def rec(e, a, ins):
                calls.append((leaf, [(x.obj, x.path) if isinstance(x, Ptr) else x for x in a]))
                e.store(a[0], [e.fresh_bv('leaf_out%d_%d' % (len(calls), k), 64) for k in range(4)])
                return None
            return rec
        eng.init_globals()       # package initialisers run on the real leaves; the recorders are installed afterwards
        for leaf in ('Add', 'Sub', 'Mul', 'Square', 'Opp', 'SetOne'):
            eng.intercepts[FIAT + '.%s%s' % (pre, leaf)] = mk_rec(leaf)
        wbad = []

        def run_wr(e, pre=pre, T=T):
            def elem(nm):
                limbs = [e.fresh_bv('%s%d' % (nm, k), 64) for k in range(4)]
                return e.new_obj([list(limbs)], FIAT + '.' + T), limbs
            for meth, leaf, nargs in (('Add', 'Add', 2), ('Sub', 'Sub', 2), ('Mul', 'Mul', 2), ('Square', 'Square', 1), ('Opp', 'Opp', 1), ('One', 'SetOne', 0)):
                fn = '(*%s.%s).%s' % (FIAT, T, meth)
                if fn not in e.prog.funcs:
                    continue
                (oe, _), (o1, _), (o2, _) = elem('e'), elem('s'), elem('t')
                del calls[:]
                out = e.call_outcome(fn, [Ptr(oe, ())] + [Ptr(o1, ()), Ptr(o2, ())][:nargs])
                want = [(oe, (0,))] + [(o1, (0,)), (o2, (0,))][:nargs]
                rv = out.values[0] if isinstance(out.values, (list, tuple)) else out.values
                if out.kind != 'return' or len(calls) != 1 or calls[0][0] != leaf or calls[0][1] != want or not (isinstance(rv, Ptr) and rv.obj == oe and rv.path == ()):
                    wbad.append('%s is not one call %s%s(&e.x%s) returning e' % (meth, pre, leaf, ', &t1.x, &t2.x'[:nargs * 7]))
            # Set
            (oe, _), (o1, l1) = elem('e'), elem('s')
            out = e.call_outcome('(*%s.%s).Set' % (FIAT, T), [Ptr(oe, ()), Ptr(o1, ())])
            if out.kind != 'return' or not all(a is b or (not isinstance(a, int) and a.eq(b)) for a, b in zip(e.heap[oe][0][0], l1)) or not all(a is b or a.eq(b) for a, b in zip(e.heap[o1][0][0], l1)):
                wbad.append('Set does not copy the limbs of its argument')
            # Select on the real selectznz
            for cond in (1, 0):
                (oe, _), (oa, la), (ob, lb) = elem('e'), elem('a'), elem('b')
                out = e.call_outcome('(*%s.%s).Select' % (FIAT, T), [Ptr(oe, ()), Ptr(oa, ()), Ptr(ob, ()), cond])
                if out.kind != 'return':
                    wbad.append('Select panics')
                    continue
                got = e.heap[oe][0][0]
                wantl = la if cond == 1 else lb
                pr = e.prove(z3.And(*[tobv(g, 64) == w for g, w in zip(got, wantl)]))
                if pr[0] != 'proved':
                    wbad.append('Select(a, b, %d) does not return %s' % (cond, 'a' if cond == 1 else 'b') if pr[0] == 'cex' else 'Select: solver unknown')
        eng.explore(run_wr)
        ck.absorb(eng)
        # the constant behind One(): the Montgomery form of 1, i.e. 2^256 mod m (real SetOne, concrete run)
        eng1 = new_engine(prog, timeout_ms=60000)

        def run_one(e, pre=pre, T=T, M=M):
            o = e.new_obj([[0, 0, 0, 0]], FIAT + '.' + T)
            out = e.call_outcome(FIAT + '.%sSetOne' % pre, [Ptr(o, (0,))])
            limbs = [force(x) for x in e.heap[o][0][0]]
            if out.kind != 'return' or not all(isinstance(x, int) for x in limbs) or sum(x << (64 * i) for i, x in enumerate(limbs)) != (1 << 256) % M:
                wbad.append('SetOne does not store 2^256 mod m')
        eng1.explore(run_one)
        ck.absorb(eng1)
        record('%s.wrappers' % fname, True if not wbad else 'cex', 'Add/Sub/Mul/Square/Opp/One are one call of the generated leaf on (&e.x, &t1.x, &t2.x) and return the receiver; Set copies the limbs; Select(a,b,1)=a, Select(a,b,0)=b for all limbs; SetOne stores 2^256 mod m' if not wbad else '; '.join(sorted(set(wbad))), (fname, 'wrappers'))
        # ToBigInt: the integer whose 32-byte big-endian encoding Bytes() returns (Bytes() = arbitrary canonical encoding)
        from sm2lib import int_input
        engb = new_engine(prog, timeout_ms=60000)
        engb.use_linear_abstraction()
        curb = {}

        def fake_bytes_b(e, a, ins):
            return e.new_slice([0] * 32) if getattr(e, 'in_init', False) else e.new_slice(list(curb['cells']))
        engb.intercepts['(*%s.%s).Bytes' % (FIAT, T)] = fake_bytes_b

        def run_tb(e, T=T, M=M):
            v, sl = int_input(e, 'v', 32, 0, M - 1)
            curb['cells'] = e.slice_list(sl)
            o = e.new_obj([[0, 0, 0, 0]], FIAT + '.' + T)
            out = e.call_outcome('(*%s.%s).ToBigInt' % (FIAT, T), [Ptr(o, ())])
            if out.kind != 'return':
                return 'cex'
            rv = out.values[0] if isinstance(out.values, (list, tuple)) else out.values
            xv = models.bigval(e, rv).v
            return e.prove_i(xv == v)[0]
        tb = engb.explore(run_tb)
        ck.absorb(engb)
        record('%s.ToBigInt' % fname, True if all(x == 'proved' for x in tb) else ('cex' if 'cex' in tb else 'unknown'),
               'ToBigInt = the integer with big-endian encoding Bytes() for every canonical encoding' if all(x == 'proved' for x in tb) else 'ToBigInt is not the integer value of Bytes()', (fname, 'ToBigInt'))
        oke, edetail, ewit = equality_obligation(prog, ck, T, M)
        record('%s.Equal' % fname, True if oke is True else oke, edetail, (fname, 'Equal'))
        if ewit is not None:
            forced.append((fname, int.from_bytes(bytes(ewit[0]), 'big'), int.from_bytes(bytes(ewit[1]), 'big')))

    # MultiSelect: masked selection over a table, all table contents / widths up to the bound
    eng = new_engine(prog, timeout_ms=60000 if not thorough else 600000)
    widths = [1, 15, 63] if not thorough else [1, 2, 15, 16, 31, 63, 64, 127]
    msbad = []
    for width in widths:
        def run_ms(e, width=width):
            tab = []
            ptrs = []
            for i in range(width):
                limbs = [e.fresh_bv('t%d_%d' % (i, k), 64) for k in range(4)]
                tab.append(limbs)
                ptrs.append(Ptr(e.new_obj(list(limbs), '[4]uint64'), ()))
            sl = e.new_slice(ptrs)
            slp = Ptr(e.new_obj(sl, '[]*[4]uint64'), ())
            bits = e.fresh_bv('bits', 8)
            fb = [e.fresh_bv('fb%d' % k, 64) for k in range(4)]
            fbo = e.new_obj([list(fb)], FIAT + '.SM2Element')
            vo = e.new_obj([[0, 0, 0, 0]], FIAT + '.SM2Element')
            cond = e.fresh_bv('cond', 64)
            e.assume(z3.Or(cond == 0, cond == 1))
            # callers pass fallbackCond = 1 - (bits == 0)
            e.assume((cond == 0) == (bits == 0))
            out = e.call_outcome('(*%s.SM2Element).MultiSelect' % FIAT, [Ptr(vo, ()), slp, width, bits, Ptr(fbo, ()), cond])
            if out.kind != 'return':
                return ('cex', out.panic.msg)
            got = e.heap[vo][0][0]
            conds = []
            for k in range(4):
                want = fb[k]
                # bits == 0: fallback; 1 <= bits <= width: table[bits-1]; larger: nothing selected (zero)
                expr = z3.BitVecVal(0, 64)
                for i in range(width):
                    expr = z3.If(bits == i + 1, tab[i][k], expr)
                expr = z3.If(bits == 0, fb[k], expr)
                conds.append(tobv(got[k], 64) == expr)
            r = e.prove(z3.And(*conds))
            return (r[0], 'width %d' % width)
        for r in eng.explore(run_ms):
            if r[0] != 'proved':
                msbad.append(r)
    ck.absorb(eng)
    record('MultiSelect', True if not msbad else ('cex' if any(b[0] == 'cex' for b in msbad) else 'unknown'),
           'for widths %s and all table contents: result = fallback if bits = 0, table[bits-1] if bits <= width, never a mix' % widths if not msbad else str(msbad[:2]), ('field', 'MultiSelect'))

    # ------------------------------------------------------------ inversion: the addition chains raise to exactly m - 2
    for fname, pre, M, T in FIELDS:
        eng = new_engine(prog)

        def mul_model(e, a, ins):
            x, y = e.load(a[1])[0], e.load(a[2])[0]
            e.store(a[0], [Exp(x.e + y.e), 0, 0, 0])

        def sq_model(e, a, ins):
            x = e.load(a[1])[0]
            e.store(a[0], [Exp(2 * x.e), 0, 0, 0])
        eng.intercepts[FIAT + '.%sMul' % pre] = mul_model
        eng.intercepts[FIAT + '.%sSquare' % pre] = sq_model
        eng.copyval_orig = eng.copyval

        def run_inv(e, pre=pre):
            xo = e.new_obj([Exp(1), 0, 0, 0], 'arr')
            zo = e.new_obj([0, 0, 0, 0], 'arr')
            fn = FIAT + '.%sFermatInvert_FiatAC' % pre
            out = e.call_outcome(fn, [Ptr(zo, ()), Ptr(xo, ())])
            if out.kind != 'return':
                return None
            z = e.heap[zo][0][0]
            return z.e if isinstance(z, Exp) else None
        ex = eng.explore(run_inv)[0]
        ck.absorb(eng)
        # the comparison with m-2 is itself a (ground) solver query for uniformity of evidence
        s = z3.Solver()
        ok = ex is not None and s.check(z3.IntVal(ex) != z3.IntVal(M - 2)) == z3.unsat
        ck.queries += 1
        record('%s.Invert' % fname, True if ok else 'cex', 'the fixed addition chain computes x^(m-2) (exponent tracked through %s squarings/multiplications of the real chain code)' % ('all') if ok else 'addition chain raises to %s, not m-2' % (hex(ex) if ex else ex), (fname, 'Invert'))
    secs = time.time() - t00
    ck.bounds.append('all 4x64-bit limb values (integer mode, no bit-width reduction) for Mul/Square/To/FromMontgomery/Add/Sub/Opp of both fields; bit-vector queries over all inputs for Selectznz/ToBytes/FromBytes/SetBytes; MultiSelect widths %s; addition chains executed completely' % widths)

    # ------------------------------------------------------------ replay + validation on the real build (carry-critical limb patterns)
    rng = ck.rng
    pats = [0, 1, 2 ** 32 - 1, 2 ** 32, 2 ** 63, 2 ** 64 - 1]

    def rnd_elem(M):
        while True:
            v = sum(rng.choice(pats + [rng.getrandbits(64)]) << (64 * i) for i in range(4))
            if v < M:
                return v
    rows = []
    for fname, pre, M, T in FIELDS:
        mine = [(a, b) for f, a, b in forced if f == fname]
        mine += [(b, a) for a, b in mine]
        # results at the edges of the final conditional subtraction: operands solved (division, square root; m = 3 mod 4) so that
        # the Montgomery-domain result of Mul / Square is m - d for small d, a value around a limb boundary, or 0/1
        Rm = pow(2, 256, M)
        edge = [M - d for d in range(1, 65)] + [0, 1, 2] + [(1 << (64 * k)) + dd for k in (1, 2, 3) for dd in (-2, -1, 0, 1)] + [(M - (1 << (64 * k))) % M for k in (1, 2, 3)]
        for tm in edge:
            v = tm * pow(Rm, -1, M) % M              # canonical value whose Montgomery form is tm
            a0 = rnd_elem(M) or 1
            mine.append((a0, v * pow(a0, -1, M) % M))        # Mul(a0, b) has Montgomery form tm
            rt = pow(v, (M + 1) // 4, M)
            if rt * rt % M == v:
                mine.append((rt, rnd_elem(M)))               # Square(rt) has Montgomery form tm
                mine.append(((M - rt) % M, rt))
        for _ in range(24 + len(mine)):
            a, b = rnd_elem(M), rnd_elem(M)
            if _ == 0:
                a, b = M - 1, M - 1
            if _ == 1:
                a, b = 0, M - 1
            if _ >= 24:
                a, b = mine[_ - 24]
            rows.append('{%d, %s, %s, %s, %s, %s, %s, %s},' % (0 if fname == 'field' else 1, go_bytes(list(a.to_bytes(32, 'big'))), go_bytes(list(b.to_bytes(32, 'big'))),
                        go_bytes(list(((a * b) % M).to_bytes(32, 'big'))), go_bytes(list(((a + b) % M).to_bytes(32, 'big'))), go_bytes(list(((a - b) % M).to_bytes(32, 'big'))),
                        go_bytes(list((pow(a, -1, M) if a else 0).to_bytes(32, 'big'))), go_bytes(list(((a * a) % M).to_bytes(32, 'big')))))
    src = '''package fiat
import ("testing"; "bytes"; "math/big")
func verifCanon(x [4]uint64, m [4]uint64) bool { for i := 3; i >= 0; i-- { if x[i] < m[i] { return true }; if x[i] > m[i] { return false } }; return false }
func TestVerifReplay(t *testing.T) {
	pl, nl := [4]uint64{%s}, [4]uint64{%s}
	cases := []struct{ f int; a, b, mul, add, sub, inv, sq []byte }{
%s
	}
	for i, c := range cases {
		if c.f == 0 {
			a, e1 := new(SM2Element).SetBytes(c.a); b, e2 := new(SM2Element).SetBytes(c.b)
			if e1 != nil || e2 != nil { t.Fatalf("case %%d: canonical value rejected", i) }
			if !bytes.Equal(new(SM2Element).Mul(a, b).Bytes(), c.mul) { t.Fatalf("case %%d: field Mul", i) }
			if !bytes.Equal(new(SM2Element).Add(a, b).Bytes(), c.add) { t.Fatalf("case %%d: field Add", i) }
			if !bytes.Equal(new(SM2Element).Sub(a, b).Bytes(), c.sub) { t.Fatalf("case %%d: field Sub", i) }
			if !bytes.Equal(new(SM2Element).Square(a).Bytes(), c.sq) { t.Fatalf("case %%d: field Square", i) }
			if !bytes.Equal(new(SM2Element).Invert(a).Bytes(), c.inv) { t.Fatalf("case %%d: field Invert", i) }
			if !bytes.Equal(new(SM2Element).Opp(a).Bytes(), new(SM2Element).Sub(new(SM2Element), a).Bytes()) { t.Fatalf("case %%d: Opp", i) }
			if !bytes.Equal(new(SM2Element).Select(a, b, 1).Bytes(), c.a) || !bytes.Equal(new(SM2Element).Select(a, b, 0).Bytes(), c.b) { t.Fatalf("case %%d: Select", i) }
			// results must be canonical Montgomery limbs (Bytes() reduces and would hide a value in [p, 2^256))
			for j, r := range []*SM2Element{new(SM2Element).Mul(a, b), new(SM2Element).Add(a, b), new(SM2Element).Sub(a, b), new(SM2Element).Square(a), new(SM2Element).Opp(a), new(SM2Element).Add(b, a)} {
				if !verifCanon([4]uint64(r.x), pl) { t.Fatalf("case %%d: field result %%d is not reduced below p", i, j) }
			}
			if !bytes.Equal(new(SM2Element).Opp(new(SM2Element).Add(a, b)).Bytes(), new(SM2Element).Sub(new(SM2Element), new(SM2Element).Add(a, b)).Bytes()) { t.Fatalf("case %%d: -(a+b)", i) }
			eq := 0; if bytes.Equal(c.a, c.b) { eq = 1 }
			if a.Equal(b) != eq || b.Equal(a) != eq || a.Equal(a) != 1 { t.Fatalf("case %%d: field Equal", i) }
			za := 0; if bytes.Equal(c.a, make([]byte, 32)) { za = 1 }
			if a.IsZero() != za { t.Fatalf("case %%d: field IsZero", i) }
			if !bytes.Equal(new(SM2Element).Set(a).Bytes(), c.a) { t.Fatalf("case %%d: field Set", i) }
			if a.ToBigInt().Cmp(new(big.Int).SetBytes(c.a)) != 0 { t.Fatalf("case %%d: field ToBigInt", i) }
			if !bytes.Equal(new(SM2Element).Mul(new(SM2Element).One(), a).Bytes(), c.a) { t.Fatalf("case %%d: field One", i) }
		} else {
			a, e1 := new(SM2ScalarElement).SetBytes(c.a); b, e2 := new(SM2ScalarElement).SetBytes(c.b)
			if e1 != nil || e2 != nil { t.Fatalf("case %%d: canonical value rejected", i) }
			if !bytes.Equal(new(SM2ScalarElement).Mul(a, b).Bytes(), c.mul) { t.Fatalf("case %%d: scalar Mul", i) }
			if !bytes.Equal(new(SM2ScalarElement).Add(a, b).Bytes(), c.add) { t.Fatalf("case %%d: scalar Add", i) }
			if !bytes.Equal(new(SM2ScalarElement).Sub(a, b).Bytes(), c.sub) { t.Fatalf("case %%d: scalar Sub", i) }
			if !bytes.Equal(new(SM2ScalarElement).Square(a).Bytes(), c.sq) { t.Fatalf("case %%d: scalar Square", i) }
			if !bytes.Equal(new(SM2ScalarElement).Invert(a).Bytes(), c.inv) { t.Fatalf("case %%d: scalar Invert", i) }
			for j, r := range []*SM2ScalarElement{new(SM2ScalarElement).Mul(a, b), new(SM2ScalarElement).Add(a, b), new(SM2ScalarElement).Sub(a, b), new(SM2ScalarElement).Square(a), new(SM2ScalarElement).Add(b, a)} {
				if !verifCanon([4]uint64(r.x), nl) { t.Fatalf("case %%d: scalar result %%d is not reduced below n", i, j) }
			}
			if !bytes.Equal(new(SM2ScalarElement).Select(a, b, 1).Bytes(), c.a) || !bytes.Equal(new(SM2ScalarElement).Select(a, b, 0).Bytes(), c.b) { t.Fatalf("case %%d: scalar Select", i) }
			eq := 0; if bytes.Equal(c.a, c.b) { eq = 1 }
			if a.Equal(b) != eq || b.Equal(a) != eq || a.Equal(a) != 1 { t.Fatalf("case %%d: scalar Equal", i) }
			za := 0; if bytes.Equal(c.a, make([]byte, 32)) { za = 1 }
			if a.IsZero() != za { t.Fatalf("case %%d: scalar IsZero", i) }
			if !bytes.Equal(new(SM2ScalarElement).Set(a).Bytes(), c.a) { t.Fatalf("case %%d: scalar Set", i) }
			if a.ToBigInt().Cmp(new(big.Int).SetBytes(c.a)) != 0 { t.Fatalf("case %%d: scalar ToBigInt", i) }
			if !bytes.Equal(new(SM2ScalarElement).Mul(new(SM2ScalarElement).One(), a).Bytes(), c.a) { t.Fatalf("case %%d: scalar One", i) }
		}
	}
	pm := %s
	if _, err := new(SM2Element).SetBytes(pm); err == nil { t.Fatalf("p accepted as field element") }
	nm := %s
	if _, err := new(SM2ScalarElement).SetBytes(nm); err == nil { t.Fatalf("n accepted as scalar") }
	if _, err := new(SM2Element).SetBytes(pm[:31]); err == nil { t.Fatalf("31-byte encoding accepted") }
}''' % (', '.join('0x%x' % ((P >> (64 * i)) & (W - 1)) for i in range(4)), ', '.join('0x%x' % ((N >> (64 * i)) & (W - 1)) for i in range(4)), '\n'.join(rows), go_bytes(list(P.to_bytes(32, 'big'))), go_bytes(list(N.to_bytes(32, 'big'))))
    okr, outr, pathr = ck.go_test('sm2/internal/fiat', src, name='field_vectors')
    if okr is True:
        ck.validated += len(rows)
    anybad = False
    for name, ok, detail, info in results:
        if ok is True:
            ck.record(name, 'proved', detail, secs=0)
        else:
            anybad = True
            if okr is False:
                ck.record(name, 'violated', detail + ' - the real build disagrees with integer arithmetic on carry-critical vectors: ' + (outr or '')[-160:].replace('\n', ' '))
                ck.violation(name, detail, pathr)
            else:
                ck.record(name, 'inconclusive', detail + (' (solver unknown)' if ok == 'unknown' else ' - symbolic counterexample not reproduced by the carry-critical vectors on the real build'))
    if okr is False and not anybad:
        ck.record('reference_vectors', 'violated', 'real build disagrees with integer arithmetic: ' + (outr or '')[-200:].replace('\n', ' '))
        ck.violation('field-vectors', 'field/scalar arithmetic disagrees with the integers on carry-critical vectors', pathr)
    ck.samples.insert(0, dict(obligation='field.Mul', claim='forall a,b in [0,2^64)^4: out*2^256 == sum a_i b_j 2^(64(i+j)) + q*p and (a,b<p => out<p)'))
    ck.finish()


if __name__ == '__main__':
    guarded_main('C16', main)
