#!/usr/bin/env python3
# C17 - shared cipher, AEAD and key material are safe for concurrent use.  DESIGN.md section 3/C17.
# The solver-side content is the frame condition (write sets); interleavings themselves are not enumerated.
import time, os, re
from sm4lib import *
import sm2model, models
import sm2 as ref

SM2 = MOD + '/sm2'
SM3 = MOD + '/sm3'


LABEL_PREFIX = ['']


def main():
    ck = Check('C17', level='other')
    L = load_listing()
    prog = dump_ssa('c17')
    thorough = ck.tier == 'thorough'
    findings = []
    nops = 0
    t0 = time.time()

    def audit(e, label, shared, inputs, allowed):
        """after an operation: which pre-existing objects were written?"""
        nonlocal nops
        nops += 1
        label = LABEL_PREFIX[0] + label
        log = set(e.store_log)
        e.store_log.clear()
        init_limit = e.global_snapshot[2]
        for obj in sorted(log):
            if obj in allowed:
                continue
            if obj < init_limit:
                findings.append((label, 'package-level', 'writes to package-level state (heap object %d created by a package initialiser: %s)' % (obj, str(e.heap[obj][1])[:60])))
            elif obj in shared:
                findings.append((label, 'shared-object', 'writes to the shared %s' % shared[obj]))
            elif obj in inputs:
                findings.append((label, 'input:' + inputs[obj], 'writes to its %s argument' % inputs[obj]))

    # ------------------------------------------------------------ SM4 block ciphers and the AEAD (Go glue + assembly)
    import arm64lib, arm64sym
    try:
        a64 = arm64lib.Env('c17')
        arm64lib.note(ck)
    except RuntimeError as ex:
        a64 = None
        ck.record('arm64', 'inconclusive', 'arm64 part not completed: %s' % str(ex)[:200])
    for arch, cando in (('amd64', True), ('amd64', False)) + ((('arm64', True),) if a64 is not None else ()):
        if arch == 'arm64':
            eng = a64.engine()
        else:
            eng = new_engine(prog, cando_asm=cando)
            asmbridge.install(eng, L)
        LABEL_PREFIX[0] = 'arm64 ' if arch == 'arm64' else ''
        eng.asm_branch_oracle = lambda e, fn, pc, cond: False

        def run(e, cando=cando):
            e.store_log = set()
            key = e.new_slice(list(STD_KEY))
            blk, _ = e.call(SM4 + '.NewCipher', [key])
            audit(e, 'NewCipher(%s)' % ('asm' if cando else 'generic'), {}, {key.obj: 'key'}, {blk.v.obj})
            shared = {blk.v.obj: 'cipher.Block'}
            T = blk.t[1:]
            src, dst = e.new_slice([3] * 16), e.new_slice([0] * 16)
            for meth in ('Encrypt', 'Decrypt'):
                e.call('(*%s).%s' % (T, meth), [blk.v, dst, src])
                audit(e, '%s.%s' % (T.split('.')[-1], meth), shared, {src.obj: 'src', key.obj: 'key'}, {dst.obj})
            if cando:
                for ns, ts in (((12, 16), (13, 12), (130, 16)) if not thorough else ((12, 16), (13, 12), (1, 15), (16, 16), (130, 13), (300, 16))):
                    aead, _ = e.call('(*%s.sm4CipherAsm).NewGCM' % SM4, [blk.v, ns, ts])
                    audit(e, 'NewGCM(%d,%d)' % (ns, ts), shared, {}, {aead.v.obj})
                    sh2 = dict(shared)
                    sh2[aead.v.obj] = 'cipher.AEAD'
                    for pl in ((0, 17, 64, 300) if not thorough else (0, 1, 15, 16, 17, 33, 64, 65, 129, 300, 1100)):
                        if ns != 12 and pl not in (0, 17, 300):
                            continue
                        nonce, pt, aad = e.new_slice([(7 * i + 1) & 255 for i in range(ns)]), e.new_slice([5] * pl) if pl else e.new_slice([]), e.new_slice([1, 2, 3] if pl != 17 else list(range(21)))
                        out = e.call('(*%s.sm4GcmAsm).Seal' % SM4, [aead.v, NILSLICE, nonce, pt, aad])
                        audit(e, 'Seal(%d;nonce %d,tag %d)' % (pl, ns, ts), sh2, {nonce.obj: 'nonce', pt.obj: 'plaintext', aad.obj: 'additional data', key.obj: 'key'}, {out.obj})
                        ct = e.new_slice(e.slice_list(out))
                        p2, err = e.call('(*%s.sm4GcmAsm).Open' % SM4, [aead.v, NILSLICE, nonce, ct, aad])
                        audit(e, 'Open(%d;nonce %d,tag %d)' % (pl, ns, ts), sh2, {nonce.obj: 'nonce', ct.obj: 'ciphertext', aad.obj: 'additional data', key.obj: 'key'}, {p2.obj} if p2.obj else set())
        eng.explore(run)
        ck.absorb(eng)

    LABEL_PREFIX[0] = ''
    # ------------------------------------------------------------ SM2 entry points and SM3 (protocol level with contracts + real helpers)
    peng = new_engine(prog, timeout_ms=3000)
    peng.use_linear_abstraction()
    sm2model.install(peng)
    sm2model.install_reader(peng)
    sm2model.install_hash(peng)

    def run_sm2(e):
        from sm2lib import int_input
        e.store_log = set()
        d, priv = int_input(e, 'd', 32, 1, sm2model.N - 2)
        ev, eb = int_input(e, 'e', 32)
        rd = sm2model.new_reader(e, 1)
        e.store_log.clear()
        out = e.call_outcome(SM2 + '.SignHashed', [rd, priv, eb])
        if out.kind != 'return' or out.values[2] is not None:
            e.store_log.clear()
            return
        r, s, _ = out.values
        audit(e, 'SignHashed', {}, {priv.obj: 'private key', eb.obj: 'digest'}, {r.obj, s.obj})
        px, py = sm2model.reg_point(e, d)
        pubx = e.new_slice([ByteOf(px, j, 32) for j in range(32)])
        puby = e.new_slice([ByteOf(py, j, 32) for j in range(32)])
        e.store_log.clear()
        e.call_outcome(SM2 + '.VerifyHashed', [pubx, puby, eb, r, s])
        audit(e, 'VerifyHashed', {}, {pubx.obj: 'public key x', puby.obj: 'public key y', eb.obj: 'digest', r.obj: 'r', s.obj: 's'}, set())
        e.call_outcome(SM2 + '.DerivePublic', [priv])
        audit(e, 'DerivePublic', {}, {priv.obj: 'private key'}, set())
        idb = e.new_slice([1] * 16)
        e.call_outcome(SM2 + '.ZA', [idb, pubx, puby])
        audit(e, 'ZA', {}, {idb.obj: 'id', pubx.obj: 'public key x', puby.obj: 'public key y'}, set())
    peng.explore(run_sm2)
    ck.absorb(peng)

    # real group layer and hash: package-level tables and parameters must only be read
    reng = new_engine(prog)

    def run_real(e):
        e.store_log = set()
        k = e.new_slice([7] * 32)
        out = e.call_outcome(MOD + '/sm2/internal.ScalarBaseMult', [k])
        audit(e, 'ScalarBaseMult (real tables)', {}, {k.obj: 'scalar'}, set())
        g = e.call(MOD + '/sm2/internal.NewSM2Generator', [])
        e.store_log.clear()
        e.call_outcome(MOD + '/sm2/internal.ScalarMixedMult_Unsafe', [k, g, e.new_slice([9] * 32)])
        audit(e, 'ScalarMixedMult_Unsafe', {g.obj: 'point argument'}, {k.obj: 'scalar'}, set())
        h = e.call(SM3 + '.New', [])
        data = e.new_slice([1] * 100)
        e.store_log.clear()
        e.call('(*%s.SM3).Write' % SM3, [h.v, data])
        e.call('(*%s.SM3).Sum' % SM3, [h.v, NILSLICE])
        audit(e, 'sm3 Write+Sum', {}, {data.obj: 'data'}, {h.v.obj})
        e.call(SM3 + '.SumSM3', [data])
        audit(e, 'SumSM3', {}, {data.obj: 'data'}, set())
        # the SM2 entry points once more on the REAL group / field / point code (concrete inputs, no contracts), so that a
        # package-level scratch value anywhere below the protocol layer shows up in the write set
        INT_ = MOD + '/sm2/internal'
        p7, _ = e.call(INT_ + '.ScalarBaseMult', [k])
        e.store_log.clear()
        for meth in ('GetAffineX_Unsafe', 'GetAffineX', 'Bytes', 'Bytes_Unsafe', 'IsInfinity'):
            if ('(*%s.SM2Point).%s' % (INT_, meth)) in e.prog.funcs:
                e.call_outcome('(*%s.SM2Point).%s' % (INT_, meth), [p7])
                audit(e, 'SM2Point.' + meth, {p7.obj: 'point argument'}, {}, set())
        e.call_outcome(INT_ + '.ScalarMult', [g, k])
        audit(e, 'ScalarMult', {g.obj: 'point argument'}, {k.obj: 'scalar'}, set())
        priv = e.new_slice([(i * 29 + 3) & 0xff for i in range(32)])
        dig = e.new_slice([(i * 13 + 5) & 0xff for i in range(32)])
        rd = Iface('stub:CReader', object())
        e.store_log.clear()
        o = e.call_outcome(SM2 + '.SignHashed', [rd, priv, dig])
        if o.kind == 'return' and o.values[2] is None:
            r_, s_, _ = o.values
            audit(e, 'SignHashed (real group layer)', {}, {priv.obj: 'private key', dig.obj: 'digest'}, {r_.obj, s_.obj})
            o2 = e.call_outcome(SM2 + '.DerivePublic', [priv])
            audit(e, 'DerivePublic (real group layer)', {}, {priv.obj: 'private key'}, set())
            if o2.kind == 'return' and o2.values[2] is None:
                px_, py_, _ = o2.values
                e.store_log.clear()
                e.call_outcome(SM2 + '.VerifyHashed', [px_, py_, dig, r_, s_])
                audit(e, 'VerifyHashed (real group layer)', {}, {px_.obj: 'public key x', py_.obj: 'public key y', dig.obj: 'digest', r_.obj: 'r', s_.obj: 's'}, set())
                e.call_outcome(SM2 + '.CheckOnCurve', [px_, py_])
                audit(e, 'CheckOnCurve (real field code)', {}, {px_.obj: 'public key x', py_.obj: 'public key y'}, set())
            e.call_outcome(SM2 + '.GenerateKey', [rd])
            audit(e, 'GenerateKey (real group layer)', {}, {}, set())
            # message-level entry points with the real SM3 (no hash model in this engine)
            if o2.kind == 'return' and o2.values[2] is None:
                # every input lives in a buffer with spare capacity behind it (a caller's record): an append onto an input
                # then lands in the caller's memory and shows up in the store log as a write to that input
                def spare(vals, extra=96):
                    vals = list(vals)
                    oid = e.new_obj(vals + [0xEE] * extra, ('array', 'uint8', len(vals) + extra))
                    return Slice(oid, (), 0, len(vals), len(vals) + extra)
                idb = spare([0x31 + (j % 8) for j in range(16)])
                msg = spare([(j * 3 + 1) & 0xff for j in range(70)])
                px_, py_, priv = spare(e.slice_list(px_)), spare(e.slice_list(py_)), spare(e.slice_list(priv))
                e.store_log.clear()
                oz = e.call_outcome(SM2 + '.ZA', [idb, px_, py_])
                audit(e, 'ZA (real SM3)', {}, {idb.obj: 'id', px_.obj: 'public key x', py_.obj: 'public key y'}, set())
                os_ = e.call_outcome(SM2 + '.Sign', [idb, px_, py_, rd, priv, msg])
                if os_.kind == 'return' and os_.values[2] is None:
                    r3, s3, _ = os_.values
                    audit(e, 'Sign (real code)', {}, {idb.obj: 'id', msg.obj: 'message', priv.obj: 'private key', px_.obj: 'public key x', py_.obj: 'public key y'}, {r3.obj, s3.obj})
                    r3, s3 = spare(e.slice_list(r3)), spare(e.slice_list(s3))
                    e.store_log.clear()
                    e.call_outcome(SM2 + '.Verify', [idb, px_, py_, msg, r3, s3])
                    audit(e, 'Verify (real code)', {}, {idb.obj: 'id', msg.obj: 'message', r3.obj: 'r', s3.obj: 's', px_.obj: 'public key x', py_.obj: 'public key y'}, set())
                    if oz.kind == 'return' and oz.values[1] is None:
                        zas = spare(e.slice_list(oz.values[0]))
                        e.store_log.clear()
                        e.call_outcome(SM2 + '.VerifyZa', [px_, py_, zas, msg, r3, s3])
                        audit(e, 'VerifyZa (real code)', {}, {msg.obj: 'message', r3.obj: 'r', s3.obj: 's', zas.obj: 'za', px_.obj: 'public key x', py_.obj: 'public key y'}, set())
                        e.call_outcome(SM2 + '.SignZa', [rd, priv, zas, msg])
                        audit(e, 'SignZa (real code)', {}, {msg.obj: 'message', priv.obj: 'private key', zas.obj: 'za'}, set())
        else:
            findings.append(('SignHashed (real group layer)', 'not-run', 'concrete SignHashed on the real code did not return a signature: %s' % (o.panic.msg if o.kind == 'panic' else 'error')))

    def creader(e, a, ins):
        p = a[1]
        for i in range(p.len):
            e.slice_set(p, i, (i * 37 + 11) & 0xff)
        return (p.len, None)
    reng.method_models[('stub:CReader', 'Read')] = creader
    reng.max_instrs = 2_000_000_000
    reng.explore(run_real)
    ck.absorb(reng)
    secs = time.time() - t0

    # ------------------------------------------------------------ validation / replay on the real build: go test -race with shared objects and buffers
    src = '''package sm4
import ("testing"; "sync"; "bytes"; "crypto/cipher")
func TestVerifReplay(t *testing.T) {
	key := []byte{1,2,3,4,5,6,7,8,9,10,11,12,13,14,15,16}
	b, _ := NewCipher(key)
	a, _ := cipher.NewGCM(b)
	nonce := make([]byte, 12); aad := []byte{1,2,3}
	pt := bytes.Repeat([]byte{7}, 300)
	ct := a.Seal(nil, nonce, pt, aad)
	ctCopy := append([]byte{}, ct...)
	want := make([]byte, 16); b.Encrypt(want, pt[:16])
	var wg sync.WaitGroup
	for g := 0; g < 8; g++ {
		wg.Add(1)
		go func() {
			defer wg.Done()
			for j := 0; j < 40; j++ {
				if p, err := a.Open(nil, nonce, ct, aad); err != nil || !bytes.Equal(p, pt) { t.Errorf("concurrent Open failed: %v", err); return }
				if c2 := a.Seal(nil, nonce, pt, aad); !bytes.Equal(c2, ctCopy) { t.Errorf("concurrent Seal differs"); return }
				o := make([]byte, 16); b.Encrypt(o, pt[:16]); if !bytes.Equal(o, want) { t.Errorf("concurrent Encrypt differs"); return }
			}
		}()
	}
	wg.Wait()
	if !bytes.Equal(ct, ctCopy) { t.Fatalf("shared ciphertext buffer was modified") }
}'''
    path = os.path.join(ck.outdir, 'race_test.go')
    open(path, 'w').write(src)
    ovp = os.path.join(ck.outdir, 'race_overlay.json')
    json.dump({'Replace': {os.path.join(REPO, 'sm4', 'zz_verif_race_test.go'): path}}, open(ovp, 'w'))
    cmd = ['go', 'test', '-race', '-vet=off', '-count=1', '-run', 'TestVerifReplay', '-overlay', ovp, './sm4']
    open(os.path.join(ck.outdir, 'race.cmd'), 'w').write('cd %s && %s\n' % (REPO, ' '.join(cmd)))
    try:
        r = subprocess.run(cmd, cwd=REPO, env=GOENV, capture_output=True, text=True, timeout=600)
        race_ok = r.returncode == 0
        race_out = r.stdout + r.stderr
    except Exception as ex:
        race_ok, race_out = None, str(ex)
    if race_ok:
        ck.validated += 1
    # the same for SM2: concurrent SignHashed / VerifyHashed / DerivePublic with fixed nonces against serial results
    src2 = '''package sm2
import ("testing"; "sync"; "bytes")
type fixedReader struct{ b byte }
func (r *fixedReader) Read(p []byte) (int, error) { for i := range p { p[i] = r.b + byte(i) }; return len(p), nil }
func TestVerifReplay(t *testing.T) {
	const G = 8
	type res struct{ r, s, x, y []byte }
	do := func(i int) res {
		priv := make([]byte, 32); for j := range priv { priv[j] = byte(i*31 + j*7 + 1) }
		e := make([]byte, 32); for j := range e { e[j] = byte(i + j*3) }
		x, y, err := DerivePublic(priv); if err != nil { t.Fatal(err) }
		r, s, err := SignHashed(&fixedReader{byte(i + 1)}, priv, e); if err != nil { t.Fatal(err) }
		ok, err := VerifyHashed(x, y, e, r, s); if !ok || err != nil { t.Errorf("valid signature rejected (worker %d)", i) }
		id := []byte("1234567812345678"); msg := bytes.Repeat([]byte{byte(i + 1)}, 3000)
		rm, sm, err := Sign(id, x, y, &fixedReader{byte(i + 7)}, priv, msg); if err != nil { t.Fatal(err) }
		if ok, err := Verify(id, x, y, msg, rm, sm); !ok || err != nil { t.Errorf("valid message-level signature rejected (worker %d)", i) }
		r = append(append([]byte{}, r...), rm...); s = append(append([]byte{}, s...), sm...)
		return res{r, s, x, y}
	}
	// one key and one za shared by all workers; za sits at the front of a larger record (spare capacity behind it)
	priv0 := make([]byte, 32); for j := range priv0 { priv0[j] = byte(j*5 + 9) }
	x0, y0, _ := DerivePublic(priv0)
	zaFull, _ := ZA([]byte("1234567812345678"), x0, y0)
	record := make([]byte, 32, 4096); copy(record, zaFull)
	recBefore := append([]byte{}, record[:cap(record)]...)
	doZa := func(i int) {
		msg := bytes.Repeat([]byte{byte(i + 1)}, 200 + i)
		r, s, err := SignZa(&fixedReader{byte(i + 3)}, priv0, record, msg); if err != nil { t.Error(err); return }
		if ok, err := VerifyZa(x0, y0, record, msg, r, s); !ok || err != nil { t.Errorf("worker %d: signature made with the shared za is rejected", i) }
	}
	for i := 0; i < G; i++ { doZa(i) }
	if !bytes.Equal(record[:cap(record)], recBefore) { t.Fatalf("SignZa/VerifyZa wrote into the record that holds za") }
	serial := make([]res, G)
	for i := range serial { serial[i] = do(i) }
	var wg sync.WaitGroup
	for i := 0; i < G; i++ {
		wg.Add(1)
		go func(i int) {
			defer wg.Done()
			for n := 0; n < 40; n++ {
				doZa(i)
				got := do(i)
				if !bytes.Equal(got.r, serial[i].r) || !bytes.Equal(got.s, serial[i].s) || !bytes.Equal(got.x, serial[i].x) || !bytes.Equal(got.y, serial[i].y) { t.Errorf("worker %d: result differs from the serial run", i); return }
			}
		}(i)
	}
	wg.Wait()
}'''
    path2 = os.path.join(ck.outdir, 'race_sm2_test.go')
    open(path2, 'w').write(src2)
    ovp2 = os.path.join(ck.outdir, 'race_sm2_overlay.json')
    json.dump({'Replace': {os.path.join(REPO, 'sm2', 'zz_verif_race_test.go'): path2}}, open(ovp2, 'w'))
    cmd2 = ['go', 'test', '-race', '-vet=off', '-count=1', '-run', 'TestVerifReplay', '-overlay', ovp2, './sm2']
    open(os.path.join(ck.outdir, 'race_sm2.cmd'), 'w').write('cd %s && %s\n' % (REPO, ' '.join(cmd2)))
    try:
        r2 = subprocess.run(cmd2, cwd=REPO, env=GOENV, capture_output=True, text=True, timeout=900)
        race2_ok = r2.returncode == 0
        race2_out = r2.stdout + r2.stderr
    except Exception as ex:
        race2_ok, race2_out = None, str(ex)
    if race2_ok:
        ck.validated += 1
    if race2_ok is False and 'FAIL' in race2_out and ('DATA RACE' in race2_out or '--- FAIL' in race2_out):
        if race_ok is not False:
            race_ok, race_out, path = False, race2_out, path2
    keys = {}
    for label, k, desc in findings:
        keys.setdefault(k, []).append((label, desc))
    for k, fl in sorted(keys.items()):
        desc = '%s %s (operations: %s)' % (fl[0][0], fl[0][1], sorted(set(f[0] for f in fl))[:6])
        if race_ok is False:
            ck.record('frame[' + k + ']', 'violated', desc + '; the concurrent run on the real build fails as well: ' + race_out[-160:].replace('\n', ' '))
            ck.violation('frame:' + k, desc, path)
        else:
            ck.record('frame[' + k + ']', 'violated', desc + ' (write observed in the symbolic store log of the real code)')
            ck.violation('frame:' + k, desc, path)
    if race_ok is False and not findings:
        ck.record('concurrent_run', 'violated', 'go test -race with shared cipher/AEAD/buffers fails: ' + race_out[-300:].replace('\n', ' '))
        ck.violation('concurrent-run', 'concurrent use of one AEAD and shared read-only buffers gives wrong results or a data race', path)
    if not findings:
        ck.record('frame_condition', 'proved', '%d operations audited: no store (Go or assembly) targets package-level state, the shared Block/AEAD object, or an input buffer other than dst' % nops, secs=secs,
                  sample=dict(operation='Open(300)', written=['result slice', 'call-local scratch'], not_written=['AEAD object', 'round keys', 'nonce', 'ciphertext', 'additional data', 'package tables']))
    ck.extra['explanation'] = ('Decided by the solver-based machinery: the frame condition that makes all interleavings equivalent to serial ones - for every public operation, over the symbolic execution '
                               'of the real Go code (go/ssa) and the real assembly (listing), the set of written heap objects contains no package-level object, no field of the shared cipher/AEAD object and no '
                               'input buffer other than dst; package initialisers are the only writers of globals. NOT decided here: schedules are not enumerated; that operations with disjoint write sets and '
                               'read-only shared state commute is an argument. A go test -race run with 8 goroutines sharing one AEAD and the same buffers is executed as validation (the race detector does not see '
                               'assembly stores, which is why the store log of the assembly interpreter matters).')
    ck.extra['operations_audited'] = nops
    ck.bounds.append('write sets of %d public operations, one symbolic execution each: NewCipher, Encrypt/Decrypt (assembly and portable cipher), NewGCM, Seal/Open for plaintext lengths 0/17/64/300 with (nonce,tag) sizes (12,16), (13,12), (130,16), SignHashed, VerifyHashed, DerivePublic, ZA, ScalarBaseMult, ScalarMixedMult_Unsafe, sm3 Write/Sum/SumSM3; data concrete or symbolic as in C10 (addresses do not depend on data: C09)' % nops)
    ck.outside.append('interleavings are not enumerated (frame condition only); arm64 assembly; lazily initialised state inside the Go runtime or standard library')
    ck.assumptions.append('operations whose write sets are disjoint and whose shared state is read-only commute (argument, not a solver result)')
    ck.finish()


if __name__ == '__main__':
    guarded_main('C17', main)
