# arm64 side of the SM4 / GCM checks (C05, C06, C07, C09, C10, C11, C17).
#
# The arm64 implementation is split differently from the amd64 one: the GCM logic is Go code (sm4_gcm_arm64.go) over
# fixed-size NEON leaf routines (block kernels, gHashBlocks, xorN).  Both halves are encoded from the current tree:
# the Go glue from go/ssa built with GOARCH=arm64, the leaf routines from `go tool asm -S` with GOARCH=arm64, executed
# by engine/arm64sym.py and composed through the same bridge as on amd64.
#
# There is no arm64 host: the NEON semantics are validated against the specification (every kernel must be equal to
# SM4 / GHASH for all inputs, which holds on the unchanged tree - obligations a64_kernels / a64_ghash).  Findings in
# the Go glue are replayed on the real amd64 build by compiling the arm64 glue file for amd64 over portable leaf
# routines (overlay); findings inside the NEON routines have no executable replay here and are reported with the
# concrete input and the interpreter's result.
import os, re, time, random, json
from sm4lib import *
import arm64sym
from arm64sym import A64Machine
from asmsym import SEC

A64_FILES = ['asm_arm64.s', 'gcm_arm64.s']
SBOX_T = tuple(S.SBOX)
KERNELS = (('cryptoBlockAsm', 1), ('cryptoBlockAsmX2', 2), ('cryptoBlockAsmX4', 4), ('cryptoBlockAsmX8', 8), ('cryptoBlockAsmX16Internal', 16))
XORS = (('xor16', 16), ('xor32', 32), ('xor64', 64), ('xor128', 128), ('xor256', 256))


class Env:
    def __init__(self, tag):
        self.L = Listing.load(os.path.join(REPO, 'sm4'), A64_FILES, goarch='arm64')
        self.prog = dump_ssa('a64_' + tag, goarch='arm64')
        self.m = A64Machine(self.L)

    def engine(self, cando=True, timeout_ms=20000):
        eng = new_engine(self.prog, timeout_ms=timeout_ms, cando_asm=cando)
        asmbridge.install(eng, self.L, machine_cls=A64Machine)
        return eng


def note(ck):
    ck.assumptions.append('arm64: NEON instruction semantics as implemented in engine/arm64sym.py (no arm64 host; validated by the kernels and gHashBlocks coming out equal to the SM4 / GHASH specification under them, and on concrete standard vectors)')
    ck.stubs.add('arm64: cpuid reports AESARM (accelerated path selected)')


def glue_replay_files(ck):
    """overlay that compiles the arm64 GCM glue (the real sm4_gcm_arm64.go of the current tree) for amd64 over
    portable leaf routines, so that a finding in the Go glue can be executed on this host"""
    src = open(os.path.join(REPO, 'sm4', 'sm4_gcm_arm64.go')).read()
    src = re.sub(r'//go:build arm64', '//go:build amd64', src, count=1)
    src = re.sub(r'//go:noescape\nfunc (xor\d+|gHashBlocks)\([^\n]*\n', '', src)
    src = src.replace('gHashBlocks(', 'verifGHashBlocks(')      # amd64 has an assembly routine of that name: use the portable stand-in
    glue = os.path.join(ck.outdir, 'a64glue_on_amd64.go')
    open(glue, 'w').write(src)
    leaves = '''//go:build amd64
package sm4
import "unsafe"
// portable stand-ins for the arm64 leaf routines (same contracts): used only to execute the arm64 Go glue on amd64
func xorN(dst, a, b *byte, n int) { d, x, y := unsafe.Slice(dst, n), unsafe.Slice(a, n), unsafe.Slice(b, n); for i := 0; i < n; i++ { d[i] = x[i] ^ y[i] } }
func xor16(dst, a, b *byte)  { xorN(dst, a, b, 16) }
func xor32(dst, a, b *byte)  { xorN(dst, a, b, 32) }
func xor64(dst, a, b *byte)  { xorN(dst, a, b, 64) }
func xor128(dst, a, b *byte) { xorN(dst, a, b, 128) }
func xor256(dst, a, b *byte) { xorN(dst, a, b, 256) }
func verifGHashBlocks(H *byte, tag *byte, data *byte, count int) {
	h, t, d := unsafe.Slice(H, 16), unsafe.Slice(tag, 16), unsafe.Slice(data, 16*count)
	for i := 0; i < count; i++ {
		var x [16]byte
		for j := range x { x[j] = t[j] ^ d[16*i+j] }
		var z, v [16]byte
		copy(v[:], h)
		for bit := 0; bit < 128; bit++ {
			if x[bit/8]>>(7-uint(bit%8))&1 == 1 { for j := range z { z[j] ^= v[j] } }
			lsb := v[15] & 1
			for j := 15; j > 0; j-- { v[j] = v[j]>>1 | v[j-1]<<7 }
			v[0] >>= 1
			if lsb == 1 { v[0] ^= 0xe1 }
		}
		copy(t, z[:])
	}
}
func needExpand(array []byte, asked int) int
func sealAsm(roundKeys *uint32, tagSize int, dst *byte, nonce []byte, plaintext []byte, additionalData []byte, temp *byte)
func openAsm(roundKeys *uint32, tagSize int, dst *byte, nonce []byte, ciphertext []byte, additionalData []byte, temp *byte) int
'''
    lp = os.path.join(ck.outdir, 'a64leaves_on_amd64.go')
    open(lp, 'w').write(leaves)
    return {'sm4_gcm_amd64.go': glue, 'zz_verif_a64leaves.go': lp}


def glue_replay(ck, body, name):
    """run a test body (Go statements using `aead func(ns, ts int) cipher.AEAD`, key = standard key) against the arm64 glue on amd64"""
    src = '''package sm4
import ("testing"; "bytes"; "crypto/cipher"; "encoding/hex"; "syscall"; "runtime"; "runtime/debug"; "strings")
var _ = bytes.Equal
var _ = hex.EncodeToString
''' + GUARD_HELPERS + '''
func TestVerifReplay(t *testing.T) {
	key, _ := hex.DecodeString("0123456789abcdeffedcba9876543210")
	c, _ := NewCipher(key)
	aead := func(ns, ts int) cipher.AEAD { a, _ := c.(gcmAble).NewGCM(ns, ts); return a }
	_ = aead
%s
}''' % body
    return ck.go_test('sm4', src, name=name, extra_files=glue_replay_files(ck))


# ------------------------------------------------------------------------------------------ C05
def c05(ck, env, add, thorough):
    """NEON block kernels and key schedule == GB/T 32907 for all round keys / keys and all blocks"""
    note(ck)
    asmsym.table_func(SBOX_T)
    S.sbox_hook = lambda b: asmsym.apply_table(SBOX_T, b)
    m = env.m
    rk_sym = [z3.BitVec('rk%d' % i, 32) for i in range(32)]
    rk_cells = []
    for w in rk_sym:
        rk_cells += Machine.to_bytes(w, 4)
    n = 0
    for name, nb in KERNELS:
        for variant in (('plain', 'inplace', 'tmp=dst') if nb == 16 else ('plain', 'inplace')):
            if variant == 'inplace' and not (thorough or nb in (1, 16)):
                continue
            src = [z3.BitVec('b%d_%d' % (nb, i), 8) for i in range(16 * nb)]
            asmsym.naming_reset(True)
            m.reset()
            a_rk = m.add_region('rk', rk_cells, False)
            if variant == 'inplace':
                a_d = m.add_region('dst', list(src))
                a_s = a_d
            else:
                a_d = m.add_region('dst', [0] * (16 * nb))
                a_s = m.add_region('src', list(src), False)
            args = {0: a_rk, 8: a_d, 16: a_s}
            if nb == 16:
                args[24] = a_d if variant != 'plain' else m.add_region('tmp', [0] * 256)
            try:
                m.run(name, args)
            except asmsym.AsmUnsupported as ex:
                add('a64:unsupported', 'arm64 %s: %s' % (name, ex), None)
                continue
            ck.transitions += m.steps
            ck.states += 1
            got = m.regions['dst'].cells
            bad = None
            for lane in range(nb):
                want = S.unwords(S.crypt_words(S.words(src[16 * lane:16 * lane + 16]), rk_sym))
                conds = [z3.simplify(asmsym.bv(g, 8) == w) for g, w in zip(got[16 * lane:16 * lane + 16], want)]
                n += 1
                if all(z3.is_true(c) for c in conds):
                    continue
                s = z3.Solver()
                s.set('timeout', 60000)
                t1 = time.time()
                r = s.check(z3.Not(z3.And(*conds)))
                ck.queries += 1
                ck.solver_s += time.time() - t1
                if r != z3.unsat:
                    bad = (lane, 'cex' if r == z3.sat else 'unknown')
                    break
            if bad:
                add('a64:%s%s' % (name, '' if variant == 'plain' else ':' + variant), 'arm64 %s (%s): lane %d differs from the SM4 block function (%s)' % (name, variant, bad[0], bad[1]), ('a64kernel', name, nb, variant))
            ev = [e for e in m.events if e[0] != 'uninit']
            if ev:
                add('a64:%s:events' % name, 'arm64 %s: %s' % (name, ev[0]), None)
    # key schedule
    W = [z3.BitVec('W%d' % i, 32) for i in range(4)]
    kb = S.unwords([z3.simplify(w ^ f) for w, f in zip(W, S.FK)])
    CKs = [z3.BitVec('CK%d' % i, 32) for i in range(32)]
    asmsym.naming_reset(True)
    m.reset()
    ck_cells = []
    for w in CKs:
        ck_cells += Machine.to_bytes(w, 4)
    real_ck = list(m.regions['CK'].cells)
    m.regions['CK'].cells = ck_cells
    try:
        m.run('expandKeyAsm', {0: m.add_region('key', list(kb), False), 8: m.add_region('enc', [0] * 128), 16: m.add_region('dec', [0] * 128)})
    except asmsym.AsmUnsupported as ex:
        add('a64:unsupported', 'arm64 expandKeyAsm: %s' % ex, None)
        m.regions['CK'].cells = real_ck
        asmsym.naming_reset(False)
        return n
    m.regions['CK'].cells = real_ck
    k = list(W)
    want = []
    for i in range(32):
        nw = z3.simplify(k[0] ^ S.Tp(z3.simplify(k[1] ^ k[2] ^ k[3] ^ CKs[i])))
        want.append(nw)
        k = [k[1], k[2], k[3], nw]
    enc = [Machine.from_bytes(m.regions['enc'].cells[i:i + 4]) for i in range(0, 128, 4)]
    dec = [Machine.from_bytes(m.regions['dec'].cells[i:i + 4]) for i in range(0, 128, 4)]
    for label, g, w in (('enc', enc, want), ('dec', dec, want[::-1])):
        conds = [z3.simplify(asmsym.bv(x, 32) == y) for x, y in zip(g, w)]
        if not all(z3.is_true(c) for c in conds):
            s = z3.Solver()
            s.set('timeout', 60000)
            r = s.check(z3.Not(z3.And(*conds)))
            ck.queries += 1
            if r != z3.unsat:
                add('a64:expandKeyAsm', 'arm64 key schedule (%s keys) differs from the standard (%s)' % (label, r), ('a64expand',))
    n += 2
    if real_ck != rk_bytes(S.CK) or list(m.regions['FK'].cells) != rk_bytes(S.FK) or tuple(m.regions['SBox'].cells) != SBOX_T:
        add('a64:constants', 'arm64 SBox/CK/FK data differ from the standard constants', None)
    if [e for e in m.events if e[0] != 'uninit']:
        add('a64:expandKeyAsm:events', str(m.events[0]), None)
    asmsym.naming_reset(False)
    ck.functions |= {'arm64:' + k_ for k_, _ in KERNELS} | {'arm64:expandKeyAsm'}
    return n


# ------------------------------------------------------------------------------------------ GCM through the Go glue
def gcm_objects(e, key, ns, ts):
    blk, _ = e.call(SM4 + '.NewCipher', [e.new_slice(list(key))])
    aead, _ = e.call('(*%s.sm4CipherAsm).NewGCM' % SM4, [blk.v, ns, ts])
    return blk, aead


def mk(e, cells):
    return e.new_slice(list(cells)) if len(cells) else e.new_slice([])


def c06(ck, env, add, thorough, keys, wraps=()):
    """Seal through the arm64 glue + NEON leaves == SP 800-38D specification, data bytes GF(2)-affine symbolic"""
    note(ck)
    if thorough:
        pls = [0, 1, 15, 16, 17, 31, 32, 33, 47, 48, 63, 64, 65, 127, 128, 129, 255, 256, 257, 271, 300, 511, 512, 513, 767, 1025, 1100]
        als = [0, 1, 15, 16, 17, 31, 32, 33, 64, 65, 127, 128, 129, 271]
        nls = [1, 8, 11, 12, 13, 16, 17, 31, 32, 33, 64, 127, 128, 129, 300]
    else:
        pls = [0, 1, 15, 16, 17, 33, 64, 65, 129, 255, 257, 271, 513, 1100]
        als = [0, 1, 16, 17, 65, 129, 144, 160, 183]
        nls = [1, 12, 13, 16, 17, 129, 160, 183]
    tuples = sorted(set([(12, pl, al, 16) for pl in pls for al in (0, 5)] + [(12, pl, 16, ts) for pl in (0, 17, 271) for ts in (12, 13, 15, 16)] +
                        [(12, pl, al, 16) for al in als for pl in (0, 37)] + [(nl, pl, 3, 16) for nl in nls for pl in (0, 17, 271)]))
    eng = env.engine()
    nq = [0]
    # counter wrap: the nonces solved by the amd64 part (standard key; initial counter within 17 blocks of 2^32) x lengths that
    # cross the wrap in every kernel width and in the tail
    wrapcases = [(cn, pl) for (_t, cn) in wraps for pl in ((300, 17, 129) if not thorough else (16, 17, 33, 64, 129, 271, 300, 600))]
    tuples = tuples + [('wrap', i) for i in range(len(wrapcases))]

    def run(e):
        out = []
        for idx, tup in enumerate(tuples):
            if tup[0] == 'wrap':
                cn, pl = wrapcases[tup[1]]
                nl, al, ts = len(cn), 3, 16
            else:
                nl, pl, al, ts = tup
            key = keys[idx % len(keys)] if tup[0] != 'wrap' else STD_KEY
            asmsym.aff_reset()
            r2 = random.Random(ck.seed * 104729 + idx)
            nonce = [r2.randrange(256) for _ in range(nl)] if tup[0] != 'wrap' else list(cn)
            pt, _ = aff_data(r2, 'p', pl, 3)
            aad, _ = aff_data(r2, 'a', al, 2)
            label = 'arm64 nonce=%d pt=%d aad=%d tag=%d' % (nl, pl, al, ts)
            try:
                blk, aead = gcm_objects(e, key, nl, ts)
                o = e.call_outcome('(*%s.sm4GcmAsm).Seal' % SM4, [aead.v, NILSLICE, mk(e, nonce), mk(e, pt), mk(e, aad)])
            except Unsupported as ex:
                out.append(('a64:unsupported', label + ': ' + str(ex), None))
                continue
            if o.kind != 'return':
                out.append(('a64:Seal.panic', label + ': Seal panics: ' + o.panic.msg, dict(ns=nl, ts=ts, pt=concretize(pt, None), aad=concretize(aad, None), nonce=nonce, key=key)))
                continue
            got = e.slice_list(o.values)
            ct, tag, _ = G.seal(S.encrypt_block, key, nonce, pt, aad, ts)
            q = cells_differ_query(got, ct + tag)
            if q is None:
                continue
            s = z3.Solver()
            s.set('timeout', 30000)
            t1 = time.time()
            r = s.check(q)
            nq[0] += 1
            ck.queries += 1
            ck.solver_s += time.time() - t1
            if r != z3.unsat:
                mdl = s.model() if r == z3.sat else None
                out.append(('a64:seal', '%s: ciphertext||tag differs from SP 800-38D (%s)' % (label, r), dict(ns=nl, ts=ts, pt=concretize(pt, mdl), aad=concretize(aad, mdl), nonce=nonce, key=key)))
        return out
    for k, desc, w in eng.explore(run)[0]:
        add(k, desc, ('a64seal', w) if w else None)
    ck.absorb(eng)
    ck.bounds.append('arm64 (Go glue of sm4_gcm_arm64.go from go/ssa GOARCH=arm64 + NEON leaf routines from the arm64 listing): Seal on %d (nonce,plaintext,aad,tag) length tuples (plaintext 0..%d, aad 0..%d, nonce 1..%d), concrete keys/nonces, 3+2 affine-symbolic data bytes' % (len(tuples), pls[-1], als[-1], nls[-1]))
    return len(tuples)


def c07(ck, env, add, thorough, keys):
    """Open through the arm64 glue: accepts exactly when the received tag equals the specification tag; reject path
    returns (nil, error); short inputs refused"""
    note(ck)
    tuples = [(12, 0, 0, 16), (12, 17, 3, 16), (12, 64, 16, 12), (13, 33, 5, 13), (12, 271, 20, 16)] + ([(129, 300, 33, 15), (12, 1100, 0, 16), (1, 16, 16, 14)] if thorough else [])
    eng = env.engine()

    def run(e):
        out = []
        for idx, (nl, pl, al, ts) in enumerate(tuples):
            key = keys[idx % len(keys)]
            asmsym.aff_reset()
            r2 = random.Random(ck.seed * 31337 + idx)
            nonce = [r2.randrange(256) for _ in range(nl)]
            pt, _ = aff_data(r2, 'p', pl, 2)
            aad, _ = aff_data(r2, 'a', al, 1)
            ct, tag, _ = G.seal(S.encrypt_block, key, nonce, pt, aad, ts)
            label = 'arm64 nonce=%d pt=%d aad=%d tag=%d' % (nl, pl, al, ts)
            rtag = [z3.BitVec('rt%d_%d' % (idx, i), 8) for i in range(ts)]
            blk, aead = gcm_objects(e, key, nl, ts)
            ctb = mk(e, list(ct) + rtag)
            pc0 = len(e.pc)
            o = e.call_outcome('(*%s.sm4GcmAsm).Open' % SM4, [aead.v, NILSLICE, mk(e, nonce), ctb, mk(e, aad)])
            if o.kind != 'return':
                out.append(('a64:Open.panic', label + ': Open panics: ' + o.panic.msg, None))
                continue
            p, err = o.values
            same = z3.And(*[asmsym.bv(t, 8) == r for t, r in zip(tag, rtag)])
            if err is None:
                v = e.prove(same)
                if v[0] != 'proved':
                    out.append(('a64:open.accept', label + ': Open accepts a tag that differs from the SP 800-38D tag (%s)' % v[0], None))
                got = e.slice_list(p)
                # under the path condition (tag matches) the plaintext must be the sealed one
                q = cells_differ_query(got, pt)
                if q is not None and len(got) == len(pt):
                    s = z3.Solver()
                    s.set('timeout', 30000)
                    r = s.check(q)
                    ck.queries += 1
                    if r != z3.unsat:
                        out.append(('a64:open.plaintext', label + ': accepted message decrypts to something else (%s)' % r, None))
                elif len(got) != len(pt):
                    out.append(('a64:open.plaintext', label + ': plaintext length %d instead of %d' % (len(got), len(pt)), None))
            else:
                v = e.prove(z3.Not(same))
                if v[0] != 'proved':
                    out.append(('a64:open.reject', label + ': Open rejects although the tag equals the SP 800-38D tag (%s)' % v[0], None))
                if p.obj is not None:
                    out.append(('a64:open.reject-output', label + ': rejected message returns a non-nil slice', None))
        # short ciphertexts
        blk, aead = gcm_objects(e, keys[0], 12, 16)
        for L_ in (0, 1, 15):
            o = e.call_outcome('(*%s.sm4GcmAsm).Open' % SM4, [aead.v, NILSLICE, mk(e, list(range(12))), mk(e, [7] * L_), mk(e, [])])
            if o.kind != 'return' or o.values[1] is None:
                out.append(('a64:open.short', 'arm64: ciphertext of %d bytes (< tag size) is not refused with an error' % L_, None))
        return out
    seen = set()
    for res in eng.explore(run):
        for k, desc, w in res or []:
            if (k, desc) not in seen:
                seen.add((k, desc))
                add(k, desc, None)
    ck.absorb(eng)
    ck.bounds.append('arm64 Open through the Go glue: %d length tuples, received tag fully symbolic (both arms of the comparison explored)' % len(tuples))
    return len(tuples)


# ------------------------------------------------------------------------------------------ C09 / C11 on the leaf routines
def leaf_cases(thorough):
    counts = list(range(1, 41)) if thorough else [1, 2, 3, 4, 5, 7, 8, 9, 10, 11, 12, 15, 16, 17, 19, 23, 40]
    cases = [('expandKeyAsm', None)] + [(n, nb) for n, nb in KERNELS] + [(n, nb) for n, nb in XORS] + [('gHashBlocks', c) for c in counts]
    return cases


def leaf_run(m, name, par, cell, variant='plain'):
    """run one leaf routine on exactly-sized regions whose data cells are produced by cell(region, i)"""
    m.reset()
    mkr = lambda nm, n, w=True: m.add_region(nm, [cell(nm, i) for i in range(n)], w)
    if name == 'expandKeyAsm':
        args = {0: mkr('key', 16, False), 8: mkr('enc', 128), 16: mkr('dec', 128)}
    elif name.startswith('cryptoBlockAsm'):
        a_d = mkr('dst', 16 * par)
        args = {0: mkr('rk', 128, False), 8: a_d, 16: (a_d if variant == 'inplace' else mkr('src', 16 * par, False))}
        if par == 16:
            args[24] = a_d
    elif name.startswith('xor'):
        args = {0: mkr('dst', par), 8: mkr('src1', par, False), 16: mkr('src2', par, False)}
    else:
        args = {0: mkr('h', 16, False), 8: mkr('tag', 16), 16: mkr('data', 16 * par, False), 24: par}
    m.run(name, args)


def c09(ck, env, add, thorough):
    """no NEON routine branches on or addresses memory with key/data-derived values (taint run, everything secret),
    and the Go glue of Seal/Open has no secret-dependent branch or index except the tag verdict"""
    note(ck)
    m = env.m
    asmsym.TAINT[0] = True
    n = 0
    try:
        for name, par in leaf_cases(thorough):
            try:
                leaf_run(m, name, par, lambda r, i: SEC(8))
            except asmsym.AsmUnsupported as ex:
                add('a64:unsupported', 'arm64 %s: %s' % (name, ex), None)
                continue
            n += 1
            ck.transitions += m.steps
            for kind, pc, detail in m.events:
                if kind in ('symaddr', 'symbranch'):
                    add('a64:%s:%s' % (name, kind), 'arm64 %s: %s at pc %s: %s' % (name, 'data-dependent address' if kind == 'symaddr' else 'data-dependent branch', pc, detail), None)
        # Go glue in taint mode
        eng = env.engine()
        eng.taint = True
        findings = {}
        lens = [(12, 16, 0, 0), (12, 16, 17, 3), (13, 12, 300, 33), (129, 15, 65, 16)] + ([(12, 16, 1100, 129), (1, 13, 16, 0)] if thorough else [])
        S8 = z3.BitVec('secret8', 8)

        def run(e):
            for ns, ts, pl, al in lens:
                e.events = []
                blk, aead = gcm_objects(e, [S8] * 16, ns, ts)
                o = e.call_outcome('(*%s.sm4GcmAsm).Seal' % SM4, [aead.v, NILSLICE, mk(e, [S8] * ns), mk(e, [S8] * pl), mk(e, [S8] * al)])
                for ev in e.events:
                    findings.setdefault((ev[0], ev[3] or ev[1]), []).append('Seal(%d,%d,%d,%d)' % (ns, ts, pl, al))
                e.events = []
                o = e.call_outcome('(*%s.sm4GcmAsm).Open' % SM4, [aead.v, NILSLICE, mk(e, [S8] * ns), mk(e, [S8] * (pl + ts)), mk(e, [S8] * al)])
                for ev in e.events:
                    findings.setdefault((ev[0], ev[3] or ev[1]), []).append('Open(%d,%d,%d,%d)' % (ns, ts, pl, al))
                for rec in e.asm_calls:
                    for kind, pc, detail in rec.events:
                        if kind in ('symaddr', 'symbranch'):
                            findings.setdefault((kind, 'asm ' + rec.name), []).append(detail)
                e.asm_calls = []
        eng.explore(run, max_paths=64)
        ck.absorb(eng)
        verdict_sites = 0
        ck.extra['a64_glue_taint_events'] = {str(k): sorted(set(v))[:3] for k, v in findings.items()}
        for (kind, where), ops in sorted(findings.items(), key=str):
            w = str(where).replace(REPO + '/', '')
            # the permitted verdict: the comparison result of subtle.ConstantTimeCompare tested in Open
            if kind == 'symbranch' and 'sm4_gcm_arm64.go' in w and all(o.startswith('Open') for o in ops):
                src_line = open(os.path.join(REPO, 'sm4', 'sm4_gcm_arm64.go')).read().split('\n')[int(w.split(':')[1]) - 1] if ':' in w else ''
                if 'ConstantTimeCompare' in src_line and '!= 1' in src_line:
                    verdict_sites += 1
                    continue
            add('a64:glue:%s@%s' % (kind, w), 'arm64 Go glue: %s at %s during %s' % ({'symbranch': 'branch on secret data', 'symindex': 'index derived from secret data', 'symslice': 'slice bound derived from secret data'}.get(kind, kind), w, sorted(set(ops))[:3]), None)
        if verdict_sites > 1:
            add('a64:glue:verdicts', 'arm64 Open has %d secret-dependent branches instead of the single tag verdict' % verdict_sites, None)
    finally:
        asmsym.TAINT[0] = False
    ck.bounds.append('arm64: %d NEON leaf routine runs (all kernels, key expansion, xorN, gHashBlocks counts %s) with every key/data byte secret; Go glue of Seal/Open in taint mode on %d length tuples' % (n, '1..40' if thorough else 'up to 40 (17 classes)', len(lens)))
    return n


def c11(ck, env, add, thorough):
    """every access of every NEON leaf routine lies inside its exactly-sized region; the Go glue hands every leaf
    routine buffers of at least the routine's footprint, for all length tuples in the bound"""
    note(ck)
    m = env.m
    n = 0
    foot = {}
    for name, par in leaf_cases(thorough):
        for variant in (('plain', 'inplace') if name.startswith('cryptoBlockAsm') else ('plain',)):
            try:
                leaf_run(m, name, par, lambda r, i: (i * 7 + 3) & 0xff, variant)
            except asmsym.AsmUnsupported as ex:
                add('a64:unsupported', 'arm64 %s: %s' % (name, ex), None)
                continue
            n += 1
            ck.transitions += m.steps
            for cls, evs in classify([e for e in m.events if e[0] != 'uninit']).items():
                add('a64:%s:%s' % (name, cls), 'arm64 %s%s: %s' % (name, '' if variant == 'plain' else ' (in place)', evs[0][2]), None)
    # glue: every leaf call's regions are limited to the slice length (asm_valid), Go indexing panics are failures
    eng = env.engine()
    pls = [0, 1, 15, 16, 17, 31, 32, 33, 48, 63, 64, 65, 127, 128, 129, 255, 256, 257, 271, 300, 511, 513] if not thorough else sorted(set(list(range(0, 140)) + [255, 256, 257, 271, 300, 511, 512, 513, 1023, 1025, 1100]))
    tuples = [(12, pl, al, ts) for pl in pls for (al, ts) in ((0, 16), (5, 12))] + [(nl, 17, 33, 13) for nl in (1, 11, 13, 16, 17, 129)]

    def run(e):
        out = []
        for (nl, pl, al, ts) in tuples:
            label = 'arm64 nonce=%d pt=%d aad=%d tag=%d' % (nl, pl, al, ts)
            blk, aead = gcm_objects(e, STD_KEY, nl, ts)
            bufs = {}
            for nm, ln in (('nonce', nl), ('pt', pl), ('aad', al)):
                # backing arrays longer than the slices: bytes beyond len are out of bounds for the assembly
                obj = e.new_obj([(i * 5 + 1) & 0xff for i in range(ln + 24)], 'arr')
                bufs[nm] = Slice(obj, (), 0, ln, ln + 24)
                e.asm_valid[(obj, ())] = ln
            e.asm_calls = []
            o = e.call_outcome('(*%s.sm4GcmAsm).Seal' % SM4, [aead.v, NILSLICE, bufs['nonce'], bufs['pt'], bufs['aad']])
            if o.kind != 'return':
                out.append(('a64:glue:Seal.panic', label + ': Seal panics: ' + o.panic.msg, dict(op='seal', ns=nl, ts=ts, pl=pl, al=al)))
                continue
            for rec in e.asm_calls:
                for cls, evs in classify([x for x in rec.events if x[0] != 'uninit']).items():
                    out.append(('a64:glue:%s:%s' % (rec.name, cls), '%s: %s called by Seal: %s' % (label, rec.name, evs[0][2]), dict(op='seal', ns=nl, ts=ts, pl=pl, al=al)))
            ctl = e.slice_list(o.values)
            cobj = e.new_obj(list(ctl) + [0] * 24, 'arr')
            e.asm_valid[(cobj, ())] = len(ctl)
            e.asm_calls = []
            o = e.call_outcome('(*%s.sm4GcmAsm).Open' % SM4, [aead.v, NILSLICE, bufs['nonce'], Slice(cobj, (), 0, len(ctl), len(ctl) + 24), bufs['aad']])
            if o.kind != 'return':
                out.append(('a64:glue:Open.panic', label + ': Open panics: ' + o.panic.msg, dict(op='open', ns=nl, ts=ts, pl=pl, al=al)))
                continue
            if o.values[1] is not None:
                out.append(('a64:glue:Open.reject', label + ': Open rejects the output of Seal', dict(op='open', ns=nl, ts=ts, pl=pl, al=al)))
            for rec in e.asm_calls:
                for cls, evs in classify([x for x in rec.events if x[0] != 'uninit']).items():
                    out.append(('a64:glue:%s:%s' % (rec.name, cls), '%s: %s called by Open: %s' % (label, rec.name, evs[0][2]), dict(op='open', ns=nl, ts=ts, pl=pl, al=al)))
        return out
    seen = set()
    for k, desc, w in eng.explore(run)[0]:
        if k not in seen:
            seen.add(k)
            add(k, desc, ('a64glue', w))
    ck.absorb(eng)
    ck.bounds.append('arm64: %d NEON leaf routine runs on exactly-sized regions; Seal/Open through the arm64 Go glue on %d length tuples with slices shorter than their backing arrays' % (n, len(tuples)))
    return n


# ------------------------------------------------------------------------------------------ C10 / C17
def c10(ck, env, add, thorough):
    """arm64 glue: append contract for every destination shape, inputs unchanged, second Open works"""
    note(ck)
    eng = env.engine()
    shapes = ['nil', 'empty', 'exact', 'spare-enough', 'spare-large', 'spare-short', 'zero-len-cap', 'inplace']
    pls = [0, 1, 16, 17, 64, 100, 129, 200, 271] if not thorough else [0, 1, 15, 16, 17, 33, 64, 100, 129, 200, 255, 256, 271, 300, 513]

    def dst_for(e, shape, need, pt_slice):
        pre = [0xA0 + i for i in range(5)]
        if shape == 'nil':
            return NILSLICE, []
        if shape == 'empty':
            return e.new_slice([]), []
        if shape == 'inplace':
            return Slice(pt_slice.obj, pt_slice.path, pt_slice.off, 0, pt_slice.cap), []
        if shape == 'zero-len-cap':
            o = e.new_obj([0xEE] * (need + 8), 'arr')
            return Slice(o, (), 0, 0, need + 8), []
        extra = {'exact': 0, 'spare-enough': need, 'spare-large': need + 40, 'spare-short': max(need - 1, 0)}[shape]
        o = e.new_obj(pre + [0xEE] * extra, 'arr')
        return Slice(o, (), 0, 5, 5 + extra), pre

    def run(e):
        out = []
        for pl in pls:
            for ts in (16, 12):
                for shape in shapes:
                    label = 'arm64 pt=%d tag=%d dst=%s' % (pl, ts, shape)
                    blk, aead = gcm_objects(e, STD_KEY, 12, ts)
                    nonce, aad = list(range(1, 13)), [9, 8, 7]
                    ptv = [(i * 11 + 2) & 0xff for i in range(pl)]
                    # in place: the plaintext buffer has room for the tag
                    pobj = e.new_obj(list(ptv) + [0xEE] * (ts + 4), 'arr')
                    pts = Slice(pobj, (), 0, pl, pl + ts + 4)
                    ns_, as_ = mk(e, nonce), mk(e, aad)
                    dst, pre = dst_for(e, shape, pl + ts, pts)
                    w = dict(op='seal', shape=shape, pl=pl, ts=ts)
                    o = e.call_outcome('(*%s.sm4GcmAsm).Seal' % SM4, [aead.v, dst, ns_, pts, as_])
                    if o.kind != 'return':
                        out.append(('a64:Seal.panic:' + shape, label + ': Seal panics: ' + o.panic.msg, w))
                        continue
                    res = [force(x) for x in e.slice_list(o.values)]
                    ct, tag, _ = G.seal(S.encrypt_block, STD_KEY, nonce, ptv, aad, ts)
                    if res != pre + list(ct) + list(tag):
                        out.append(('a64:Seal.append:' + shape, label + ': result is not dst followed by ciphertext||tag (length %d, expected %d)' % (len(res), len(pre) + pl + ts), w))
                        continue
                    if [force(x) for x in e.slice_list(ns_)] != nonce or [force(x) for x in e.slice_list(as_)] != aad or (shape != 'inplace' and [force(x) for x in e.slice_list(pts)] != ptv):
                        out.append(('a64:Seal.inputs', label + ': Seal modifies nonce, additional data or plaintext', w))
                    # Open with the same destination shapes
                    cobj = e.new_obj(list(ct) + list(tag) + [0xEE] * 4, 'arr')
                    cts = Slice(cobj, (), 0, pl + ts, pl + ts + 4)
                    dst2, pre2 = dst_for(e, shape, pl, cts)
                    w = dict(op='open', shape=shape, pl=pl, ts=ts)
                    o = e.call_outcome('(*%s.sm4GcmAsm).Open' % SM4, [aead.v, dst2, ns_, cts, as_])
                    if o.kind != 'return':
                        out.append(('a64:Open.panic:' + shape, label + ': Open panics: ' + o.panic.msg, w))
                        continue
                    p, err = o.values
                    if err is not None:
                        out.append(('a64:Open.reject:' + shape, label + ': Open rejects an authentic message', w))
                        continue
                    res = [force(x) for x in e.slice_list(p)]
                    if res != pre2 + ptv:
                        out.append(('a64:Open.append:' + shape, label + ': result is not dst followed by the plaintext (length %d, expected %d)' % (len(res), len(pre2) + pl), w))
                    if shape != 'inplace' and [force(x) for x in e.slice_list(cts)] != list(ct) + list(tag):
                        out.append(('a64:Open.inputs', label + ': Open modifies the ciphertext', w))
        return out
    seen = set()
    for k, desc, w in eng.explore(run)[0]:
        if k not in seen:
            seen.add(k)
            add(k, desc, ('a64glue', w))
    ck.absorb(eng)
    ck.bounds.append('arm64 Go glue: Seal/Open for plaintext lengths %s x destination shapes %s x tag 12/16 (data concrete: the glue moves bytes, values are C06/C07)' % (pls, shapes))
    return len(pls) * len(shapes) * 2


def glue_witness_test(w):
    """Go statements replaying a glue-level witness dict against the arm64 glue compiled for amd64"""
    if w.get('op') in ('seal', 'open') and 'shape' in w:
        pl, ts, shape = w['pl'], w['ts'], w['shape']
        mkdst = {'nil': 'var dst []byte', 'empty': 'dst := []byte{}', 'exact': 'dst := []byte{0xA0,0xA1,0xA2,0xA3,0xA4}',
                 'spare-enough': 'dst := append(make([]byte, 0, 5+NEED), 0xA0,0xA1,0xA2,0xA3,0xA4)', 'spare-large': 'dst := append(make([]byte, 0, 45+NEED), 0xA0,0xA1,0xA2,0xA3,0xA4)',
                 'spare-short': 'dst := append(make([]byte, 0, 5+NEED-1), 0xA0,0xA1,0xA2,0xA3,0xA4)', 'zero-len-cap': 'dst := make([]byte, 0, NEED+8)', 'inplace': 'dst := buf[:0]'}[shape]
        return '''	a := aead(12, %d)
	nonce := []byte{1,2,3,4,5,6,7,8,9,10,11,12}; aad := []byte{9,8,7}
	pt := make([]byte, %d, %d); for i := range pt { pt[i] = byte(i*11+2) }
	ref := a.Seal(nil, nonce, append([]byte{}, pt...), aad)
	{
		buf := pt; _ = buf
		%s
		pre := append([]byte{}, dst...)
		out := a.Seal(dst, nonce, pt, aad)
		if !bytes.Equal(out, append(pre, ref...)) { t.Fatalf("Seal(dst=%s): result is not dst || ciphertext || tag: got %%d bytes want %%d", len(out), len(pre)+len(ref)) }
	}
	{
		buf := append(append(make([]byte, 0, len(ref)+4), ref...)); _ = buf
		want := make([]byte, %d); for i := range want { want[i] = byte(i*11+2) }
		%s
		pre := append([]byte{}, dst...)
		out, err := a.Open(dst, nonce, buf, aad)
		if err != nil { t.Fatalf("Open(dst=%s): %%v", err) }
		if !bytes.Equal(out, append(pre, want...)) { t.Fatalf("Open(dst=%s): result is not dst || plaintext") }
	}''' % (ts, pl, pl + ts + 4, mkdst.replace('NEED', str(pl + ts)), shape, pl, mkdst.replace('NEED', str(pl)), shape, shape)
    if w.get('op') in ('seal', 'open'):
        return '''	a := aead(%d, %d)
	nonce := guarded(%d); for i := range nonce { nonce[i] = byte(i*5+1) }
	pt := guarded(%d); for i := range pt { pt[i] = byte(i*5+1) }
	aad := guarded(%d); for i := range aad { aad[i] = byte(i*5+1) }
	var ct []byte
	noFault(t, "Seal", func() { ct = a.Seal(nil, nonce, pt, aad) })
	g := guarded(len(ct)); copy(g, ct)
	noFault(t, "Open", func() {
		p, err := a.Open(nil, nonce, g, aad)
		if err != nil || !bytes.Equal(p, pt) { t.Fatalf("round trip failed: %%v", err) }
	})''' % (w['ns'], w['ts'], w['ns'], w['pl'], w['al'])
    return None


def seal_witness_test(w):
    return '''	a := aead(%d, %d)
	key2 := %s
	c2, _ := NewCipher(key2); a2, _ := c2.(gcmAble).NewGCM(%d, %d); a = a2
	got := a.Seal(nil, %s, %s, %s)
	want := %s
	if !bytes.Equal(got, want) { t.Fatalf("arm64 glue: Seal differs from SP 800-38D: got %%x want %%x", got, want) }''' % (
        w['ns'], w['ts'], go_bytes(w['key']), w['ns'], w['ts'], go_bytes(w['nonce']), go_bytes(w['pt']), go_bytes(w['aad']),
        go_bytes(sum([list(x) for x in G.seal(S.encrypt_block, w['key'], w['nonce'], w['pt'], w['aad'], w['ts'])[:2]], [])))


def report(ck, fails, prefix='a64'):
    """turn collected arm64 failures into records/violations.  Glue-level witnesses are replayed on amd64 through the
    arm64 glue compiled over portable leaves; NEON-level findings carry the interpreter's concrete evidence."""
    n = 0
    for k, fl in sorted(fails.items()):
        if not k.startswith(prefix):
            continue
        desc, wit = fl[0]
        n += 1
        if k.startswith('a64:unsupported'):
            ck.record('arm64[' + k + ']', 'inconclusive', desc)
            continue
        bodies = []
        for d_, w_ in fl:
            b_ = None
            if w_ and w_[0] == 'a64glue' and w_[1]:
                b_ = glue_witness_test(w_[1])
            elif w_ and w_[0] == 'a64seal' and w_[1]:
                b_ = seal_witness_test(w_[1])
            if b_ is not None and b_ not in [x[1] for x in bodies]:
                bodies.append((d_, b_))
        done = False
        last = ''
        for j, (d_, body) in enumerate(bodies[:6]):
            ok, out, path = glue_replay(ck, body, 'a64_' + re.sub(r'\W+', '_', k)[:40] + ('_%d' % j if j else ''))
            if ok is False:
                ck.record('arm64[' + k + ']', 'violated', d_ + ' - reproduced by running the arm64 Go glue of the current tree on amd64 over portable leaf routines: ' + (out or '')[-200:].replace('\n', ' '))
                ck.violation(k, d_, path)
                done = True
                break
            last = 'passes' if ok is True else 'could not be built: ' + (out or '')[-160:].replace('\n', ' ')
        if done:
            continue
        path = os.path.join(ck.outdir, 'a64_' + re.sub(r'\W+', '_', k)[:40] + '.txt')
        open(path, 'w').write('arm64 finding (no arm64 host: evidence from the symbolic execution of the arm64 go/ssa and the arm64 listing, engine/arm64sym.py)\n%s\n%s\n%s\n' % (
            k, '\n'.join(d for d, _ in fl[:10]), ('the arm64 Go glue compiled for amd64 over portable leaf routines ' + last + ': the defect lies in a NEON leaf routine or in its use') if bodies else ''))
        ck.record('arm64[' + k + ']', 'violated', desc + (' (from the arm64 listing / arm64 go/ssa of the current tree; no arm64 host to execute a replay on' + ('; the glue over portable leaves %s' % last if bodies else '') + ')'))
        ck.violation(k, desc, path)
    return n
