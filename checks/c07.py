#!/usr/bin/env python3
# C07 - SM4-GCM: Open releases plaintext only for an authentic message.  DESIGN.md section 3/C07.
import time, os, re, random
from sm4lib import *


def main():
    ck = Check('C07')
    thorough = ck.tier == 'thorough'
    L = load_listing()
    prog = dump_ssa('c07')
    m = Machine(L)
    rng = ck.rng
    keys = KEYS + [[rng.randrange(256) for _ in range(16)] for _ in range(3 if thorough else 1)]
    rks = [rk_bytes(round_keys(k)) for k in keys]
    pls = [0, 1, 15, 16, 17, 31, 33, 63, 64, 65, 127, 129, 255, 257, 271, 513, 1100] if not thorough else sorted(set(list(range(0, 100)) + [127, 128, 129, 255, 256, 257, 271, 511, 513, 1023, 1025, 1100]))
    als = sorted(set(list(range(0, 70)) + [127, 128, 129, 133, 191, 192, 193, 255, 256, 257, 271, 1100]))
    tuples = sorted(set([(12, pl, al, ts) for pl in pls for al in (0, 5) for ts in (12, 16)] + [(nl, pl, 17, ts) for nl in (1, 13, 16, 129) for pl in (0, 17, 271) for ts in (12, 14, 16)] +
                        [(12, pl, al, ts) for al in (als if thorough else [1, 15, 16, 31, 33, 63, 64, 65, 127, 128, 129, 133, 191, 193, 257, 271]) for (pl, ts) in ((0, 16), (37, 13))]))
    ck.bounds.append('openAsm / Open: %d length tuples (plaintext 0..%d, aad 0..271 in 17 classes, tag 12..16, nonce 1..129), keys {sample, 0, 1s, seeded}; authentic messages = sealed by the specification with up to 3+2 symbolic data bytes; received tag fully symbolic for the verdict; all ciphertext/aad bits symbolic for the bit-flip claim on short messages' % (len(tuples), pls[-1]))
    ck.outside.append('keys are concrete (see C06); forgeries that collide on the tag are not excluded (GCM security, not a code property); nonce bit flips (the initial counter passes through SM4, not linear)')
    fails = {}
    t0 = time.time()

    def add(k, desc, case=None):
        fails.setdefault(k, []).append((desc, case))

    for idx, (nl, pl, al, ts) in enumerate(tuples):
        ki = idx % len(keys)
        key = keys[ki]
        asmsym.aff_reset()
        r2 = random.Random(ck.seed * 104729 + idx)
        nonce = [r2.randrange(256) for _ in range(nl)]
        pt, _ = aff_data(r2, 'p', pl, 3)
        aad, _ = aff_data(r2, 'a', al, 2)
        ct, tag, _ = G.seal(S.encrypt_block, key, nonce, pt, aad, ts)
        label = 'nonce=%d pt=%d aad=%d tag=%d' % (nl, pl, al, ts)
        # (1) authentic message: accepted, plaintext recovered, nothing else written
        m.reset()
        conds = []
        m.branch_oracle = lambda pc, cond: (conds.append(cond) or False)
        m.run('openAsm', open_args(m, key, nonce, ct + tag, aad, ts, rk=rks[ki]))
        ck.states += 1
        if conds:
            # the verdict did not fold to a constant: ask the solver whether a mismatch is possible
            s = z3.Solver()
            s.set('timeout', 30000)
            r = s.check(conds[0])
            ck.queries += 1
            if r != z3.unsat:
                add('reject-authentic', '%s: the tag of an authentic message can be judged wrong (%s)' % (label, r), dict(key=key, nonce=nonce, pt=concretize(pt, s.model() if r == z3.sat else None), aad=concretize(aad, s.model() if r == z3.sat else None), ts=ts))
                continue
        if m.ret.get(104) != 1:
            add('reject-authentic', '%s: authentic message rejected' % label, dict(key=key, nonce=nonce, pt=concretize(pt, None), aad=concretize(aad, None), ts=ts))
            continue
        if pl:
            q = cells_differ_query(m.regions['dst'].cells, pt)
            s = z3.Solver()
            s.set('timeout', 30000)
            t1 = time.time()
            r = s.check(q) if q is not None else z3.unsat
            ck.queries += 1
            ck.solver_s += time.time() - t1
            if r != z3.unsat:
                add('wrong-plaintext', '%s: Open returns something else than the plaintext (%s)' % (label, r), dict(key=key, nonce=nonce, pt=concretize(pt, s.model() if r == z3.sat else None), aad=concretize(aad, None), ts=ts))
        wr = set(w[0] for w in m.writes)
        if wr - {'dst', 'temp'}:
            add('writes', '%s: openAsm writes to %s' % (label, sorted(wr - {'dst', 'temp'})), None)
        if m.events:
            add('events', label + ': ' + str(m.events[0]), None)
        # (2) arbitrary received tag: the verdict branch is exactly the comparison with the standard's tag, and a
        # rejected message leaves dst untouched
        cct = concretize(ct, None)
        caad = concretize(aad, None)
        _, ctag, _ = G.seal(S.encrypt_block, key, nonce, concretize(pt, None), caad, ts)
        recv = [z3.BitVec('t%d' % i, 8) for i in range(ts)]
        m.reset()
        conds = []
        m.branch_oracle = lambda pc, cond: (conds.append(cond) or True)   # follow the mismatch direction
        m.run('openAsm', open_args(m, key, nonce, cct + recv, caad, ts, rk=rks[ki]))
        ck.states += 1
        if len(conds) != 1:
            add('verdict-shape', '%s: %d data-dependent branches in openAsm' % (label, len(conds)), None)
        else:
            spec = z3.Or(*[recv[i] != ctag[i] for i in range(ts)])
            s = z3.Solver()
            s.set('timeout', 30000)
            t1 = time.time()
            r = s.check(conds[0] != spec)
            ck.queries += 1
            ck.solver_s += time.time() - t1
            if r != z3.unsat:
                mdl = s.model() if r == z3.sat else None
                add('verdict', '%s: accept/reject differs from "received tag == first %d bytes of the standard tag" (%s)' % (label, ts, r),
                    dict(key=key, nonce=nonce, ct=cct + [mdl.eval(t, model_completion=True).as_long() if mdl else 0 for t in recv], aad=caad, ts=ts, forged=True))
        if m.ret.get(104) != 0 or any(w[0] == 'dst' for w in m.writes):
            add('release-on-reject', '%s: plaintext bytes are stored (or 1 returned) on the reject path' % label, None)
    ck.transitions += m.steps

    # (3) every single-bit change of ciphertext or aad changes the expected tag: the expected tag as an affine form of
    # ALL ciphertext and aad bits must have a non-zero column (within the compared tag bytes) for every input bit
    for (pl, al, ts) in ([(17, 5, 12), (33, 0, 16), (48, 20, 13)] if not thorough else [(1, 0, 12), (16, 0, 16), (17, 5, 12), (33, 0, 16), (48, 20, 13), (64, 16, 16), (100, 33, 12)]):
        asmsym.aff_reset()
        key = STD_KEY
        nonce = list(range(12))
        ctb = [asmsym.Aff.byte('c_%d' % i) for i in range(pl)]
        adb = [asmsym.Aff.byte('a_%d' % i) for i in range(al)]
        m.reset()
        m.branch_oracle = lambda pc, cond: True
        m.run('openAsm', open_args(m, key, nonce, ctb + [0] * ts, adb, ts))
        ck.states += 1
        etag = m.regions['temp'].cells[16:16 + ts]     # expected tag as left by the routine
        spec_tag = G.seal(S.encrypt_block, key, nonce, [0] * 0, [], ts)   # unused, layout check only
        nbits = len(asmsym.AFFKEYS)
        dead = []
        for j in range(nbits):
            if not any(isinstance(c, asmsym.Aff) and j + 1 < len(c.v) and c.v[j + 1] for c in etag):
                dead.append(asmsym.AFFKEYS[j])
        # solver confirmation on the bits with the sparsest columns (one query per bit: flipping only that bit with all
        # other inputs arbitrary must change some compared tag byte)
        r = z3.unsat
        weights = sorted(range(nbits), key=lambda j: sum(bin(c.v[j + 1]).count('1') for c in etag if isinstance(c, asmsym.Aff) and j + 1 < len(c.v)))
        base = [asmsym.bv(c, 8) for c in etag]
        for j in weights[:6]:
            name, bit = asmsym.AFFKEYS[j]
            flipped = [z3.substitute(t, (asmsym.bitvar(name), asmsym.bitvar(name) ^ (1 << bit))) for t in base]
            diff = [z3.simplify(a_ ^ b_) for a_, b_ in zip(base, flipped)]
            if any(z3.is_bv_value(d_) and d_.as_long() != 0 for d_ in diff):
                continue
            s = z3.Solver()
            s.set('timeout', 10000)
            t1 = time.time()
            rr = s.check(z3.And(*[d_ == 0 for d_ in diff]))
            ck.queries += 1
            ck.solver_s += time.time() - t1
            if rr == z3.sat:
                r = z3.sat
                dead.append((name, bit))
        if dead or r == z3.sat:
            add('bitflip', 'ct=%d aad=%d tag=%d: flipping %s leaves the expected tag unchanged (%s)' % (pl, al, ts, dead[:3], r), None)

    # (4) the Go method: short ciphertexts, wrong nonce length, error value and nil plaintext on reject
    eng = new_engine(prog, cando_asm=True)
    asmbridge.install(eng, L)
    eng.asm_branch_oracle = lambda e, fn, pc, cond: True      # forged tag: mismatch direction
    gbad = []

    def run_glue(e):
        blk, _ = e.call(SM4 + '.NewCipher', [e.new_slice(STD_KEY)])
        for ts in (12, 16):
            aead, _ = e.call('(*%s.sm4CipherAsm).NewGCM' % SM4, [blk.v, 12, ts])
            for cl in range(0, ts):
                n0 = len(e.asm_calls)
                out = e.call_outcome('(*%s.sm4GcmAsm).Open' % SM4, [aead.v, NILSLICE, e.new_slice(list(range(12))), e.new_slice([1] * cl) if cl else NILSLICE, NILSLICE])
                if out.kind == 'panic' or out.values[1] is None or out.values[0].obj is not None or len(e.asm_calls) != n0:
                    gbad.append(('ciphertext of %d bytes (tag %d) is not refused with an error before touching memory' % (cl, ts), cl, ts))
            for pl in (0, 5, 33):
                dobj = e.new_slice([0x55] * (pl + 8))
                dst = Slice(dobj.obj, (), 0, 2, pl + 8)
                ct = [z3.BitVec('f%d' % i, 8) for i in range(pl + ts)]
                out = e.call_outcome('(*%s.sm4GcmAsm).Open' % SM4, [aead.v, dst, e.new_slice(list(range(12))), e.new_slice(ct), e.new_slice([9])])
                if out.kind == 'panic':
                    gbad.append(('Open panics on a forged message: ' + out.panic.msg, pl + ts, ts))
                elif out.values[1] is None or out.values[0].obj is not None:
                    gbad.append(('Open returns data or no error for a rejected message (plaintext length %d, tag %d)' % (pl, ts), pl + ts, ts))
                elif e.heap[dobj.obj][0] != [0x55] * (pl + 8):
                    gbad.append(('Open writes into dst although the message is rejected', pl + ts, ts))
            out = e.call_outcome('(*%s.sm4GcmAsm).Open' % SM4, [aead.v, NILSLICE, e.new_slice([1] * 13), e.new_slice([1] * 40), NILSLICE])
            if out.kind != 'panic':
                gbad.append('Open accepts a nonce of the wrong length')
    eng.explore(run_glue)
    ck.absorb(eng)
    for g in sorted(set(gbad), key=str):
        if isinstance(g, tuple):
            add('glue', g[0], dict(key=STD_KEY, nonce=list(range(12)), ct=[1] * g[1], aad=[9], ts=g[2], forged=True))
        else:
            add('glue', g, dict(key=STD_KEY, nonce=list(range(12)), ct=[1] * 5, aad=[], ts=16, forged=True))
    secs = time.time() - t0

    # ------------------------------------------------------------ replay on the real build
    def replay(cases, name):
        rows = []
        for c in cases:
            if c.get('forged'):
                want = G.open_(S.encrypt_block, c['key'], c['nonce'], c['ct'], c['aad'], c['ts'])
                ctx = c['ct']
            else:
                ct, tag, _ = G.seal(S.encrypt_block, c['key'], c['nonce'], c['pt'], c['aad'], c['ts'])
                ctx = ct + tag
                want = c['pt']
            rows.append('{%s,%s,%s,%s,%d,%s,%s},' % (go_bytes(c['key']), go_bytes(c['nonce']), go_bytes(ctx), go_bytes(c['aad']), c['ts'], 'true' if want is not None else 'false', go_bytes(want or [])))
        src = '''package sm4
import ("testing"; "bytes")
func TestVerifReplay(t *testing.T) {
	cases := []struct{ key, nonce, ct, aad []byte; ts int; ok bool; pt []byte }{
%s
	}
	for i, c := range cases {
		b, _ := NewCipher(c.key)
		a, _ := b.(gcmAble).NewGCM(len(c.nonce), c.ts)
		func() {
			defer func() { if x := recover(); x != nil { t.Fatalf("case %%d: panic %%v", i, x) } }()
			p, err := a.Open(nil, c.nonce, append([]byte{}, c.ct...), c.aad)
			if c.ok && (err != nil || !bytes.Equal(p, c.pt)) { t.Fatalf("case %%d: authentic message not opened (err=%%v)", i, err) }
			if !c.ok && (err == nil || p != nil) { t.Fatalf("case %%d: forged message accepted / plaintext released", i) }
		}()
	}
}''' % '\n'.join(rows)
        return ck.go_test('sm4', src, name=name)

    for k, fl in sorted(fails.items()):
        cases = [c for _, c in fl if c][:6]
        desc = '%s (%d failing cases)' % (fl[0][0], len(fl))
        if not cases:
            ck.record('open[' + k + ']', 'violated' if k in ('release-on-reject', 'writes', 'bitflip') else 'inconclusive', desc)
            if k in ('release-on-reject', 'writes'):
                ck.violation('open:' + k, desc, os.path.join(REPO, 'sm4', 'gcm_amd64.s'))
            continue
        ok, out, path = replay(cases, 'open_' + k.replace('-', '_'))
        if ok is False:
            ck.record('open[' + k + ']', 'violated', desc)
            ck.violation('open:' + k, desc, path)
        else:
            ck.encoder_mismatch('open[' + k + ']', desc + ' :: ' + (out or '')[-200:])
    # validation traces: forged and authentic concrete messages on the real build
    v = []
    for (nl, pl, al, ts) in [(12, 33, 5, 12), (13, 271, 0, 16), (12, 0, 3, 14)]:
        key = keys[-1]
        nonce = [rng.randrange(256) for _ in range(nl)]
        ptc = [rng.randrange(256) for _ in range(pl)]
        aadc = [rng.randrange(256) for _ in range(al)]
        v.append(dict(key=key, nonce=nonce, pt=ptc, aad=aadc, ts=ts))
        ct, tag, _ = G.seal(S.encrypt_block, key, nonce, ptc, aadc, ts)
        bad = ct + tag
        bad[rng.randrange(len(bad))] ^= 1 << rng.randrange(8)
        v.append(dict(key=key, nonce=nonce, ct=bad, aad=aadc, ts=ts, forged=True))
        v.append(dict(key=key, nonce=nonce, ct=(ct + tag)[:-1], aad=aadc, ts=ts, forged=True))
        v.append(dict(key=key, nonce=nonce, ct=ct + tag + [0], aad=aadc, ts=ts, forged=True))
    ok, out, path = replay(v, 'validate')
    if ok is True:
        ck.validated += len(v)
    elif ok is False and not fails:
        ck.record('reference_replay', 'violated', 'real Open misjudges concrete authentic/forged messages: ' + (out or '')[-300:].replace('\n', ' '))
        ck.violation('open:reference', 'real Open misjudges concrete authentic / forged / truncated / extended messages', path)
    if not fails:
        ck.record('open_authentic_only', 'proved', '%d symbolic runs, %d solver queries: authentic messages are accepted and decrypt to the plaintext; for an arbitrary received tag the verdict is exactly equality with the standard tag over tagSize bytes; nothing is stored to dst on reject; every single-bit change of ciphertext/aad changes the expected tag; short ciphertexts are refused before any memory access' % (ck.states, ck.queries),
                  ck.bounds[0], secs, sample=dict(nonce=12, ct=33 + 12, aad=5, tag=12, claim='openAsm returns 1 <=> received tag == SP800-38D tag[:12]; dst written only then'))
    # ------------------------------------------------------------ arm64: Go glue (go/ssa GOARCH=arm64) + NEON leaf routines (arm64 listing)
    import arm64lib
    a64fails = {}
    t_a64 = time.time()
    try:
        a64env = arm64lib.Env('c07')
        n_a64 = arm64lib.c07(ck, a64env, lambda k, d, w=None: a64fails.setdefault(k, []).append((d, w)), thorough, KEYS)
    except (asmsym.AsmUnsupported, Unsupported, RuntimeError) as ex:
        n_a64 = 0
        a64fails.setdefault('a64:unsupported', []).append(('arm64 part not completed: %s' % ex, None))
    if not arm64lib.report(ck, a64fails):
        ck.record('arm64', 'proved', 'arm64 Open accepts exactly the SP 800-38D tag (received tag fully symbolic), returns the sealed plaintext, (nil, error) otherwise (%d cases)' % n_a64, secs=time.time() - t_a64)
    ck.finish()


if __name__ == '__main__':
    guarded_main('C07', main)
