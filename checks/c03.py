#!/usr/bin/env python3
# C03 - SM2 verification accepts exactly the signatures the standard accepts.  DESIGN.md section 3/C03.
import time, os
from sm2lib import *

VH = SM2 + '.VerifyHashed'


def main():
    ck = Check('C03')
    prog = dump_ssa('c03')
    thorough = ck.tier == 'thorough'
    ck.assumptions += sm2model.CONTRACTS
    ck.bounds.append('VerifyHashed: all five arguments 32 bytes with symbolic contents (every value of pubx,puby,e,r,s); plus every argument in turn with length %s' % ([0, 1, 31, 33] if not thorough else [0, 1, 2, 16, 31, 33, 34, 64]))
    ck.outside.append('argument lengths other than those listed (the code only compares each length with 32)')
    eng = proto_engine(prog)
    fails = {}
    unknown = []
    npaths = 0
    t0 = time.time()

    def run(e):
        px, pxs = int_input(e, 'px', 32)
        py, pys = int_input(e, 'py', 32)
        ev, es = int_input(e, 'e', 32)
        r, rs = int_input(e, 'r', 32)
        s, ss = int_input(e, 's', 32)
        out = e.call_outcome(VH, [pxs, pys, es, rs, ss])
        info = dict(px=px, py=py, e=ev, r=r, s=s)
        res = []

        def witness(extra):
            """concrete inputs on this path violating the claim: the key is pinned to a real point [d]G, the curve
            functions take their true values (refinement loop), the solver completes e, r, s"""
            uu = None
            for ent in e.sm2_log:
                if ent[0] == 'decode':
                    uu = ent[3]
            for attempt in range(3):
                dv = ck.rng.randrange(1, N - 1)
                pub = ref.mul(dv)
                pins = [(px, pub[0]), (py, pub[1])] + ([(uu, dv)] if uu is not None else [])
                m = solve_with_truth(e, pins, extra, timeout=10000)
                if m is not None:
                    return dict(px=pub[0], py=pub[1], e=mval(m, ev), r=mval(m, r), s=mval(m, s))
            return None
        if out.kind == 'panic':
            if e.prove_i(False)[0] != 'proved':
                info['wit'] = witness([])
                res.append(('panic', 'VerifyHashed panics: %s at %s' % (out.panic.msg, out.panic.pos), info))
            return res
        okv, err = out.values
        # the standard's predicate, over the same abstract group
        u = None
        for ent in e.sm2_log:
            if ent[0] == 'decode':
                u = ent[3]
        t = e.int_mod(r + s, N)
        base = [r >= 1, r <= N - 1, s >= 1, s <= N - 1, t != 0, px < P, py < P, OnCurve(px, py)]
        if u is not None:
            dl2 = e.int_mod(s + t * u, N)
            sm2model.reg_point(e, dl2)
            spec = z3.And(*(base + [dl2 != 0, e.int_mod(ev + X(dl2), N) == r]))
        else:
            spec = None   # rejected before the key was decoded: one of the base conditions must fail
        if isinstance(okv, bool) and not okv:
            claim = z3.Not(z3.And(*base)) if spec is None else z3.Not(spec)
            v = e.prove_i(claim)
            if v[0] == 'cex':
                info['wit'] = witness([z3.Not(claim)])
                res.append(('reject-valid', 'a signature the standard accepts is rejected (%s)' % (err.v.msg if err else 'false'), info))
            elif v[0] != 'proved':
                unknown.append('reject-valid')
            return res
        if spec is None:
            res.append(('accept-undecoded', 'accepts without decoding the public key', info))
            return res
        # okv is True or symbolic: acceptance must imply the standard's predicate, rejection its negation
        acc = okv if not isinstance(okv, bool) else z3.BoolVal(True)
        for name, cond in (('r,s range', z3.And(*base[:4])), ('t != 0', base[4]), ('key canonical and on curve', z3.And(*base[5:])),
                           ('R finite', dl2 != 0), ('(e+x1) mod n == r', e.int_mod(ev + X(dl2), N) == r)):
            v = e.prove_i(z3.Implies(acc, cond))
            if v[0] == 'cex':
                info = dict(info)
                info['wit'] = witness([acc, z3.Not(cond)])
                res.append(('accept-invalid:' + name, 'accepts although the standard rejects: condition "%s" can fail' % name, info))
            elif v[0] != 'proved':
                unknown.append('accept-invalid:' + name)
        v = e.prove_i(z3.Implies(spec, acc))
        if v[0] == 'cex':
            info = dict(info)
            info['wit'] = witness([spec, z3.Not(acc)])
            res.append(('reject-valid', 'a signature the standard accepts is rejected (final comparison)', info))
        elif v[0] != 'proved':
            unknown.append('reject-valid')
        if err is not None:
            res.append(('accept-with-error', 'true returned together with an error', info))
        return res
    for r in eng.explore(run):
        npaths += 1
        for f in r:
            fails.setdefault(f[0], []).append(f)
    ck.absorb(eng)

    # ---------------------------------------------------------------- wrong lengths: false + error, no panic
    eng = proto_engine(prog)
    lens = [0, 1, 31, 33] if not thorough else [0, 1, 2, 16, 31, 33, 34, 64]
    nlen = 0
    for pos in range(5):
        for L in lens:
            def run_len(e, pos=pos, L=L):
                args = []
                for i in range(5):
                    n_ = L if i == pos else 32
                    args.append(e.new_slice(sym_bytes(e, 'a%d' % i, n_)) if n_ else (NILSLICE if i % 2 else e.new_slice([])))
                out = e.call_outcome(VH, args)
                if out.kind == 'panic':
                    return ('len-panic', 'panics for argument %d of length %d: %s' % (pos, L, out.panic.msg), dict(pos=pos, L=L))
                okv, err = out.values
                if okv is not False or err is None:
                    return ('len-accept', 'argument %d of length %d is not refused with an error' % (pos, L), dict(pos=pos, L=L))
                return None
            for r in eng.explore(run_len):
                nlen += 1
                if r:
                    fails.setdefault(r[0], []).append(r)
    ck.absorb(eng)
    secs = time.time() - t0

    # ---------------------------------------------------------------- solved witness families, replayed on the real build
    # each family satisfies the verification equation and violates exactly one side condition; the real code must say false
    fam = []
    rng = ck.rng
    for i in range(3 if not thorough else 10):
        d = rng.randrange(1, N - 1)
        pub = ref.mul(d)
        e_ = rng.getrandbits(256)
        k = rng.randrange(1, N)
        r_, s_ = ref.sign_k(d, e_, k)
        fam.append(('valid', pub, e_, r_, s_, True))
        fam.append(('r+n (non canonical r)', pub, e_, r_ + N if r_ + N < 2 ** 256 else r_, s_, r_ + N >= 2 ** 256))
        fam.append(('s+n', pub, e_, r_, s_ + N if s_ + N < 2 ** 256 else s_, s_ + N >= 2 ** 256))
        # point at infinity: s + t d = 0 (mod n) with r = e mod n  (the k = 0 "signature")
        r0 = e_ % N
        if r0 != 0:
            s0 = (-r0 * d) * pow(1 + d, -1, N) % N
            if s0 != 0 and (r0 + s0) % N != 0:
                fam.append(('R at infinity', pub, e_, r0, s0, False))
        # r + s = n
        fam.append(('r+s=n', pub, e_, r_, (N - r_) % N, False))
        fam.append(('r=0', pub, e_, 0, s_, False))
        fam.append(('s=0', pub, e_, r_, 0, False))
        fam.append(('off-curve key', (pub[0], (pub[1] + 1) % P), e_, r_, s_, False))
        fam.append(('key x+p', (pub[0] + P, pub[1]) if pub[0] + P < 2 ** 256 else pub, e_, r_, s_, pub[0] + P >= 2 ** 256))
        fam.append(('negated key', (pub[0], P - pub[1]), e_, r_, s_, False))
        for bit in (0, 7, 255):
            fam.append(('bit flip r', pub, e_, r_ ^ (1 << bit), s_, ref.verify(pub[0], pub[1], e_, r_ ^ (1 << bit), s_)))
            fam.append(('bit flip s', pub, e_, r_, s_ ^ (1 << bit), ref.verify(pub[0], pub[1], e_, r_, s_ ^ (1 << bit))))
            fam.append(('bit flip e', pub, e_ ^ (1 << bit), r_, s_, ref.verify(pub[0], pub[1], e_ ^ (1 << bit), r_, s_)))
    # keys whose x coordinate lies in [n, p-1] (canonical field elements above the group order; 2^-128 of all keys): a valid
    # (e, r, s) is built without the private key from R = [s]G + [t]P, r = t - s, e = r - x(R)
    xs = N
    big_keys = []
    while len(big_keys) < 2 and xs < P:
        rhs = (xs ** 3 - 3 * xs + ref.B) % P
        ys = pow(rhs, (P + 1) // 4, P)
        if ys * ys % P == rhs:
            big_keys.append((xs, ys))
        xs += 1
    for Pk in big_keys:
        s_ = rng.randrange(1, N)
        t_ = rng.randrange(1, N)
        R_ = ref.add(ref.mul(s_), ref.mul(t_, Pk))
        r_ = (t_ - s_) % N
        if R_ is None or r_ == 0:
            continue
        e_ = (r_ - R_[0]) % N
        fam.append(('key x in [n,p)', Pk, e_, r_, s_, True))
    # extreme scalars in the double multiplication R = [s]G + [t]P (taken by contract from C14 in the symbolic part): valid
    # (e, r, s) built from the verification equation with t or s tiny, sparse, or next to n; the standard accepts all of them
    dsp = rng.randrange(1, N - 1)
    Psp = ref.mul(dsp)
    specials = [1, 2, 3, 5, 17, 255, 4097, 16383, 1 << 14, 1 << 15, (1 << 28) + 1, 1 << 128, 1 << 255, N - 1, N - 2, N - 3]
    for which in ('t', 's'):
        for sv_ in specials:
            other = rng.randrange(1, N)
            t_, s_ = (sv_, other) if which == 't' else (other, sv_)
            R_ = ref.add(ref.mul(s_), ref.mul(t_, Psp))
            r_ = (t_ - s_) % N
            if R_ is None or r_ == 0 or not (1 <= s_ < N):
                continue
            e_ = (r_ - R_[0]) % N
            fam.append(('special %s = %s' % (which, hex(sv_) if sv_ < (1 << 40) else 'large'), Psp, e_, r_, s_, True))
    # verification points whose affine x lies in [n, p-1] (2^-128 of all points): (e + x1) mod n must be formed with x1 reduced;
    # R is chosen first and the key solved from R = [s]G + [t]P
    xs = N
    bigR = []
    while len(bigR) < 2 and xs < P:
        rhs = (xs ** 3 - 3 * xs + ref.B) % P
        ys = pow(rhs, (P + 1) // 4, P)
        if ys * ys % P == rhs:
            bigR.append((xs, ys))
        xs += 1
    for R_ in bigR:
        s_ = rng.randrange(1, N)
        t_ = rng.randrange(1, N)
        Pk = ref.mul(pow(t_, -1, N), ref.add(R_, ref.neg(ref.mul(s_))))
        r_ = (t_ - s_) % N
        if Pk is None or r_ == 0:
            continue
        e_ = (r_ - R_[0]) % N
        fam.append(('R.x in [n,p)', Pk, e_, r_, s_, True))
        fam.append(('R.x in [n,p), r flipped', Pk, e_, r_ ^ 1, s_, None))
    rows = []
    for name, pub, e_, r_, s_, want in fam:
        want = ref.verify(pub[0], pub[1], e_, r_, s_) if want is None else want
        rows.append('{"%s", %s, %s, %s, %s, %s, %s},' % (name, go_bytes(b32(pub[0])), go_bytes(b32(pub[1])), go_bytes(b32(e_)), go_bytes(b32(r_)), go_bytes(b32(s_)), 'true' if want else 'false'))
    src = '''package sm2
import "testing"
func TestVerifReplay(t *testing.T) {
	cases := []struct{ name string; px, py, e, r, s []byte; want bool }{
%s
	}
	for i, c := range cases {
		func() {
			defer func() { if x := recover(); x != nil { t.Errorf("case %%d (%%s): panic %%v", i, c.name, x) } }()
			ok, _ := VerifyHashed(c.px, c.py, c.e, c.r, c.s)
			if ok != c.want { t.Errorf("case %%d (%%s): VerifyHashed = %%v, standard says %%v", i, c.name, ok, c.want) }
		}()
	}
}''' % '\n'.join(rows)
    ok, out, fam_path = ck.go_test('sm2', src, name='families')
    fam_bad = []
    if ok is True:
        ck.validated += len(fam)
    elif ok is False:
        import re
        fam_bad = sorted(set(re.findall(r'case \d+ \(([^)]*)\)', out)))

    # ---------------------------------------------------------------- the decoding contract used above, discharged on the real code
    okd, ddetail, dwit = setbytes_obligation(prog, ck, 'SM2Element', P, 'sm2')
    if okd is True:
        ck.record('coordinate_decoding', 'proved', ddetail + ' (real fiat.SM2Element.SetBytes, all 2^256 strings)')
    elif okd == 'cex' and fam_bad:
        ck.record('coordinate_decoding', 'violated', ddetail + '; confirmed on the real build by the families %s' % fam_bad)
        ck.violation('coordinate-decoding', 'public-key coordinates are not decoded as "canonical value below p": ' + ddetail, fam_path)
    elif okd == 'cex':
        # no fixed family hit the misjudged region: build keys around the solver's witness string (an on-curve x at or just
        # above it) together with a valid (e, r, s) constructed without the private key, and ask the real build
        wv = int.from_bytes(bytes(dwit), 'big') if dwit is not None else None
        wrows = []
        if wv is not None:
            xs, found = wv, 0
            while found < 3 and xs < 2 ** 256 and xs - wv < 4000:
                xr = xs % P
                rhs = (xr ** 3 - 3 * xr + ref.B) % P
                ys = pow(rhs, (P + 1) // 4, P)
                if ys * ys % P == rhs:
                    s_ = rng.randrange(1, N)
                    t_ = rng.randrange(1, N)
                    R_ = ref.add(ref.mul(s_), ref.mul(t_, (xr, ys)))
                    r_ = (t_ - s_) % N
                    if R_ is not None and r_ != 0:
                        e_ = (r_ - R_[0]) % N
                        wrows.append('{"key x = solver witness + %d", %s, %s, %s, %s, %s, %s},' % (xs - wv, go_bytes(b32(xs)), go_bytes(b32(ys)), go_bytes(b32(e_)), go_bytes(b32(r_)), go_bytes(b32(s_)), 'true' if xs < P else 'false'))
                        found += 1
                xs += 1
        okw = None
        if wrows:
            srcw2 = src[:src.index('cases := []struct')] + 'cases := []struct{ name string; px, py, e, r, s []byte; want bool }{\n' + '\n'.join(wrows) + '\n\t}' + src[src.index('\n\tfor i, c := range cases'):]
            okw, outw, pathw = ck.go_test('sm2', srcw2, name='decoding_witness')
        if okw is False:
            ck.record('coordinate_decoding', 'violated', ddetail + '; a key built at the solver witness is judged wrongly by the real build: ' + (outw or '')[-200:].replace('\n', ' '))
            ck.violation('coordinate-decoding', 'public-key coordinates are not decoded as "canonical value below p": ' + ddetail, pathw)
        else:
            ck.encoder_mismatch('coordinate_decoding', ddetail)
    else:
        ck.record('coordinate_decoding', 'inconclusive', ddetail)

    # ---------------------------------------------------------------- verdicts
    for key, fl in sorted(fails.items()):
        f = fl[0]
        if key.startswith('len-'):
            info = f[2]
            args = ['make([]byte, %d)' % (info['L'] if i == info['pos'] else 32) for i in range(5)]
            src2 = '''package sm2
import "testing"
func TestVerifReplay(t *testing.T) {
	ok, err := VerifyHashed(%s)
	if ok || err == nil { t.Fatalf("wrong-length argument accepted: ok=%%v err=%%v", ok, err) }
}''' % ', '.join(args)
            ok2, out2, p2 = ck.go_test('sm2', src2, name='len')
            if ok2 is False:
                ck.record('verify[' + key + ']', 'violated', f[1])
                ck.violation(key, f[1], p2)
            else:
                ck.encoder_mismatch('verify[' + key + ']', (out2 or '')[-200:])
            continue
        # algebraic failures: confirmed by the solved families above
        related = {'accept-invalid:R finite': 'R at infinity', 'accept-invalid:t != 0': 'r+s=n', 'accept-invalid:r,s range': 'r=0',
                   'accept-invalid:key canonical and on curve': 'off-curve key', 'panic': None}
        fname = related.get(key)
        confirmed = [b for b in fam_bad if fname is None or b == fname or key in ('reject-valid', 'accept-invalid:(e+x1) mod n == r', 'panic')]
        wits = [x[2]['wit'] for x in fl if x[2].get('wit')]
        if wits:
            w = wits[0]
            want = ref.verify(w['px'], w['py'], w['e'], w['r'], w['s'])
            srcw = '''package sm2
import "testing"
func TestVerifReplay(t *testing.T) {
	ok, _ := VerifyHashed(%s, %s, %s, %s, %s)
	if ok != %s { t.Fatalf("VerifyHashed = %%v, the standard says %s", ok) }
}''' % (go_bytes(b32(w['px'])), go_bytes(b32(w['py'])), go_bytes(b32(w['e'])), go_bytes(b32(w['r'])), go_bytes(b32(w['s'])), 'true' if want else 'false', want)
            okw, outw, pw = ck.go_test('sm2', srcw, name='wit_' + ''.join(ch if ch.isalnum() else '_' for ch in key))
            if okw is False:
                ck.record('verify[' + key + ']', 'violated', '%s; solver-constructed input reproduced on the real build' % f[1], sample=dict(key=key, **{k_: hex(v_) for k_, v_ in w.items()}))
                ck.violation(key, f[1], pw)
                continue
        if confirmed:
            ck.record('verify[' + key + ']', 'violated', '%s; confirmed on the real build by solved family %s' % (f[1], confirmed), sample=dict(key=key, families=confirmed))
            ck.violation(key, f[1], fam_path)
        else:
            ck.record('verify[' + key + ']', 'inconclusive', '%s: symbolic counterexample in the abstract group, not reproduced by the solved families' % f[1])
    if fam_bad and not any(k for k in fails if not k.startswith('len-')):
        ck.record('families', 'violated', 'solved families mis-judged by the real build: %s' % fam_bad)
        ck.violation('family:' + ','.join(fam_bad), 'real build disagrees with the standard on solved families %s' % fam_bad, fam_path)
    if unknown:
        ck.record('verify_unknown', 'inconclusive', 'solver unknown on claims %s' % sorted(set(unknown)))
    if not fails and not unknown:
        ck.record('verify_exact', 'proved', '%d paths: accept <=> (r,s in [1,n-1], t != 0, key canonical on curve, R finite, (e+x1) mod n == r); %d wrong-length runs refused with error; no panic path feasible' % (npaths, nlen),
                  ck.bounds[0], secs, sample=dict(obligation='verify_exact', claim='forall px,py,e,r,s in {0..255}^32: VerifyHashed == standard predicate'))
    if not fam_bad and ok is True:
        ck.record('families', 'proved', '%d solved inputs (valid, r/s +n, r+s=n, r=0, s=0, infinity, off-curve, non-canonical, negated key, bit flips) judged as the standard demands by the real build' % len(fam))
    ck.extra['paths'] = npaths
    ck.finish()


if __name__ == '__main__':
    guarded_main('C03', main)
