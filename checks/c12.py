#!/usr/bin/env python3
# C12 - SM2 keys: generated and accepted keys are exactly the valid ones.  DESIGN.md section 3/C12.
import time, os
from sm2lib import *

B = ref.B


def main():
    ck = Check('C12')
    prog = dump_ssa('c12')
    thorough = ck.tier == 'thorough'
    ck.assumptions += sm2model.CONTRACTS

    # ------------------------------------------------------------ 1. TestPrivateKey on the real borrow chain (bit-vector level)
    eng = new_engine(prog)
    t0 = time.time()
    tp_bad = []

    def run_tp(e):
        v = sym_bytes(e, 'v', 32)
        out = e.call_outcome(SM2 + '.TestPrivateKey', [e.new_slice(v)])
        if out.kind != 'return':
            return ('cex', 'TestPrivateKey panics: ' + out.panic.msg, None, v)
        V = bytes_to_bv(v)
        inrange = z3.And(z3.UGE(V, z3.BitVecVal(1, 256)), z3.ULE(V, z3.BitVecVal(N - 2, 256)))
        res = tobv(out.values, 64)
        r = e.prove((res == 0) == inrange)
        return (r[0], 'TestPrivateKey(v)==0 is not equivalent to 1 <= v <= n-2', r[1], v)
    res = eng.explore(run_tp)
    ck.absorb(eng)
    bad = [r for r in res if r[0] != 'proved']
    if not bad:
        ck.record('test_private_key', 'proved', '%d paths, all 2^256 32-byte strings: result 0 <=> 1 <= v <= n-2 (real ConstantTimeCmp borrow chain, bit-vector semantics)' % len(res),
                  'v: 32 symbolic bytes', time.time() - t0, sample=dict(obligation='test_private_key', claim='forall v in {0..255}^32: TestPrivateKey(v)==0 <=> 1<=BE(v)<=n-2'))
    else:
        r = [b for b in bad if b[0] == 'cex'] or bad
        r = r[0]
        if r[0] == 'cex':
            vv = model_bytes(r[2], r[3]) if r[2] is not None else [0] * 32
            val = int.from_bytes(bytes(vv), 'big')
            want0 = 1 <= val <= N - 2
            src = '''package sm2
import "testing"
func TestVerifReplay(t *testing.T) {
	got := TestPrivateKey(%s)
	if (got == 0) != %s { t.Fatalf("TestPrivateKey = %%d for a key that is %%s", got, "%s") }
}''' % (go_bytes(vv), 'true' if want0 else 'false', 'valid' if want0 else 'invalid')
            ok, out, path = ck.go_test('sm2', src, name='tpk')
            if ok is False:
                ck.record('test_private_key', 'violated', r[1], sample=dict(v=hexs(vv)))
                ck.violation('TestPrivateKey', r[1] + ' (v=%s)' % hexs(vv), path)
            else:
                ck.encoder_mismatch('test_private_key', (out or '')[-200:])
        else:
            ck.record('test_private_key', 'inconclusive', 'solver unknown')

    # other lengths: documented results (l>32 -> l-32; shorter -> 0 unless the value is 0)
    eng = new_engine(prog)
    lbad = []
    for L in ([0, 1, 31, 33, 40] if not thorough else list(range(0, 32)) + [33, 34, 40, 64]):
        def run_l(e, L=L):
            v = sym_bytes(e, 'v', L)
            out = e.call_outcome(SM2 + '.TestPrivateKey', [e.new_slice(v) if L else e.new_slice([])])
            if out.kind != 'return':
                return ('cex', 'panic', L)
            res = tobv(out.values, 64)
            if L > 32:
                want = res == (L - 32)
            else:
                V = bytes_to_bv(v) if L else None
                want = (res == 0) == (V != 0) if L else res != 0
            r = e.prove(want)
            return (r[0], 'length %d' % L, L)
        for r in eng.explore(run_l):
            if r[0] != 'proved':
                lbad.append(r)
    ck.absorb(eng)
    if lbad:
        L = lbad[0][2]
        src = '''package sm2
import "testing"
func TestVerifReplay(t *testing.T) {
	z := make([]byte, %d)
	if TestPrivateKey(z) == 0 && %d <= 32 { t.Fatalf("zero key of length %d accepted") }
	if %d > 32 && TestPrivateKey(z) != %d { t.Fatalf("long key: wrong code") }
}''' % (L, L, L, L, L - 32)
        ok, out, path = ck.go_test('sm2', src, name='tpklen')
        if ok is False:
            ck.record('test_private_key_lengths', 'violated', 'TestPrivateKey misjudges keys of length %d' % L)
            ck.violation('TestPrivateKey.len', 'keys of length %d misjudged' % L, path)
        else:
            ck.record('test_private_key_lengths', 'inconclusive', 'symbolic failure for length %d not reproduced with the all-zero key' % L)
    else:
        ck.record('test_private_key_lengths', 'proved', 'shorter encodings accepted iff non-zero, longer ones refused with the length difference')

    # coordinate decoding on the real code (the contract the on-curve test relies on): canonical values only
    okd, detail, wit = setbytes_obligation(prog, ck, 'SM2Element', P, 'sm2')
    if okd is True:
        ck.record('coordinate_decoding', 'proved', detail + ' (real fiat.SM2Element.SetBytes, all 2^256 strings)')
    elif okd == 'cex':
        wv = wit if wit is not None else list((P).to_bytes(32, 'big'))
        val = int.from_bytes(bytes(wv), 'big')
        # a non-canonical x whose reduction is on the curve shows up in CheckOnCurve: use x = p + small with a square right-hand side
        xs = 1
        while True:
            rhs = (xs ** 3 - 3 * xs + ref.B) % P
            ys = pow(rhs, (P + 1) // 4, P)
            if ys * ys % P == rhs and xs + P < 2 ** 256:
                break
            xs += 1
        src = '''package sm2
import "testing"
func TestVerifReplay(t *testing.T) {
	if CheckOnCurve(%s, %s) { t.Fatalf("non-canonical coordinate x = p + %d accepted") }
	if CheckOnCurve(%s, %s) { t.Fatalf("coordinate >= p accepted") }
}''' % (go_bytes(b32(xs + P)), go_bytes(b32(ys)), xs, go_bytes(wv), go_bytes(b32(1)))
        ok, out, path = ck.go_test('sm2', src, name='noncanonical')
        if ok is False:
            ck.record('coordinate_decoding', 'violated', detail, sample=dict(x=hex(xs + P)))
            ck.violation('CheckOnCurve.noncanonical', 'coordinates >= p are accepted (decoded modulo p)', path)
        else:
            ck.encoder_mismatch('coordinate_decoding', detail)
    else:
        ck.record('coordinate_decoding', 'inconclusive', detail)

    # field-element equality on the real code (the comparison the on-curve test ends in)
    oke, edetail, ewit = equality_obligation(prog, ck)
    if oke is True:
        ck.record('field_equality', 'proved', edetail + ' (real fiat.SM2Element.Equal/IsZero over crypto/subtle, Bytes() = arbitrary canonical encoding)')
    elif oke == 'cex' and ewit is not None:
        av, bv_ = ewit
        # a public-API witness: x with y^2 = t where t differs from x^3-3x+b exactly as the two encodings of the counterexample do
        dlt = int.from_bytes(bytes(av), 'big') ^ int.from_bytes(bytes(bv_), 'big')
        pub = None
        for xs in range(1, 400):
            rhs = (xs ** 3 - 3 * xs + ref.B) % P
            t = rhs ^ dlt
            if t >= P or t == rhs:
                continue
            ys = pow(t, (P + 1) // 4, P)
            if ys * ys % P == t:
                pub = (xs, ys)
                break
        src = '''package sm2
import ("testing"; "bytes"; "github.com/bilibili/smgo/sm2/internal/fiat")
func TestVerifReplay(t *testing.T) {
	ab, bb := %s, %s
	a, err := new(fiat.SM2Element).SetBytes(ab); if err != nil { t.Skip("not canonical") }
	b, err := new(fiat.SM2Element).SetBytes(bb); if err != nil { t.Skip("not canonical") }
	want := 0; if bytes.Equal(ab, bb) { want = 1 }
	if a.Equal(b) != want { t.Fatalf("Equal(%%x, %%x) = %%d", ab, bb, a.Equal(b)) }
	wz := 0; if bytes.Equal(ab, make([]byte, 32)) { wz = 1 }
	if a.IsZero() != wz { t.Fatalf("IsZero(%%x) = %%d", ab, a.IsZero()) }
	%s
}''' % (go_bytes(av), go_bytes(bv_), ('if CheckOnCurve(%s, %s) { t.Fatalf("off-curve pair accepted") }' % (go_bytes(b32(pub[0])), go_bytes(b32(pub[1])))) if pub else '')
        ok, out, path = ck.go_test('sm2', src, name='field_equality')
        if ok is False:
            ck.record('field_equality', 'violated', edetail, sample=dict(a=hexs(av), b=hexs(bv_)))
            ck.violation('CheckOnCurve.equality', 'the field comparison behind the on-curve test is not equality of canonical encodings: ' + edetail, path)
        else:
            ck.encoder_mismatch('field_equality', edetail)
    else:
        ck.record('field_equality', 'inconclusive', edetail)

    # ------------------------------------------------------------ 2. GenerateKey / DerivePublic under contracts
    eng = proto_engine(prog)
    maxc = 3 if thorough else 2
    ck.bounds.append('GenerateKey: randomness = up to %d symbolic 32-byte candidates (full reads); DerivePublic: key lengths 0,31,32,33; CheckOnCurve: all 32-byte pairs + wrong lengths' % maxc)
    ck.outside.append('more than %d rejected key candidates in a row; failing readers (C19)' % maxc)
    fails = {}
    unknown = []
    npaths = 0
    t0 = time.time()

    def run_gen(e):
        rd = sm2model.new_reader(e, maxc)
        out = e.call_outcome(SM2 + '.GenerateKey', [rd])
        stub = rd.v
        res = []
        info = dict(ks=list(stub.ks))
        if out.kind == 'panic':
            res.append(('GenerateKey.panic', 'GenerateKey panics: ' + out.panic.msg, info, None))
            return res
        priv, x, y, err = out.values
        if err is not None:
            res.append(('GenerateKey.error', 'error %s with a working reader' % err.v.msg, info, None))
            return res
        nc = stub.delivered // 32
        if stub.delivered % 32 or nc == 0 or not all(isinstance(sl.len, int) and sl.len == 32 for sl in (priv, x, y)):
            res.append(('GenerateKey.shape', 'output lengths / consumed bytes wrong (%s consumed)' % stub.delivered, info, None))
            return res
        dv, _ = slice_value(e, priv)
        xv, _ = slice_value(e, x)
        yv, _ = slice_value(e, y)
        k = stub.ks[nc - 1]

        def claim(key, desc, c):
            v = e.prove_i(c)
            if v[0] == 'cex':
                res.append((key, desc, info, v[1]))
            elif v[0] != 'proved':
                unknown.append(key)
        claim('GenerateKey.range', 'returned private key outside [1,n-2]', z3.And(dv >= 1, dv <= N - 2))
        claim('GenerateKey.first', 'returned key is not the first acceptable candidate', dv == k)
        for j in range(nc - 1):
            claim('GenerateKey.skip', 'candidate %d in [1,n-2] was skipped' % j, z3.Not(z3.And(stub.ks[j] >= 1, stub.ks[j] <= N - 2)))
        sm2model.reg_point(e, dv)
        claim('GenerateKey.public', 'public key is not the affine encoding of [d]G', z3.And(xv == X(dv), yv == Y(dv)))
        return res
    for r in eng.explore(run_gen):
        npaths += 1
        for f in r:
            fails.setdefault(f[0], []).append(f)

    def run_nil(e):
        out = e.call_outcome(SM2 + '.GenerateKey', [None])
        if out.kind == 'panic':
            return [('GenerateKey.nil', 'nil reader panics: ' + out.panic.msg, {}, None)]
        if out.values[3] is None:
            return [('GenerateKey.nil', 'nil reader accepted', {}, None)]
        return []
    for r in eng.explore(run_nil):
        for f in r:
            fails.setdefault(f[0], []).append(f)

    for L in (0, 31, 32, 33):
        def run_dp(e, L=L):
            d, priv = int_input(e, 'd', L) if L else (0, e.new_slice([]))
            out = e.call_outcome(SM2 + '.DerivePublic', [priv])
            res = []
            info = dict(d=d, L=L)
            if out.kind == 'panic':
                m = e.prove_i(False)
                res.append(('DerivePublic.panic', 'DerivePublic panics for a %d-byte key: %s' % (L, out.panic.msg), info, m[1] if m[0] == 'cex' else None))
                return res
            x, y, err = out.values
            if L != 32:
                if err is None:
                    res.append(('DerivePublic.length', '%d-byte key accepted' % L, info, None))
                return res
            if err is not None:
                # an error is allowed exactly when [d]G has no affine coordinates
                v = e.prove_i(e.int_mod(d, N) == 0)
                if v[0] == 'cex':
                    res.append(('DerivePublic.error', 'error for a key whose [d]G is finite', info, v[1]))
                return res
            if not (isinstance(x.len, int) and x.len == 32 and isinstance(y.len, int) and y.len == 32):
                res.append(('DerivePublic.shape', 'coordinate lengths %s/%s' % (x.len, y.len), info, None))
                return res
            dl = e.int_mod(d, N)
            v = e.prove_i(dl != 0)
            if v[0] == 'cex':
                res.append(('DerivePublic.infinity', 'coordinates returned without error although [d]G is the point at infinity (d = 0 mod n)', info, v[1]))
                return res
            sm2model.reg_point(e, dl)
            xv, _ = slice_value(e, x)
            yv, _ = slice_value(e, y)
            v = e.prove_i(z3.And(xv == X(dl), yv == Y(dl)))
            if v[0] == 'cex':
                res.append(('DerivePublic.value', 'coordinates differ from [d]G', info, v[1]))
            elif v[0] != 'proved':
                unknown.append('DerivePublic.value')
            return res
        for r in eng.explore(run_dp):
            npaths += 1
            for f in r:
                fails.setdefault(f[0], []).append(f)

    # ------------------------------------------------------------ 3. CheckOnCurve
    def run_oc(e):
        x, xs = int_input(e, 'x', 32)
        y, ys = int_input(e, 'y', 32)
        out = e.call_outcome(SM2 + '.CheckOnCurve', [xs, ys])
        if out.kind == 'panic':
            return [('CheckOnCurve.panic', 'panics: ' + out.panic.msg, {}, None)]
        okv = out.values
        spec = z3.And(x < P, y < P, (y * y - (x * x * x - 3 * x + B)) % P == 0)
        acc = okv if not isinstance(okv, bool) else z3.BoolVal(okv)
        res = []
        for key, c in (('CheckOnCurve.accept', z3.Implies(acc, spec)), ('CheckOnCurve.reject', z3.Implies(spec, acc))):
            v = e.prove_i(c)
            if v[0] == 'cex':
                res.append((key, 'CheckOnCurve differs from x,y<p and y^2 = x^3-3x+b (mod p)', dict(x=x, y=y), v[1]))
            elif v[0] != 'proved':
                unknown.append(key)
        return res
    for r in eng.explore(run_oc):
        npaths += 1
        for f in r:
            fails.setdefault(f[0], []).append(f)
    for (lx, ly) in ((31, 32), (32, 33), (0, 32)):
        def run_ocl(e, lx=lx, ly=ly):
            out = e.call_outcome(SM2 + '.CheckOnCurve', [e.new_slice(sym_bytes(e, 'x', lx)), e.new_slice(sym_bytes(e, 'y', ly))])
            if out.kind == 'panic' or out.values is not False:
                return [('CheckOnCurve.length', 'coordinates of length %d/%d not refused' % (lx, ly), dict(lx=lx, ly=ly), None)]
            return []
        for r in eng.explore(run_ocl):
            for f in r:
                fails.setdefault(f[0], []).append(f)
    secs = time.time() - t0
    ck.absorb(eng)

    # ------------------------------------------------------------ replays
    def replay_gen(f):
        key, desc, info, m = f
        ks = [mval(m, k) for k in info.get('ks', [])] if m is not None else [0, 0]
        # boundary candidates first, then a good one
        stream = b''.join(k.to_bytes(32, 'big') for k in ks) + (0x99).to_bytes(32, 'big')
        pos = 0
        exp = None
        while pos + 32 <= len(stream):
            k = int.from_bytes(stream[pos:pos + 32], 'big')
            pos += 32
            if 1 <= k <= N - 2:
                exp = (k, pos)
                break
        pub = ref.mul(exp[0])
        src = '''package sm2
import ("testing"; "bytes")
type verifReader struct{ b []byte; used int }
func (r *verifReader) Read(p []byte) (int, error) { if r.used >= len(r.b) { for i := range p { p[i] = 0x5a }; r.used += len(p); return len(p), nil }; n := copy(p, r.b[r.used:]); r.used += n; return n, nil }
func TestVerifReplay(t *testing.T) {
	rd := &verifReader{b: %s}
	priv, x, y, err := GenerateKey(rd)
	if err != nil || !bytes.Equal(priv, %s) || !bytes.Equal(x, %s) || !bytes.Equal(y, %s) || rd.used != %d { t.Fatalf("GenerateKey: priv=%%x x=%%x y=%%x used=%%d err=%%v", priv, x, y, rd.used, err) }
}''' % (go_bytes(stream), go_bytes(b32(exp[0])), go_bytes(b32(pub[0])), go_bytes(b32(pub[1])), exp[1])
        return ck.go_test('sm2', src, name='genkey')

    def replay_dp(f):
        key, desc, info, m = f
        dv = mval(m, info['d']) if (m is not None and not isinstance(info['d'], int)) else 0
        if key == 'DerivePublic.infinity' and dv % N != 0:
            dv = 0
        L = info['L']
        pt = ref.mul(dv % N) if L == 32 else None
        if pt:
            body = 'if err != nil || !bytes.Equal(x, %s) || !bytes.Equal(y, %s) { t.Fatalf("DerivePublic: x=%%x y=%%x err=%%v", x, y, err) }' % (go_bytes(b32(pt[0])), go_bytes(b32(pt[1])))
        else:
            body = 'if err == nil { t.Fatalf("DerivePublic returned x=%x y=%x without error for a key with no public point", x, y) }'
        src = '''package sm2
import ("testing"; "bytes")
var _ = bytes.Equal
func TestVerifReplay(t *testing.T) {
	x, y, err := DerivePublic(%s)
	%s
}''' % (go_bytes(list(dv.to_bytes(L, 'big')) if L else []), body)
        return ck.go_test('sm2', src, name='derive')

    def replay_oc(f):
        key, desc, info, m = f
        if m is None:
            return None, '', None
        xv, yv = mval(m, info['x']), mval(m, info['y'])
        want = ref.on_curve((xv, yv))
        src = '''package sm2
import "testing"
func TestVerifReplay(t *testing.T) {
	if CheckOnCurve(%s, %s) != %s { t.Fatalf("CheckOnCurve wrong") }
}''' % (go_bytes(b32(xv)), go_bytes(b32(yv)), 'true' if want else 'false')
        return ck.go_test('sm2', src, name='oncurve')

    for key, fl in sorted(fails.items()):
        f = fl[0]
        if key.startswith('GenerateKey.nil'):
            src = '''package sm2
import "testing"
func TestVerifReplay(t *testing.T) {
	defer func() { if recover() != nil { t.Fatalf("panic") } }()
	_, _, _, err := GenerateKey(nil)
	if err == nil { t.Fatalf("nil reader accepted") }
}'''
            ok, out, path = ck.go_test('sm2', src, name='gennil')
        elif key.startswith('GenerateKey'):
            cands = [x for x in fl if x[3] is not None][:3] or [f]
            ok, out, path = None, '', None
            for c_ in cands:
                ok, out, path = replay_gen(c_)
                if ok is False:
                    break
        elif key.startswith('DerivePublic'):
            ok, out, path = replay_dp(f)
        elif key == 'CheckOnCurve.length':
            src = '''package sm2
import "testing"
func TestVerifReplay(t *testing.T) {
	defer func() { if recover() != nil { t.Fatalf("panic") } }()
	if CheckOnCurve(make([]byte, %d), make([]byte, %d)) { t.Fatalf("accepted") }
}''' % (f[2]['lx'], f[2]['ly'])
            ok, out, path = ck.go_test('sm2', src, name='oclen')
        else:
            ok, out, path = replay_oc(f)
        if ok is False:
            ck.record('keys[' + key + ']', 'violated', '%s (%d symbolic paths)' % (f[1], len(fl)))
            ck.violation(key, f[1], path)
        elif ok is True and getattr(f[3], 'approx', False):
            ck.record('keys[' + key + ']', 'inconclusive', f[1] + ': candidate from the abstraction did not reproduce')
        else:
            ck.encoder_mismatch('keys[' + key + ']', f[1] + ' :: ' + (out or '')[-200:])
    if unknown:
        ck.record('keys_unknown', 'inconclusive', 'solver unknown on %s' % sorted(set(unknown)))
    for grp in ('GenerateKey', 'DerivePublic', 'CheckOnCurve'):
        if not any(k.startswith(grp) for k in fails) and not any(u.startswith(grp) for u in unknown):
            ck.record('keys[' + grp + ']', 'proved', {'GenerateKey': 'first candidate in [1,n-2] returned, 32 bytes per candidate, public key = XY(d), nil reader refused',
                                                      'DerivePublic': '[d]G for 32-byte keys with a finite point, error otherwise',
                                                      'CheckOnCurve': 'true <=> x,y < p and y^2 = x^3 - 3x + b (mod p); wrong lengths refused'}[grp], ck.bounds[0], secs)
    ck.extra['paths'] = npaths

    # concrete validation of contracts against the real build
    rows = []
    vals = [1, 2, N - 2, ck.rng.randrange(1, N - 1), ck.rng.randrange(1, N - 1)]
    for dv in vals:
        pub = ref.mul(dv)
        rows.append('{%s,%s,%s},' % (go_bytes(b32(dv)), go_bytes(b32(pub[0])), go_bytes(b32(pub[1]))))
    src = '''package sm2
import ("testing"; "bytes")
func TestVerifReplay(t *testing.T) {
	cases := []struct{ d, x, y []byte }{
%s
	}
	for i, c := range cases {
		x, y, err := DerivePublic(c.d)
		if err != nil || !bytes.Equal(x, c.x) || !bytes.Equal(y, c.y) { t.Fatalf("case %%d: DerivePublic differs from the reference", i) }
		if !CheckOnCurve(c.x, c.y) { t.Fatalf("case %%d: point [d]G judged off the curve", i) }
		bad := append([]byte{}, c.y...); bad[31] ^= 1
		if CheckOnCurve(c.x, bad) { t.Fatalf("case %%d: off-curve point accepted", i) }
		// key generation from a stream [rejected candidate || d || ...] delivered whole and in chunks (short reads without
		// error are legal for an io.Reader): the key is the first acceptable 32-byte unit and the public key belongs to it
		stream := append(append(bytes.Repeat([]byte{0xff}, 32), c.d...), bytes.Repeat([]byte{0x22}, 64)...)
		for _, chunk := range []int{32, 16, 31, 1} {
			rd := &chunkReader{b: stream, chunk: chunk}
			d, x, y, err := GenerateKey(rd)
			if err != nil || !bytes.Equal(d, c.d) || !bytes.Equal(x, c.x) || !bytes.Equal(y, c.y) || rd.used != 64 { t.Fatalf("case %%d: GenerateKey from a reader delivering %%d bytes per call: key %%x (want %%x), used %%d, err %%v", i, chunk, d, c.d, rd.used, err) }
		}
	}
}
type chunkReader struct{ b []byte; used, chunk int }
func (r *chunkReader) Read(p []byte) (int, error) { if len(p) > r.chunk { p = p[:r.chunk] }; if r.used >= len(r.b) { for i := range p { p[i] = 0x5a }; r.used += len(p); return len(p), nil }; n := copy(p, r.b[r.used:]); r.used += n; return n, nil }
var _ = bytes.Equal
''' % '\n'.join(rows)
    ok, out, path = ck.go_test('sm2', src, name='validate')
    if ok is True:
        ck.validated += len(vals)
    elif ok is False:
        ck.record('reference_points', 'violated', 'real build disagrees with the reference on concrete keys/points: ' + (out or '')[-200:].replace('\n', ' '))
        ck.violation('reference-points', 'DerivePublic/CheckOnCurve/GenerateKey disagree with the reference on concrete keys (d in {1,2,n-2,random}; streams delivered in chunks)', path)
    ck.finish()


if __name__ == '__main__':
    guarded_main('C12', main)
