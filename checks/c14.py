#!/usr/bin/env python3
# C14 - SM2 scalar multiplication equals the integer multiple, for all scalars.  DESIGN.md section 3/C14.
# The real scalar-multiplication code (comb schedule, bit extraction, window selection, NAF interleaving) is executed
# over an abstract group: a point is a pair of integer coefficients (u, v) meaning [u]G + [v]P.
import sys, os, time
sys.path.insert(0, os.path.join(os.path.dirname(os.path.abspath(__file__)), '..', 'engine'))
sys.path.insert(0, os.path.join(os.path.dirname(os.path.abspath(__file__)), '..', 'specs'))
import z3
from common import *
from gosym import *
from harness import *
import sm2 as ref

INT = MOD + '/sm2/internal'
PT = '(*%s.SM2Point).' % INT
N = ref.N
SCHEMES = [('6_3_14', 6, 3, 14, 4), ('5_3_17', 5, 3, 17, 1), ('4_2_32', 4, 2, 32, 0), ('7_3_12', 7, 3, 12, 4)]


class AP:
    """abstract point [u]G + [v]P (u, v python ints or z3 Int terms)"""

    def __init__(self, u=0, v=0):
        self.u, self.v = u, v


class AbsTable:
    def __init__(self, pts):
        self.pts = pts


class CutReached(Exception):
    def __init__(self, vals):
        self.vals = vals


def bit_int(bits, b):
    if isinstance(bits, int):
        return (bits >> b) & 1
    return z3.BV2Int(z3.simplify(z3.Extract(b, b, bits)))


def be_int(cells):
    """integer value of big-endian byte cells as a sum over single bits (same atoms as the comb windows use)"""
    tot = 0
    n = len(cells)
    for i, c in enumerate(cells):
        w = 8 * (n - 1 - i)
        if isinstance(c, int):
            tot = tot + (c << w)
        else:
            for b in range(8):
                tot = tot + z3.BV2Int(z3.simplify(z3.Extract(b, b, c))) * (1 << (w + b))
    return tot


def install_group(eng, violations):
    I = eng.intercepts

    def newpt(e, u=0, v=0):
        return Ptr(e.new_obj(AP(u, v), 'absPoint'), ())

    def get(e, p):
        if p.obj is None:
            raise GoPanic('nil *SM2Point', 'nil')
        v = e.heap[p.obj][0]
        if not isinstance(v, AP):
            raise Unsupported('concrete SM2Point in the abstract group model')
        return v
    eng.ap_new = newpt
    eng.ap_get = lambda p: get(eng, p)
    I[INT + '.NewSM2Point'] = lambda e, a, ins: newpt(e)

    def add(e, a, ins):
        q, p1, p2 = a
        x, y = get(e, p1), get(e, p2)
        get(e, q)
        e.heap[q.obj][0] = AP(x.u + y.u, x.v + y.v)
        return q
    I[PT + 'Add'] = add

    def dbl(e, a, ins):
        q, p = a
        x = get(e, p)
        e.heap[q.obj][0] = AP(2 * x.u, 2 * x.v)
        return q
    I[PT + 'Double'] = dbl

    def set_(e, a, ins):
        q, p = a
        x = get(e, p)
        if isinstance(x, SymAP):
            x = x.ap
        e.heap[q.obj][0] = AP(x.u, x.v)
        return q
    I[PT + 'Set'] = set_

    def neg(e, a, ins):
        q, p = a
        x = get(e, p)
        e.heap[q.obj][0] = AP(-x.u, -x.v)
        return q
    I[PT + 'Negate'] = neg

    # ---- identification of the precomputed base-point tables by the identity of their slices
    def table_keys(e):
        keys = {}
        for name, window, sub, iters, rem in SCHEMES:
            g = e.load(e.global_ptr(INT + '.sm2Precomputed_' + name))
            arr = e._nav(e.heap[g.obj][0], g.path)
            for j in range(g.len):
                s = arr[g.off + j]
                keys[(s.obj, s.path, s.off)] = ('main', name, window, sub, iters, rem, j)
            gname = INT + '.sm2Precomputed_' + name + '_Remainder'
            if rem >= 1 and gname in e.gobj:
                r = e.load(e.global_ptr(gname))
                keys[(r.obj, r.path, r.off)] = ('rem', name, window, sub, iters, rem, 0)
        return keys

    def multiselect_xy(e, a, ins):
        q, pre, width, bits = a
        if not hasattr(e, '_tkeys') or e._tkeys_path is not e.heap:
            e._tkeys = table_keys(e)
            e._tkeys_path = e.heap
        s = e.load(pre)
        info = e._tkeys.get((s.obj, s.path, s.off))
        if info is None:
            raise Unsupported('MultiSelectXY over an unknown table')
        kind, name, window, sub, iters, rem, j = info
        xs = e.load(Ptr(s.obj, s.path + (s.off,)))
        if xs.len != width:
            raise GoPanic('invalid inputs', 'explicit')
        old = get(e, q)
        bits = force(bits)
        # bits must be a valid selector: 0 (keep the receiver) or an index 1..width
        if not isinstance(bits, int):
            ok = e.prove(z3.ULE(bits, z3.BitVecVal(width, 8)))
            if ok[0] != 'proved':
                violations.append('window value passed to the table selection can exceed the table width %d (%s)' % (width, name))
        if kind == 'main':
            c = 0
            for b in range(window):
                c = c + bit_int(bits, b) * (1 << (rem + j * iters + b * sub * iters))
        else:
            c = 0
            for b in range(8):
                c = c + bit_int(bits, b) * (1 << b)
        if isinstance(bits, int):
            e.heap[q.obj][0] = AP(old.u, old.v) if bits == 0 else AP(c, 0)
        else:
            z = bits == 0
            e.heap[q.obj][0] = AP(z3.If(z, old.u if not isinstance(old.u, int) else z3.IntVal(old.u), c), z3.If(z, old.v if not isinstance(old.v, int) else z3.IntVal(old.v), z3.IntVal(0)))
        return q
    I[PT + 'MultiSelectXY'] = multiselect_xy

    def transform(e, a, ins):
        pre, width = a
        s = e.load(pre)
        pts = [get(e, p) for p in e.slice_list(s)]
        if len(pts) != width:
            raise Unsupported('TransformPrecomputed width')
        o = e.new_obj(AbsTable([AP(p.u, p.v) for p in pts]), 'absTable')
        return Slice(o, (), 0, 3, 3)
    I[INT + '.TransformPrecomputed'] = transform

    def multiselect_xyz(e, a, ins):
        q, pre, width, bits = a
        s = e.load(pre)
        tab = e.heap[s.obj][0]
        if not isinstance(tab, AbsTable) or len(tab.pts) != width:
            raise Unsupported('MultiSelectXYZ over an unknown table')
        old = get(e, q)
        bits = force(bits)
        if isinstance(bits, int):
            e.heap[q.obj][0] = AP(old.u, old.v) if bits == 0 else AP(tab.pts[bits - 1].u, tab.pts[bits - 1].v)
            return q
        ok = e.prove(z3.ULE(bits, z3.BitVecVal(width, 8)))
        if ok[0] != 'proved':
            violations.append('window value passed to MultiSelectXYZ can exceed the table width %d' % width)

        def iv(x):
            return z3.IntVal(x) if isinstance(x, int) else x
        p1 = tab.pts[0]
        if all(isinstance(p.u, int) and isinstance(p.v, int) and p.u == (i + 1) * p1.u and p.v == (i + 1) * p1.v for i, p in enumerate(tab.pts)) \
                and isinstance(old.u, int) and isinstance(old.v, int) and old.u == 0 and old.v == 0:
            # the table holds 1x, 2x, ..., width x of one point and the receiver is the neutral element: the selection is
            # (window value) times that point (0 for window value 0)
            bval = 0
            for b in range(8):
                bval = bval + bit_int(bits, b) * (1 << b)
            e.heap[q.obj][0] = AP(bval * p1.u, bval * p1.v)
            return q
        u, v = iv(old.u), iv(old.v)
        for i in range(width):
            u = z3.If(bits == i + 1, iv(tab.pts[i].u), u)
            v = z3.If(bits == i + 1, iv(tab.pts[i].v), v)
        e.heap[q.obj][0] = AP(u, v)
        return q
    I[PT + 'MultiSelectXYZ'] = multiselect_xyz


class SymAP:
    def __init__(self, ap):
        self.ap = ap


def prove_eq(ck, pc, a, b):
    if isinstance(a, int) and isinstance(b, int):
        return 'proved' if a == b else 'cex', None
    d = z3.simplify(a - b, som=True)
    if z3.is_int_value(d):
        return ('proved' if d.as_long() == 0 else 'cex'), None
    s = z3.Solver()
    s.set('timeout', 60000)
    for c in pc:
        s.add(c)
    t0 = time.time()
    r = s.check(a != b)
    ck.queries += 1
    ck.solver_s += time.time() - t0
    if r == z3.unsat:
        return 'proved', None
    if r == z3.sat:
        return 'cex', s.model()
    return 'unknown', None


def main():
    ck = Check('C14')
    prog = dump_ssa('c14')
    thorough = ck.tier == 'thorough'
    ck.assumptions += ['abstract group: a point is [u]G+[v]P; Add adds, Double doubles, Negate negates, NewSM2Point is (0,0) (property C15 ties the formulas to the group law)',
                       'MultiSelectXY(table j, width, bits) returns the receiver for bits = 0 and otherwise the table entry bits-1, whose multiplier is sum over set bits b of 2^(rem + j*iter + b*sub*iter) (selection: C16; stored values: C18)']
    fails = {}
    unknown = []
    t0 = time.time()

    def add(k, desc, wit=None):
        fails.setdefault(k, []).append((desc, wit))

    # ------------------------------------------------------------ (a) fixed-base multiplication, all four comb schemes, every 32-byte k
    viol = []
    eng = new_engine(prog, timeout_ms=30000)
    install_group(eng, viol)
    for name, window, sub, iters, rem in SCHEMES:
        def run(e, name=name):
            k = sym_bytes(e, 'k', 32)
            out = e.call_outcome(INT + '.scalarBaseMult_SkipBitExtraction_' + name, [e.new_slice(list(k))])
            if out.kind != 'return':
                return ('panic', out.panic.msg, None, k)
            p, err = out.values
            if err is not None:
                return ('error', 'error for a 32-byte scalar', None, k)
            ap = e.ap_get(p)
            v1 = prove_eq(ck, e.pc, ap.u, be_int(k))
            v2 = prove_eq(ck, e.pc, ap.v, 0)
            return (v1[0] if v1[0] != 'proved' else v2[0], 'result is not [k]G', v1[1], k)
        for r in eng.explore(run):
            if r[0] != 'proved':
                if r[0] == 'unknown':
                    unknown.append('base ' + name)
                else:
                    kv = model_bytes(r[2], r[3]) if r[2] is not None else [0xff] * 32
                    add('ScalarBaseMult:' + name, 'comb scheme %s: %s (%s)' % (name, r[1], r[0]), ('base', name, kv))
    print('  (a) base mult %.1fs' % (time.time() - t0), file=sys.stderr)
    for msg in viol:
        add('ScalarBaseMult:selector', msg)

    def run_len(e):
        bad = []
        for L in (0, 1, 31, 33, 64):
            out = e.call_outcome(INT + '.ScalarBaseMult', [e.new_slice([1] * L) if L else e.new_slice([])])
            if out.kind != 'return' or out.values[1] is None:
                bad.append(L)
        return bad
    lb = eng.explore(run_len)[0]
    if lb:
        add('ScalarBaseMult:length', 'scalars of length %s are not refused with an error' % lb)
    ck.absorb(eng)

    # ------------------------------------------------------------ (b) variable-point multiplication, scalars of 0..40 bytes
    viol = []
    eng = new_engine(prog, timeout_ms=30000)
    install_group(eng, viol)
    lens = list(range(0, 41)) if thorough else [0, 1, 2, 16, 31, 32, 33, 40]
    for L in lens:
        def run(e, L=L):
            s = sym_bytes(e, 's', L)
            P_ = e.ap_new(e, 0, 1)
            out = e.call_outcome(INT + '.ScalarMult', [P_, e.new_slice(list(s)) if L else e.new_slice([])])
            if out.kind != 'return':
                return ('panic', out.panic.msg, None, s)
            p, err = out.values
            if err is not None:
                return ('error', 'error returned', None, s)
            ap = e.ap_get(p)
            v1 = prove_eq(ck, e.pc, ap.v, be_int(s))
            v2 = prove_eq(ck, e.pc, ap.u, 0)
            st = v1[0] if v1[0] != 'proved' else v2[0]
            return (st, 'result is not [scalar]P', v1[1], s)
        try:
            rs_ = eng.explore(run)
        except Unsupported as ex:
            # e.g. the code inspects the coordinates of its point argument, which this obligation keeps abstract
            unknown.append('ScalarMult len %d: symbolic run not completed (%s)' % (L, str(ex)[:80]))
            rs_ = []
        for r in rs_:
            if r[0] != 'proved':
                if r[0] == 'unknown':
                    unknown.append('ScalarMult len %d' % L)
                else:
                    sv = model_bytes(r[2], r[3]) if r[2] is not None else [0xff] * L
                    add('ScalarMult', 'scalar of %d bytes: %s (%s)' % (L, r[1], r[0]), ('mult', L, sv))
    print('  (b) scalar mult %.1fs' % (time.time() - t0), file=sys.stderr)
    for msg in viol:
        add('ScalarMult:selector', msg)
    ck.absorb(eng)

    # ------------------------------------------------------------ (c) double-scalar multiplication: one iteration of the interleaved loop from every
    # position, and the coverage identity of the comb for the base scalar
    viol = []
    eng = new_engine(prog, timeout_ms=30000)
    install_group(eng, viol)
    DIG = {}

    def naf_model(e, a, ins):
        out, s, n, w = a
        if n != 257 or w != 4:
            raise Unsupported('DecomposeNAF parameters changed: n=%s w=%s' % (n, w))
        if not isinstance(s.len, int) or s.len < 32:
            raise GoPanic('index out of range [31] with length %s' % s.len, 'bounds')
        digs = [e.fresh_bv('naf%d' % i, 64) for i in range(257)]
        DIG['d'] = digs
        # digit set of the recoding (property C20): zero or odd with |d| < 2^4
        e.assume(z3.And(*[z3.Or(d == 0, z3.And(z3.Extract(0, 0, d) == 1, d < 16, d > -16)) for d in digs]))
        for i in range(257):
            e.slice_set(out, i, digs[i])
        return None
    eng.intercepts[MOD + '/utils.DecomposeNAF'] = naf_model

    def newfromxy(e, a, ins):
        x, y = a
        if not isinstance(x, SymTab) or not isinstance(y, SymTab) or x.key != y.key or x.coord != 0 or y.coord != 1:
            raise Unsupported('NewFromXY with coordinates that are not the x and y of one table entry')
        return e.ap_new(e, x.mult, 0)
    eng.intercepts[INT + '.NewFromXY'] = newfromxy

    LAST = {}

    def ehb(e, a, ins):
        r = e.exec_func(e.prog.funcs[INT + '.extractHigherBits'], a, ())
        LAST['bits'] = force(r)
        return r
    eng.intercepts[INT + '.extractHigherBits'] = ehb

    def elb(e, a, ins):
        r = e.exec_func(e.prog.funcs[INT + '.extractLowerBits'], a, ())
        LAST['bits'] = force(r)
        return r
    eng.intercepts[INT + '.extractLowerBits'] = elb

    def sym_ptr_hook(e, obj, prefix, idx, elems):
        """load of table[j][coord][bits-1] with a symbolic window value: identify the table and return a handle that
        carries the multiplier of the selected entry as a function of the window bits"""
        if not hasattr(e, '_ckeys') or e._ckeys_heap is not e.heap:
            e._ckeys = {}
            e._ckeys_heap = e.heap
            for name, window, sub, iters, rem in SCHEMES:
                gl = e.load(e.global_ptr(INT + '.sm2Precomputed_' + name))
                arr = e._nav(e.heap[gl.obj][0], gl.path)
                for j in range(gl.len):
                    s = arr[gl.off + j]
                    inner = e._nav(e.heap[s.obj][0], s.path)
                    for coord in (0, 1):
                        cs = inner[s.off + coord]
                        e._ckeys[(cs.obj, cs.path)] = ('main', name, window, sub, iters, rem, j, coord, cs.off, cs.len)
                gname = INT + '.sm2Precomputed_' + name + '_Remainder'
                if rem >= 1 and gname in e.gobj:
                    r_ = e.load(e.global_ptr(gname))
                    inner = e._nav(e.heap[r_.obj][0], r_.path)
                    for coord in (0, 1):
                        cs = inner[r_.off + coord]
                        e._ckeys[(cs.obj, cs.path)] = ('rem', name, window, sub, iters, rem, 0, coord, cs.off, cs.len)
        info = e._ckeys.get((obj, tuple(prefix)))
        if info is None and all(isinstance(p_, Ptr) and p_.obj is not None and isinstance(e.heap[p_.obj][0], AP) for p_ in elems):
            # local table of points indexed by a data-dependent digit: the selected point as an if-then-else over the index
            def iv(x):
                return z3.IntVal(x) if isinstance(x, int) else x
            aps = [e.heap[p_.obj][0] for p_ in elems]
            u, v = iv(aps[0].u), iv(aps[0].v)
            for k_ in range(1, len(aps)):
                u = z3.If(idx == k_, iv(aps[k_].u), u)
                v = z3.If(idx == k_, iv(aps[k_].v), v)
            ok_ = e.prove(z3.ULT(idx, z3.BitVecVal(len(aps), 64)))
            if ok_[0] != 'proved':
                viol.append('index into the table of odd multiples can leave [0,%d)' % len(aps))
            return e.ap_new(e, u, v)
        if info is None:
            raise Unsupported('symbolic index into an unknown pointer table')
        kind, name, window, sub, iters, rem, j, coord, off, ln = info
        bits = LAST.get('bits')
        ok = e.prove(idx == z3.BitVecVal(off, 64) + z3.ZeroExt(56, bits) - 1)
        if ok[0] != 'proved':
            viol.append('table %s[%d] is indexed with something else than (window value - 1)' % (name, j))
        if kind == 'main':
            c_ = 0
            for b in range(window):
                c_ = c_ + bit_int(bits, b) * (1 << (rem + j * iters + b * sub * iters))
        else:
            c_ = 0
            for b in range(8):
                c_ = c_ + bit_int(bits, b) * (1 << b)
        return SymTab((name, j, kind, bits.get_id()), coord, c_)
    eng.sym_ptr_hook = sym_ptr_hook

    positions = list(range(0, 257)) if thorough else [0, 1, 2, 12, 13, 14, 15, 100, 255, 256]
    step_bad = []
    abstraction_lost = []
    nsteps = 0
    for i0 in positions:
        for skip0 in (True, False):
            def run(e, i0=i0, skip0=skip0):
                g = sym_bytes(e, 'g', 32)
                s = sym_bytes(e, 's', 32)
                P_ = e.ap_new(e, 0, 1)
                state = {'n': 0}
                ru, rv = (0, 0) if skip0 else (e.fresh_int('ru'), e.fresh_int('rv'))

                def on_phi(e2, f, bi, prev, phis, newvals, env):
                    if not f['name'].endswith('.ScalarMixedMult_Unsafe'):
                        return None
                    byc = {ph['x'].get('comment'): k for k, ph in enumerate(phis)}
                    if 'i' not in byc or 'skip' not in byc:
                        return None
                    if state['n'] >= 1 and bi != state['hdr']:
                        return None
                    state['n'] += 1
                    if state['n'] == 1:
                        state['hdr'] = bi
                        nv = list(newvals)
                        nv[byc['i']] = (nv[byc['i']][0], i0)
                        nv[byc['skip']] = (nv[byc['skip']][0], skip0)
                        # the accumulator is the object `ret` points to: find it in the environment
                        for name_, val_ in env.items():
                            if isinstance(val_, Ptr) and val_.obj is not None and isinstance(e2.heap[val_.obj][0], AP) and name_ not in ('P',):
                                state.setdefault('cands', []).append(val_)
                        state['ret'] = [p for p in state.get('cands', []) if e2.heap[p.obj][0].u == 0 and e2.heap[p.obj][0].v == 0 and p.obj != P_.obj][-1]
                        e2.heap[state['ret'].obj][0] = AP(ru, rv)
                        return nv
                    nxt = newvals[byc['i']][1]
                    if isinstance(nxt, int) and nxt >> 63:
                        return None      # i = -1: the loop condition fails, run on to the end of the function
                    raise CutReached((nxt, newvals[byc['skip']][1]))
                e.on_phi = on_phi
                e.symtab_hook = True
                try:
                    out = e.call_outcome(INT + '.ScalarMixedMult_Unsafe', [e.new_slice(list(g)), P_, e.new_slice(list(s))])
                    e.on_phi = None
                    if out.kind != 'return':
                        return ('cex', 'panic in the loop at position %d: %s' % (i0, out.panic.msg))
                    if i0 != 0:
                        return ('cex', 'loop left at position %d' % i0)
                    ret = e.ap_get(out.values[0])
                    final = True
                    i2, skip2 = -1, None
                except CutReached as cr:
                    e.on_phi = None
                    ret = e.heap[state['ret'].obj][0]
                    final = False
                    i2, skip2 = cr.vals
                d = DIG['d'][i0]
                dint = z3.BV2Int(d, is_signed=True)
                # digit set of the recoding (property C20): zero or odd with |d| < 16
                e.assume(z3.Or(d == 0, z3.And(z3.Extract(0, 0, d) == 1, d < 16, d > -16)))
                gpart = 0
                if i0 < 14:
                    for j in range(3):
                        for b in range(6):
                            pos = i0 + j * 14 + 4 + b * 42
                            byte = g[31 - pos // 8]
                            gpart = gpart + z3.BV2Int(z3.simplify(z3.Extract(pos % 8, pos % 8, byte))) * (1 << (4 + j * 14 + b * 42))
                want_u = 2 * ru + gpart
                want_v = 2 * rv + dint
                if final:
                    low = 0
                    for b in range(4):
                        low = low + z3.BV2Int(z3.simplify(z3.Extract(b, b, g[31]))) * (1 << b)
                    want_u = want_u + low
                v1 = prove_eq(ck, e.pc, ret.u, want_u)
                v2 = prove_eq(ck, e.pc, ret.v, want_v)
                st = v1[0] if v1[0] != 'proved' else v2[0]
                if st != 'proved':
                    wit = None
                    mdl = v1[1] if v1[0] == 'cex' else v2[1]
                    if mdl is not None:
                        dv = mdl.eval(d, model_completion=True).as_signed_long()
                        wit = dict(i0=i0, skip0=skip0, g=model_bytes(mdl, g), d=dv)
                    return (st, 'iteration %d (skip=%s): accumulator is not 2*acc + comb digits*G + naf digit*P' % (i0, skip0), wit)
                if not final and i2 != i0 - 1:
                    return ('cex', 'loop index moves from %d to %s' % (i0, i2))
                if not final and skip0 and not isinstance(skip2, bool):
                    return ('unknown', 'symbolic skip flag')
                return ('proved', '')
            try:
                for r in eng.explore(run):
                    nsteps += 1
                    if r[0] != 'proved':
                        step_bad.append((i0, skip0, r))
            except (TypeError, AttributeError, KeyError, Unsupported) as ex:
                # the routine left the abstraction (e.g. it took a point apart into coordinates): nothing is claimed for
                # this step, the concrete replay below still runs
                abstraction_lost.append('position %d: %s: %s' % (i0, type(ex).__name__, str(ex)[:120]))
                break
        if abstraction_lost:
            break
    if abstraction_lost:
        unknown.append('mixed step not executable over the abstract group: ' + abstraction_lost[0])
    for msg in viol:
        add('ScalarMixedMult:selector', msg)
    ck.absorb(eng)
    cexs = [b for b in step_bad if b[2][0] == 'cex']
    if cexs:
        add('ScalarMixedMult:step', '%s (%d failing (position, path) cases)' % (cexs[0][2][1], len(cexs)), ('mixed', [b[2][2] for b in cexs if len(b[2]) > 2 and b[2][2]]))
    elif step_bad:
        unknown.append('mixed step: ' + step_bad[0][2][1])

    # short scalars must hit the index panic the callers rely on (contract used by C01/C03)
    eng = new_engine(prog)
    install_group(eng, [])
    eng.intercepts[INT + '.NewFromXY'] = lambda e, a, ins: e.ap_new(e, 0, 0)

    def run_short(e):
        P_ = e.ap_new(e, 0, 1)
        o1 = e.call_outcome(INT + '.ScalarMixedMult_Unsafe', [e.new_slice([1] * 32), P_, e.new_slice([1] * 31)])
        o2 = e.call_outcome(INT + '.ScalarMixedMult_Unsafe', [e.new_slice([1] * 31), P_, e.new_slice([1] * 32)])
        return o1.kind, o2.kind
    try:
        ck.extra['short_scalar_behaviour'] = list(eng.explore(run_short)[0])
    except (TypeError, AttributeError, KeyError, Unsupported) as ex:
        ck.extra['short_scalar_behaviour'] = 'not executable over the abstract group: %s' % str(ex)[:100]
    ck.absorb(eng)
    secs = time.time() - t0
    ck.bounds.append('fixed-base multiplication: all four comb parameter sets, every 32-byte scalar (one symbolic run each, no data-dependent branch); variable-point multiplication: scalar lengths %s, all contents; double-scalar routine: one loop iteration from positions %s with both scalars, the accumulator and the recoding digit symbolic' % (lens, 'all 0..256' if thorough else positions))
    ck.outside.append('the link between the abstract group and the curve (C15, C16, C18); for the double-scalar routine the composition of the per-iteration facts with the recoding sum (C20) is an induction argument')

    # ------------------------------------------------------------ replay on the real build against the affine reference
    rng = ck.rng
    special = [0, 1, 2, N - 1, N, N + 1, 2 ** 256 - 1, 15, 16, 2 ** 255]
    ks = special + [rng.getrandbits(256) for _ in range(4)]
    for k_, fl in fails.items():
        for desc, wit in fl:
            if wit and wit[0] == 'base':
                ks.append(int.from_bytes(bytes(wit[2]), 'big'))
            if wit and wit[0] == 'mult' and wit[1] == 32:
                ks.append(int.from_bytes(bytes(wit[2]), 'big'))

    def enc(pt):
        return [0] if pt is None else [4] + list(pt[0].to_bytes(32, 'big')) + list(pt[1].to_bytes(32, 'big'))
    Pp = ref.mul(rng.randrange(1, N))
    # a failing loop step is a counterexample over the loop state (position, skip flag, accumulator, digit, base scalar);
    # build a whole (g, s) pair whose run reaches that state: with the skip flag still set nothing may have been added
    # before, so the comb columns above the position are cleared in g and s has its only recoding digit at the position;
    # otherwise the history is arbitrary and s gets the digit at the position below a random high part
    forced = {}
    for k_, fl in fails.items():
        for desc, wit in fl:
            if wit and wit[0] == 'mixed':
                for w in wit[1][:24]:
                    gv = int.from_bytes(bytes(w['g']), 'big')
                    i0, dv = w['i0'], w['d']
                    if w['skip0']:
                        for pos in range(4, 256):
                            if (pos - 4) % 14 > i0:
                                gv &= ~(1 << pos)
                        sv = (abs(dv) << i0)
                    else:
                        sv = (dv << i0) + ((rng.getrandbits(max(1, 250 - i0 - 9)) | 1) << (i0 + 9)) if i0 + 9 < 250 else (abs(dv) << i0)
                    if 0 <= sv < 2 ** 256:
                        forced[(gv, sv)] = 1
                    for dd in (1, 3, 15):      # the same position with other digits and a dense base scalar
                        if (dd << i0) < 2 ** 256 and len(forced) < 60:
                            forced[(w and int.from_bytes(bytes(w['g']), 'big'), dd << i0)] = 1
    rows = []
    for kv, sv in list(forced)[:60]:
        rows.append('{%s, %s, %s, %s, %s},' % (go_bytes(list(kv.to_bytes(32, 'big'))), go_bytes(list(sv.to_bytes(32, 'big'))), go_bytes(enc(ref.mul(kv % N))),
                                              go_bytes(enc(ref.mul(kv % N, Pp))), go_bytes(enc(ref.add(ref.mul(kv % N), ref.mul(sv % N, Pp))))))
    # scalars that stress the signed-digit recoding of s (taken by contract from C20 in the symbolic part): a run of ones or a
    # high window that sends a carry into an all-zero 32-bit word, at every word position; and the same patterns as base scalars
    sparse = []
    for w in range(7):
        for lowpat in (0xF8000000, 0xFFFFFFFF, 0x80000000, 0x00000001):
            hi = (rng.getrandbits(32 * (6 - w)) | 1) << (32 * (w + 2)) if w < 6 else 0
            sparse.append(hi | (lowpat << (32 * w)) | (rng.getrandbits(32 * w) if w and lowpat != 1 else 0))
    for sv in sparse:
        kv = rng.getrandbits(256)
        rows.append('{%s, %s, %s, %s, %s},' % (go_bytes(list(kv.to_bytes(32, 'big'))), go_bytes(list(sv.to_bytes(32, 'big'))), go_bytes(enc(ref.mul(kv % N))),
                                              go_bytes(enc(ref.mul(kv % N, Pp))), go_bytes(enc(ref.add(ref.mul(kv % N), ref.mul(sv % N, Pp))))))
    for kv in ks:
        sv = rng.getrandbits(256) if kv not in (0, 1) else kv
        rows.append('{%s, %s, %s, %s, %s},' % (go_bytes(list(kv.to_bytes(32, 'big'))), go_bytes(list(sv.to_bytes(32, 'big'))), go_bytes(enc(ref.mul(kv % N))),
                                              go_bytes(enc(ref.mul(kv % N, Pp))), go_bytes(enc(ref.add(ref.mul(kv % N), ref.mul(sv % N, Pp))))))
    src = '''package internal
import ("testing"; "bytes")
func TestVerifReplay(t *testing.T) {
	P, _ := NewSM2Point().SetBytes(%s)
	cases := []struct{ k, s, kG, kP, mixed []byte }{
%s
	}
	for i, c := range cases {
		for n, f := range []func([]byte) (*SM2Point, error){scalarBaseMult_SkipBitExtraction_6_3_14, scalarBaseMult_SkipBitExtraction_5_3_17, scalarBaseMult_SkipBitExtraction_4_2_32, scalarBaseMult_SkipBitExtraction_7_3_12} {
			p, err := f(c.k)
			if err != nil || !bytes.Equal(p.Bytes(), c.kG) { t.Fatalf("case %%d: base multiplication (scheme %%d) differs from [k]G", i, n) }
		}
		p, err := ScalarMult(P, c.k)
		if err != nil || !bytes.Equal(p.Bytes(), c.kP) { t.Fatalf("case %%d: ScalarMult differs from [k]P", i) }
		m, err := ScalarMixedMult_Unsafe(c.k, P, c.s)
		if err != nil || !bytes.Equal(m.Bytes(), c.mixed) { t.Fatalf("case %%d: ScalarMixedMult_Unsafe differs from [k]G+[s]P", i) }
		// the same point in other projective representatives (Z != 1) and negated
		dbl := NewSM2Point().Double(P); half := NewSM2Point().Add(dbl, NewSM2Point().Negate(P))
		mz, err := ScalarMixedMult_Unsafe(c.k, half, c.s)
		if err != nil || !bytes.Equal(mz.Bytes(), c.mixed) { t.Fatalf("case %%d: ScalarMixedMult_Unsafe with P given as a projective representative with Z != 1 differs from [k]G+[s]P", i) }
		pz, err := ScalarMult(half, c.k)
		if err != nil || !bytes.Equal(pz.Bytes(), c.kP) { t.Fatalf("case %%d: ScalarMult with P given with Z != 1 differs from [k]P", i) }
		g := NewSM2Generator()
		m2, _ := ScalarMixedMult_Unsafe(c.k, g, c.s)
		w2, _ := ScalarBaseMult(c.k); w3, _ := ScalarMult(g, c.s); w2.Add(w2, w3)
		if !bytes.Equal(m2.Bytes(), w2.Bytes()) { t.Fatalf("case %%d: mixed multiplication with P = G", i) }
	}
}''' % (go_bytes(enc(Pp)), '\n'.join(rows))
    # variable-point multiplication with scalars of other lengths (solver witnesses and fixed ones)
    shorts = [[1], [2], [0], [1, 0], [0x12, 0x34, 0x56], [0xff] * 31, [0] * 31 + [3], [1] + [0] * 32, [0xff] * 33, []]
    for k_, fl in fails.items():
        for desc, wit in fl:
            if wit and wit[0] == 'mult' and wit[1] != 32:
                shorts.append(list(wit[2]))
    srows = []
    for sc in shorts[:40]:
        kv = int.from_bytes(bytes(sc), 'big') if sc else 0
        srows.append('{%s, %s},' % (go_bytes(sc) if sc else '[]byte{}', go_bytes(enc(ref.mul(kv % N, Pp)))))
    grows = []
    for sc in shorts[:40]:
        kv = int.from_bytes(bytes(sc), 'big') if sc else 0
        grows.append('{%s, %s},' % (go_bytes(sc) if sc else '[]byte{}', go_bytes(enc(ref.mul(kv % N)))))
    src = src.rstrip()[:-1] + '''	short := []struct{ k, kP []byte }{
%s
	}
	for i, c := range short {
		p, err := ScalarMult(P, c.k)
		if err != nil || !bytes.Equal(p.Bytes(), c.kP) { t.Fatalf("short case %%d: ScalarMult with a %%d-byte scalar differs from [k]P", i, len(c.k)) }
	}
	// special point arguments: the generator itself (Z = 1 and Z != 1) and the point at infinity, with scalars of every length class
	shortG := []struct{ k, kG []byte }{
%s
	}
	gen := NewSM2Generator()
	gen2 := NewSM2Point().Add(NewSM2Point().Double(gen), NewSM2Point().Negate(gen))
	for i, c := range shortG {
		for j, q := range []*SM2Point{gen, gen2} {
			p, err := ScalarMult(q, c.k)
			if err != nil || !bytes.Equal(p.Bytes(), c.kG) { t.Fatalf("short case %%d: ScalarMult(G (form %%d), %%d-byte scalar) differs from [k]G: err=%%v", i, j, len(c.k), err) }
		}
		p, err := ScalarMult(NewSM2Point(), c.k)
		if err != nil || !bytes.Equal(p.Bytes(), []byte{0}) { t.Fatalf("short case %%d: [k]O is not O", i) }
	}
}''' % ('\n'.join(srows), '\n'.join(grows))
    okr, outr, pathr = ck.go_test('sm2/internal', src, name='scalarmult', timeout=600)
    if okr is True:
        ck.validated += len(rows)
    for k, fl in sorted(fails.items()):
        desc = fl[0][0]
        if okr is False:
            ck.record('mult[' + k + ']', 'violated', desc + ' - confirmed on the real build against the affine reference: ' + (outr or '')[-160:].replace('\n', ' '))
            ck.violation(k, desc, pathr)
        else:
            ck.record('mult[' + k + ']', 'inconclusive', desc + ' - not reproduced by the special/solver-chosen scalars on the real build')
    if okr is False and not fails:
        ck.record('reference_scalars', 'violated', 'real build differs from the affine reference on special scalars: ' + (outr or '')[-200:].replace('\n', ' '))
        ck.violation('scalar-reference', 'scalar multiplication differs from the integer multiple on special scalars (0, 1, n-1, n, n+1, 2^256-1, ...)', pathr)
    if unknown:
        ck.record('mult_unknown', 'inconclusive', 'solver unknown: %s' % unknown[:4])
    if not fails:
        ck.record('base_mult', 'proved', 'all four comb schemes: coefficient of G == integer value of k for every 32-byte k; other lengths refused', ck.bounds[0], secs,
                  sample=dict(scheme='6_3_14', claim='forall k in {0..255}^32: sum over the 14x3 windows of 2^(...)*bits + low 4 bits == BE(k)'))
        if not any(str(u).startswith('ScalarMult') for u in unknown):
            ck.record('variable_point_mult', 'proved', 'coefficient of P == integer value of the scalar for all contents, lengths %s' % lens)
        if not step_bad:
            ck.record('double_scalar_step', 'proved', '%d iteration paths: acc\' = 2*acc + (comb windows at this position)*G + (NAF digit)*P, final iteration adds the low 4 bits; loop index decreases by one' % nsteps)
    ck.finish()


class SymTab:
    """x or y pointer of the table entry selected by a symbolic window value: table key, coordinate (0 = x, 1 = y), multiplier"""

    def __init__(self, key, coord, mult):
        self.key, self.coord, self.mult = key, coord, mult


if __name__ == '__main__':
    guarded_main('C14', main)
