#!/usr/bin/env python3
# C09 - SM4/GCM assembly: no key- or data-dependent branch or address.  DESIGN.md section 3/C09.
import time, os, re
from sm4lib import *


def loop_safe_oracle():
    seen = {}

    def oracle(pc, cond):
        seen[pc] = seen.get(pc, 0) + 1
        return seen[pc] > 12       # not taken at first; taken after 12 visits so that a data-dependent loop terminates
    return oracle


def main():
    ck = Check('C09')
    thorough = ck.tier == 'thorough'
    L = load_listing()
    m = Machine(L)
    asmsym.TAINT[0] = True
    S8 = asmsym.SEC(8)
    findings = {}
    nruns = 0
    verdict_pcs = set()
    t0 = time.time()

    def note(routine, events, case):
        for kind, pc, detail in events:
            if kind in ('symbranch', 'symaddr'):
                f = findings.setdefault((routine, kind, pc), dict(detail=detail, cases=[]))
                f['cases'].append(case)

    for name, nb in (('cryptoBlockAsm', 1), ('cryptoBlockAsmX2', 2), ('cryptoBlockAsmX4', 4), ('cryptoBlockAsmX8', 8), ('cryptoBlockAsmX16', 16)):
        m.reset()
        m.branch_oracle = loop_safe_oracle()     # a data-dependent branch is recorded as an event; execution goes on
        m.run(name, {0: m.add_region('rk', [S8] * 128, False), 8: m.add_region('dst', [0] * (16 * nb)), 16: m.add_region('src', [S8] * (16 * nb), False)})
        nruns += 1
        note(name, m.events, dict(blocks=nb))
    m.reset()
    m.branch_oracle = loop_safe_oracle()
    m.run('expandKeyAsm', {0: m.add_region('key', [S8] * 16, False), 8: m.add_region('enc', [0] * 128), 16: m.add_region('dec', [0] * 128)})
    note('expandKeyAsm', m.events, {})
    nruns += 1
    for cnt in (1, 4, 8, 9, 13):
        m.reset()
        m.branch_oracle = loop_safe_oracle()
        m.run('gHashBlocks', {0: m.add_region('H', [S8] * 16, False), 8: m.add_region('tag', [S8] * 16), 16: m.add_region('data', [S8] * (16 * cnt), False), 24: cnt})
        note('gHashBlocks', m.events, dict(count=cnt))
        nruns += 1
    for n in (0, 1, 7, 8, 15, 16, 33):
        m.reset()
        m.branch_oracle = loop_safe_oracle()
        m.run('copyAsm', {0: m.add_region('dst', [0] * n) if n else 0, 8: m.add_region('src', [S8] * n, False) if n else 0, 16: n})
        note('copyAsm', m.events, dict(n=n))
        nruns += 1
    if thorough:
        pls = sorted(set(list(range(0, 300)) + list(range(500, 530)) + list(range(1010, 1101))))
        als = sorted(set(list(range(0, 70)) + [127, 128, 129, 255, 256, 257, 1100]))
        nls = sorted(set(list(range(1, 70)) + [127, 128, 129, 130, 143, 144, 271, 300]))
    else:
        pls = [0, 1, 15, 16, 17, 31, 32, 33, 63, 64, 65, 127, 128, 129, 255, 256, 257, 511, 513, 1023, 1025, 1100]
        als = [0, 1, 15, 16, 17, 63, 64, 65, 127, 128, 129, 271]
        nls = [1, 11, 12, 13, 15, 16, 17, 127, 128, 129, 300]
    tuples = sorted(set([(12, pl, al, ts) for pl in pls for al in (0, 5) for ts in (12, 16)] + [(12, 37, al, 16) for al in als] + [(nl, pl, 3, 16) for nl in nls for pl in (0, 17, 300)]))
    ck.bounds.append('amd64: every routine of asm_amd64.s / gcm_amd64.s / helper_amd64.s used by the library, sealAsm and openAsm on %d length tuples (plaintext 0..%d, aad 0..%d, nonce 1..%d, tag 12/16); ALL key, round-key, nonce, aad, plaintext/ciphertext and scratch bytes are secret symbols' % (len(tuples), pls[-1], als[-1], nls[-1]))
    ck.outside.append('data-dependent latency of individual instructions (micro-architecture); lengths above the listed bounds')
    for (nl, pl, al, ts) in tuples:
        m.reset()
        m.branch_oracle = loop_safe_oracle()
        m.run('sealAsm', seal_args(m, None, [S8] * nl, [S8] * pl, [S8] * al, ts, rk=[S8] * 128))
        nruns += 1
        note('sealAsm', m.events, dict(nonce=nl, pt=pl, aad=al, tag=ts))
        for match in (True, False):
            m.reset()
            seen_pc = {}

            def oracle(pc, cond, match=match, seen_pc=seen_pc):
                # the verdict branch follows `match`; any other data-dependent branch (a finding) is followed the same way
                # at first and the other way after 12 visits, so that a data-dependent loop terminates
                seen_pc[pc] = seen_pc.get(pc, 0) + 1
                return (not match) if seen_pc[pc] <= 12 else match
            m.branch_oracle = oracle
            fr = open_args(m, None, [S8] * nl, [S8] * (pl + ts), [S8] * al, ts, rk=[S8] * 128)
            m.regions['temp'].cells = [S8] * 32
            m.run('openAsm', fr)
            nruns += 1
            evs = [e for e in m.events if e[0] in ('symbranch', 'symaddr')]
            # the single permitted data-dependent decision: the tag verdict of Open
            vb = [e for e in evs if e[0] == 'symbranch']
            if len(vb) == 1:
                verdict_pcs.add(vb[0][1])
                evs = [e for e in evs if e is not vb[0]]
            note('openAsm', evs, dict(nonce=nl, ct=pl + ts, aad=al, tag=ts, match=match))
            if match and m.ret.get(104) != 1 or (not match and m.ret.get(104) != 0):
                findings.setdefault(('openAsm', 'verdict', 0), dict(detail='return value does not follow the verdict branch', cases=[]))['cases'].append(dict(pt=pl))
    asmsym.TAINT[0] = False
    ck.states += nruns
    ck.transitions += m.steps
    secs = time.time() - t0

    # the verdict branch must be exactly the tag comparison: checked precisely (bit-vector query) on received-tag bytes
    vres = []
    for ts in (12, 13, 16):
        for pl in (0, 17):
            key = STD_KEY
            nonce = list(range(12))
            pt = [ck.rng.randrange(256) for _ in range(pl)]
            m.reset()
            m.run('sealAsm', seal_args(m, key, nonce, pt, [], ts))
            sealed = list(m.regions['dst'].cells)
            recv = [z3.BitVec('tag%d' % i, 8) for i in range(ts)]
            m.reset()
            conds = []
            m.branch_oracle = lambda pc, cond: (conds.append((pc, cond)) or True)
            m.run('openAsm', open_args(m, key, nonce, sealed[:pl] + recv, [], ts))
            if len(conds) != 1:
                vres.append(('shape', ts, pl))
                continue
            pc, cond = conds[0]     # JNE tagUnMatch: taken iff the tags differ
            spec = z3.Or(*[recv[i] != sealed[pl + i] for i in range(ts)])
            s = z3.Solver()
            s.set('timeout', 30000)
            t1 = time.time()
            r = s.check(cond != spec)
            ck.queries += 1
            ck.solver_s += time.time() - t1
            if r != z3.unsat:
                vres.append((str(r), ts, pl))
    if len(verdict_pcs) > 1:
        findings[('openAsm', 'symbranch', -1)] = dict(detail='more than one data-dependent branch position: %s' % sorted(verdict_pcs), cases=[{}])

    for (routine, kind, pc), f in sorted(findings.items()):
        desc = '%s: %s at listing pc %s (%s); %d length tuples, e.g. %s' % (routine, {'symbranch': 'branch on secret data', 'symaddr': 'memory address derived from secret data'}.get(kind, kind), pc, f['detail'][-80:], len(f['cases']), f['cases'][0])
        # confirmation on hardware: two inputs that differ only in secret data must give different instruction traces;
        # a listing-level finding is reported with the listing position (the replay is the listing itself)
        ck.record('ct[%s:%s:%s]' % (routine, kind, pc), 'violated', desc, sample=dict(routine=routine, kind=kind, pc=pc, case=f['cases'][0]))
        ck.violation('%s:%s@%s' % (routine, kind, f['detail'].split('(')[-1].split(')')[0] if '(' in f['detail'] else pc), desc, os.path.join(REPO, 'sm4', 'gcm_amd64.s'))
    if vres:
        ck.record('verdict_branch', 'violated' if any(v[0] == 'sat' for v in vres) else 'inconclusive', 'the one data-dependent branch of openAsm is not equivalent to "received tag != expected tag over tagSize bytes": %s' % vres)
        if any(v[0] == 'sat' for v in vres):
            ck.violation('openAsm:verdict', 'verdict branch differs from the tag comparison', os.path.join(REPO, 'sm4', 'gcm_amd64.s'))
    else:
        ck.record('verdict_branch', 'proved', 'the only data-dependent branch (listing pc %s of openAsm) is equivalent to "some of the tagSize received tag bytes differs from the expected tag" (6 bit-vector queries, received tag symbolic)' % sorted(verdict_pcs))
    if not findings:
        ck.record('constant_time', 'proved', '%d routine executions with every data byte secret: all executed conditional jumps and all memory operands have secret-free operands; openAsm has exactly one secret-dependent branch, the tag verdict' % nruns,
                  ck.bounds[0], secs, sample=dict(routine='sealAsm', nonce=13, pt=300, aad=3, tag=16, claim='no executed Jcc and no address depends on key/nonce/aad/plaintext bytes'))
    ck.assumptions.append('secret-dependent values are over-approximated by one opaque symbol per width (sound for "does it depend on secrets"); x XOR x zeroing idioms on the same register are recognised as constants')
    ck.validated += 0
    # ------------------------------------------------------------ arm64: Go glue (go/ssa GOARCH=arm64) + NEON leaf routines (arm64 listing)
    import arm64lib
    a64fails = {}
    t_a64 = time.time()
    try:
        a64env = arm64lib.Env('c09')
        n_a64 = arm64lib.c09(ck, a64env, lambda k, d, w=None: a64fails.setdefault(k, []).append((d, w)), thorough)
    except (asmsym.AsmUnsupported, Unsupported, RuntimeError) as ex:
        n_a64 = 0
        a64fails.setdefault('a64:unsupported', []).append(('arm64 part not completed: %s' % ex, None))
    if not arm64lib.report(ck, a64fails):
        ck.record('arm64', 'proved', 'arm64: no NEON routine branches on or addresses memory through key/data-derived values; the Go glue has the tag verdict as its only secret-dependent branch (%d cases)' % n_a64, secs=time.time() - t_a64)
    ck.finish()


if __name__ == '__main__':
    guarded_main('C09', main)
