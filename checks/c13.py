#!/usr/bin/env python3
# C13 - identity and message are bound into the digest as the standard says.  DESIGN.md section 3/C13.
import time, os
from sm2lib import *
import sm3 as sm3spec

ZB = list(ref.b32(ref.A) + ref.b32(ref.B) + ref.b32(ref.GX) + ref.b32(ref.GY))


def same_cells(a, b):
    if len(a) != len(b):
        return False
    for x, y in zip(a, b):
        if sm2model.cell_key(x) != sm2model.cell_key(y):
            return False
    return True


def main():
    ck = Check('C13')
    prog = dump_ssa('c13')
    thorough = ck.tier == 'thorough'
    # lengths at and beyond 2^16 (and 2^17) are the ones a length narrowed to 16 bits before the test wraps back into the accepted range (seed C13_j)
    wrap = [65535, 65536, 65552, 73727, 131072]
    idlens = ([0, 1, 16, 31, 32, 55, 64, 255, 256, 4096, 8190, 8191, 8192, 8193, 8200, 16384, 70000] if thorough else [0, 1, 16, 8191, 8192, 8193, 16384]) + wrap
    ck.bounds.append('ZA: id lengths %s with symbolic contents, public key coordinates 32 symbolic bytes; wrappers with id 16 / message lengths 0, 5, 70' % idlens)
    ck.outside.append('id lengths not listed (ENTL and the length test are the only length-dependent code)')
    ck.assumptions += ['sm3 hash object = uninterpreted digest of the concatenation of written slices (C04 shows the real object computes SM3 of that concatenation)']
    eng = proto_engine(prog)
    eng.deadline = time.time() + (240 if not thorough else 1800)     # normally 3 s; a changed tree can fork on data-dependent lengths
    fails = {}
    t0 = time.time()
    nruns = 0

    def spec_pre(idb, xb, yb):
        entl = (len(idb) * 8)
        return [(entl >> 8) & 0xff, entl & 0xff] + list(idb) + ZB + list(xb) + list(yb)

    for L in idlens:
        def run(e, L=L):
            idb = sym_bytes(e, 'id', L)
            xb = sym_bytes(e, 'x', 32)
            yb = sym_bytes(e, 'y', 32)
            ids_, xs_, ys_ = e.new_slice(idb) if L else e.new_slice([]), e.new_slice(xb), e.new_slice(yb)
            e.store_log = set()
            out = e.call_outcome(SM2 + '.ZA', [ids_, xs_, ys_])
            wrote = set(e.store_log)
            e.store_log = None
            if out.kind == 'panic':
                return [('ZA.panic', 'ZA panics for id of %d bytes: %s' % (L, out.panic.msg), L)]
            za, err = out.values
            # ZA = SM3(preimage) must hold whoever else is running: a store into an object that existed before the call (package-level
            # state, an argument) makes the preimage depend on concurrent callers
            shared = [o for o in wrote if o < e.global_snapshot[2] or o in (ids_.obj, xs_.obj, ys_.obj)]
            if shared:
                return [('ZA.writes-shared', 'ZA writes to package-level state or to an argument (heap object %s): concurrent calls see each other\'s bytes' % str(e.heap[shared[0]][1])[:60], L)]
            if L >= 8192:
                if err is None:
                    return [('ZA.toolong', 'id of %d bytes (bit length does not fit ENTL) is accepted' % L, L)]
                return []
            if err is not None:
                return [('ZA.refused', 'id of %d bytes refused' % L, L)]
            want = e.digest_int(spec_pre(idb, xb, yb))
            cells = e.slice_list(za)
            if len(cells) != 32 or not all(isinstance(c, ByteOf) and c.x.eq(want) and c.j == j for j, c in enumerate(cells)):
                return [('ZA.preimage', 'ZA preimage differs from ENTL||id||a||b||Gx||Gy||x||y for id of %d bytes' % L, L)]
            return []
        for r in eng.explore(run):
            nruns += 1
            for f in r:
                fails.setdefault(f[0], []).append(f)

    # constants block
    def run_z(e):
        zb = e.slice_list(e.load(e.global_ptr(SM2 + '.zBytes')))
        return zb == ZB
    z_ok = eng.explore(run_z)[0]

    # wrappers: Sign/SignZa/Verify/VerifyZa == digest-level functions at e = H(ZA || M)
    captured = {}

    def cap(name):
        def f(e, a, ins):
            captured[name] = a
            if name == 'SignHashed':
                return (e.new_slice([1] * 32), e.new_slice([2] * 32), None)
            return (True, None)
        return f
    eng.intercepts[SM2 + '.SignHashed'] = cap('SignHashed')
    eng.intercepts[SM2 + '.VerifyHashed'] = cap('VerifyHashed')
    wfail = []
    wcases = [(16, ML) for ML in ([0, 5, 70] if not thorough else [0, 1, 5, 31, 32, 33, 64, 70, 200])] + [(0, 5), ('nil', 5), (1, 0), (33, 5)]
    for IDL, ML in wcases:
        def run_w(e, ML=ML, IDL=IDL):
            idb = sym_bytes(e, 'id', IDL if IDL != 'nil' else 0)
            xb = sym_bytes(e, 'x', 32)
            yb = sym_bytes(e, 'y', 32)
            mb = sym_bytes(e, 'm', ML)
            pb = sym_bytes(e, 'p', 32)
            rb = sym_bytes(e, 'r', 32)
            sb = sym_bytes(e, 's', 32)
            ids, xs, ys, ms, ps, rs, ss = [e.new_slice(v) if v else e.new_slice([]) for v in (idb, xb, yb, mb, pb, rb, sb)]
            if IDL == 'nil':
                ids = NILSLICE
            rd = sm2model.new_reader(e, 1)
            d1 = e.digest_int(spec_pre(idb, xb, yb))
            zacells = [ByteOf(d1, j, 32) for j in range(32)]
            d2 = e.digest_int(zacells + mb)
            bad = []

            def is_e(sl):
                c = e.slice_list(sl)
                return len(c) == 32 and all(isinstance(x, ByteOf) and x.x.eq(d2) and x.j == j for j, x in enumerate(c))
            captured.clear()
            out = e.call_outcome(SM2 + '.Sign', [ids, xs, ys, rd, ps, ms])
            a = captured.get('SignHashed')
            if out.kind != 'return' or a is None or a[0] is not rd or a[1].obj != ps.obj or not is_e(a[2]) or out.values[2] is not None or e.slice_list(out.values[0]) != [1] * 32:
                bad.append('Sign')
            captured.clear()
            za = e.new_slice(zacells)
            out = e.call_outcome(SM2 + '.SignZa', [rd, ps, za, ms])
            a = captured.get('SignHashed')
            if out.kind != 'return' or a is None or a[0] is not rd or a[1].obj != ps.obj or not is_e(a[2]):
                bad.append('SignZa')
            captured.clear()
            out = e.call_outcome(SM2 + '.Verify', [ids, xs, ys, ms, rs, ss])
            a = captured.get('VerifyHashed')
            if out.kind != 'return' or a is None or a[0].obj != xs.obj or a[1].obj != ys.obj or not is_e(a[2]) or a[3].obj != rs.obj or a[4].obj != ss.obj or out.values != (True, None):
                bad.append('Verify')
            captured.clear()
            out = e.call_outcome(SM2 + '.VerifyZa', [xs, ys, za, ms, rs, ss])
            a = captured.get('VerifyHashed')
            if out.kind != 'return' or a is None or not is_e(a[2]) or a[0].obj != xs.obj or a[3].obj != rs.obj or a[4].obj != ss.obj:
                bad.append('VerifyZa')
            # over-long id must be refused by the message-level entry points too
            longid = e.new_slice([0] * 8192)
            captured.clear()
            out = e.call_outcome(SM2 + '.Sign', [longid, xs, ys, rd, ps, ms])
            if out.kind != 'return' or out.values[2] is None or 'SignHashed' in captured:
                bad.append('Sign(long id)')
            out = e.call_outcome(SM2 + '.Verify', [longid, xs, ys, ms, rs, ss])
            if out.kind != 'return' or out.values[1] is None or out.values[0] is not False:
                bad.append('Verify(long id)')
            return bad
        for r in eng.explore(run_w):
            nruns += 1
            if r:
                wfail.append(((IDL, ML), r))
    secs = time.time() - t0
    ck.absorb(eng)
    if getattr(eng, 'budget_hit', None):
        ck.record('za[time-budget]', 'inconclusive', 'symbolic exploration stopped at its time budget (%d decision prefixes left)' % eng.budget_hit)

    # ------------------------------------------------------------ verdicts and replays
    def special_pubs():
        """coordinate pairs for the replays: a real point and byte strings with leading zero bytes (ZA hashes the 32-byte
        encodings as given, so a coordinate whose integer value is short must still contribute 32 bytes)"""
        pt = ref.mul(ck.rng.randrange(1, N - 1))
        return [pt, (ck.rng.getrandbits(248), ck.rng.getrandbits(256)), (ck.rng.getrandbits(256), ck.rng.getrandbits(240)), (1, 0)]

    def replay_za(L):
        idv = [ck.rng.randrange(256) for _ in range(L)]
        stmts = []
        for pub in special_pubs():
            if L >= 8192:
                stmts.append('if za, err := ZA(id, %s, %s); err == nil { t.Fatalf("id of %d bytes accepted, za=%%x", za) }' % (go_bytes(b32(pub[0])), go_bytes(b32(pub[1])), L))
            else:
                want = ref.za(bytes(idv), pub[0], pub[1])
                stmts.append('if za, err := ZA(id, %s, %s); err != nil || !bytes.Equal(za, %s) { t.Fatalf("ZA differs from the standard for x=%064x y=%064x: %%x err=%%v", za, err) }' % (
                    go_bytes(b32(pub[0])), go_bytes(b32(pub[1])), go_bytes(list(want)), pub[0], pub[1]))
        src = '''package sm2
import ("testing"; "bytes")
var _ = bytes.Equal
func TestVerifReplay(t *testing.T) {
	id := %s
	%s
}''' % (go_bytes(idv), '\n\t'.join(stmts))
        return ck.go_test('sm2', src, name='za_%d' % L)

    def replay_za_concurrent():
        src = '''package sm2
import ("testing"; "bytes"; "sync")
func TestVerifReplay(t *testing.T) {
	const G = 8
	id := []byte("1234567812345678")
	xs, ys, want := make([][]byte, G), make([][]byte, G), make([][]byte, G)
	for i := 0; i < G; i++ {
		priv := make([]byte, 32); for j := range priv { priv[j] = byte(i*17 + j*3 + 1) }
		xs[i], ys[i], _ = DerivePublic(priv)
		want[i], _ = ZA(id, xs[i], ys[i])
	}
	var wg sync.WaitGroup
	for i := 0; i < G; i++ {
		wg.Add(1)
		go func(i int) {
			defer wg.Done()
			for n := 0; n < 20000; n++ {
				za, err := ZA(id, xs[i], ys[i])
				if err != nil || !bytes.Equal(za, want[i]) { t.Errorf("worker %d: ZA under concurrent calls differs from ZA run alone", i); return }
			}
		}(i)
	}
	wg.Wait()
}'''
        return ck.go_test('sm2', src, name='za_concurrent', timeout=600)

    for key, fl in sorted(fails.items()):
        Ls = sorted(set(f[2] for f in fl))
        ok, out, path = replay_za_concurrent() if key == 'ZA.writes-shared' else replay_za(Ls[0])
        if ok is False:
            ck.record('za[' + key + ']', 'violated', '%s; failing id lengths %s' % (fl[0][1], Ls), sample=dict(id_len=Ls[0]))
            ck.violation(key + '@len=' + ','.join(map(str, Ls)), fl[0][1], path)
        else:
            ck.encoder_mismatch('za[' + key + ']', (out or '')[-200:])
    if not fails:
        ck.record('za', 'proved', '%d id lengths: preimage == ENTL||id||a||b||Gx||Gy||x||y, ids of >= 8192 bytes refused' % len(idlens), ck.bounds[0], secs,
                  sample=dict(obligation='za', id_len=8191, claim='bytes written to the hash == 0xfff8 || id || params || x || y'))
    if z_ok:
        ck.record('curve_parameter_block', 'proved', 'a||b||Gx||Gy literal equals the GM/T 0003.5 parameters')
    else:
        src = '''package sm2
import ("testing"; "bytes")
func TestVerifReplay(t *testing.T) {
	if !bytes.Equal(zBytes, %s) { t.Fatalf("curve parameter block differs from the standard") }
}''' % go_bytes(ZB)
        ok, out, path = ck.go_test('sm2', src, name='zbytes')
        if ok is False:
            ck.record('curve_parameter_block', 'violated', 'a||b||Gx||Gy block differs from the standard parameters')
            ck.violation('zBytes', 'curve parameter block differs from the standard', path)
        else:
            ck.encoder_mismatch('curve_parameter_block', (out or '')[-200:])
    if True:
        names = sorted(set(n for _, r in wfail for n in r))
        # replay: wrappers against the reference built from the digest-level functions
        dv = ck.rng.randrange(1, N - 1)
        pub = ref.mul(dv)
        idv = list(b'1234567812345678')
        msg = list(b'message digest')
        kv = ck.rng.randrange(1, N)
        zav = ref.za(bytes(idv), pub[0], pub[1])
        ev = int.from_bytes(sm3spec.digest(zav + bytes(msg)), 'big')
        r_, s_ = ref.sign_k(dv, ev, kv)
        src = '''package sm2
import ("testing"; "bytes"; "github.com/bilibili/smgo/sm3")
type verifReader struct{ b []byte; used int }
func (r *verifReader) Read(p []byte) (int, error) { if r.used >= len(r.b) { for i := range p { p[i] = 0x5a }; r.used += len(p); return len(p), nil }; n := copy(p, r.b[r.used:]); r.used += n; return n, nil }
func TestVerifReplay(t *testing.T) {
	id, px, py, msg, priv := %s, %s, %s, %s, %s
	r, s, err := Sign(id, px, py, &verifReader{b: %s}, priv, msg)
	if err != nil || !bytes.Equal(r, %s) || !bytes.Equal(s, %s) { t.Fatalf("Sign differs from SignHashed(H(ZA||M)): r=%%x s=%%x err=%%v", r, s, err) }
	ok, err := Verify(id, px, py, msg, r, s)
	if !ok || err != nil { t.Fatalf("Verify rejects") }
	za, _ := ZA(id, px, py)
	ok, err = VerifyZa(px, py, za, msg, r, s)
	if !ok || err != nil { t.Fatalf("VerifyZa rejects") }
	r2, s2, err := SignZa(&verifReader{b: %s}, priv, za, msg)
	if err != nil || !bytes.Equal(r2, r) || !bytes.Equal(s2, s) { t.Fatalf("SignZa differs") }
	// the empty and the nil id are ids like any other (ENTL = 0): wrappers must agree with the digest-level functions at e = H(ZA(id)||M)
	for _, eid := range [][]byte{{}, nil, {0x41}} {
		zaE, err := ZA(eid, px, py); if err != nil { t.Fatalf("ZA(empty id): %%v", err) }
		h := sm3.New(); h.Write(zaE); h.Write(msg); eE := h.Sum(nil)
		rE, sE, err := Sign(eid, px, py, &verifReader{b: %s}, priv, msg)
		if err != nil { t.Fatalf("Sign(id of %%d bytes): %%v", len(eid), err) }
		if ok, err := VerifyHashed(px, py, eE, rE, sE); !ok || err != nil { t.Fatalf("Sign with an id of %%d bytes does not sign e = H(ZA(id)||M)", len(eid)) }
		if ok, err := Verify(eid, px, py, msg, rE, sE); !ok || err != nil { t.Fatalf("Verify with an id of %%d bytes rejects the signature made for that id", len(eid)) }
		if ok, _ := Verify(id, px, py, msg, rE, sE); ok { t.Fatalf("Verify accepts a signature made for a different id") }
	}
	// arguments that are adjacent sub-slices of one buffer (za||px||py||msg): the wrappers must not depend on, or write to,
	// whatever lies behind an argument
	{
		zaS, _ := ZA(id, px, py)
		buf := append(append(append(append([]byte{}, zaS...), px...), py...), msg...)
		zb, xb, yb, mb := buf[0:32:len(buf)], buf[32:64:len(buf)], buf[64:96:len(buf)], buf[96:len(buf):len(buf)]
		if ok, err := VerifyZa(xb, yb, zb, mb, r, s); !ok || err != nil { t.Fatalf("VerifyZa with adjacent argument slices: ok=%%v err=%%v", ok, err) }
		if ok, err := Verify(id, xb, yb, mb, r, s); !ok || err != nil { t.Fatalf("Verify with adjacent argument slices: ok=%%v err=%%v", ok, err) }
		if !bytes.Equal(buf, append(append(append(append([]byte{}, zaS...), px...), py...), msg...)) { t.Fatalf("a wrapper modified the buffer its arguments live in") }
	}
	long := make([]byte, 8192)
	if _, _, err := Sign(long, px, py, &verifReader{b: %s}, priv, msg); err == nil { t.Fatalf("Sign accepts 8192-byte id") }
	if ok, err := Verify(long, px, py, msg, r, s); ok || err == nil { t.Fatalf("Verify accepts 8192-byte id") }
}''' % (go_bytes(idv), go_bytes(b32(pub[0])), go_bytes(b32(pub[1])), go_bytes(msg), go_bytes(b32(dv)), go_bytes(b32(kv)), go_bytes(b32(r_)), go_bytes(b32(s_)), go_bytes(b32(kv)), go_bytes(b32(kv)), go_bytes(b32(kv)))
        ok, out, path = ck.go_test('sm2', src, name='wrappers')
        if ok is False:
            ck.record('wrappers', 'violated', 'entry points %s do not behave like the digest-level functions at e = SM3(ZA||M): %s' % (names or 'Sign/Verify/SignZa/VerifyZa', (out or '')[-200:].replace('\n', ' ')))
            ck.violation('wrappers:' + ','.join(names or ['replay']), 'id/message-level entry points differ from digest-level ones', path)
        elif wfail:
            ck.record('wrappers', 'inconclusive', 'symbolic mismatch for %s not reproduced on the standard vector' % names)
        elif ok is True:
            ck.validated += 1
    if not wfail and not any(k.startswith('wrappers') for k, _, _ in ck.violations):
        ck.record('wrappers', 'proved', 'Sign/SignZa/Verify/VerifyZa call the digest-level function with e = H(ZA-digest || M), pass rand/priv/r/s through unchanged, and refuse over-long ids')

    # concrete validation on the real build (standard vector + random)
    rows = []
    sp = special_pubs()
    # the symbolic part treats the sm3 object as an uninterpreted digest (assumption above); the id lengths 0..129 put the ZA
    # preimage into every residue class mod 64 of the SM3 padding twice, so that a padding defect of the real object shows here
    zl = [16, 0, 55, 8191, 16, 32, 100] + list(range(0, 130))
    pub0 = ref.mul(ck.rng.randrange(1, N - 1))
    for i in range(len(zl)):
        L = zl[i]
        idv = [ck.rng.randrange(256) for _ in range(L)]
        pub = (pub0 if i >= 7 else ref.mul(ck.rng.randrange(1, N - 1))) if (i < 4 or i >= 7) else sp[i - 3]
        rows.append('{%s,%s,%s,%s},' % (go_bytes(idv), go_bytes(b32(pub[0])), go_bytes(b32(pub[1])), go_bytes(list(ref.za(bytes(idv), pub[0], pub[1])))))
    src = '''package sm2
import ("testing"; "bytes")
func TestVerifReplay(t *testing.T) {
	cases := []struct{ id, x, y, za []byte }{
%s
	}
	for i, c := range cases {
		za, err := ZA(c.id, c.x, c.y)
		if err != nil || !bytes.Equal(za, c.za) { t.Fatalf("case %%d: ZA differs from reference (id %%d bytes)", i, len(c.id)) }
	}
}''' % '\n'.join(rows)
    ok, out, path = ck.go_test('sm2', src, name='validate')
    if ok is True:
        ck.validated += len(zl)
    elif ok is False:
        ck.record('reference_za', 'violated', 'ZA on the real build differs from the reference (real SM3 + real ZA): ' + (out or '')[-200:].replace('\n', ' '))
        ck.violation('ZA.reference', 'ZA differs from the reference on concrete ids', path)
    # message-level entry points over every residue class of the hashed length ZA||M (message lengths 0..129): signatures
    # computed by the reference (specs/sm2.py + specs/sm3.py) must be what Sign/SignZa produce and what Verify/VerifyZa accept
    dv = ck.rng.randrange(1, N - 1)
    pubm = ref.mul(dv)
    idm = list(b'1234567812345678')
    zam = ref.za(bytes(idm), pubm[0], pubm[1])
    kv = ck.rng.randrange(1, N)
    x1 = ref.mul(kv)[0]
    mrows = []
    for ML in range(0, 130):
        mv = [ck.rng.randrange(256) for _ in range(ML)]
        ev = int.from_bytes(sm3spec.digest(zam + bytes(mv)), 'big')
        r_ = (ev + x1) % N
        if r_ == 0 or r_ + kv == N:
            continue
        s_ = pow(1 + dv, -1, N) * (kv - r_ * dv) % N
        if s_ == 0:
            continue
        mrows.append('{%s,%s,%s},' % (go_bytes(mv), go_bytes(b32(r_)), go_bytes(b32(s_))))
    src = '''package sm2
import ("testing"; "bytes")
type verifReaderM struct{ b []byte; used int }
func (r *verifReaderM) Read(p []byte) (int, error) { if r.used >= len(r.b) { for i := range p { p[i] = 0x5a }; r.used += len(p); return len(p), nil }; n := copy(p, r.b[r.used:]); r.used += n; return n, nil }
func TestVerifReplay(t *testing.T) {
	id, px, py, priv, k := %s, %s, %s, %s, %s
	za, err := ZA(id, px, py); if err != nil { t.Fatal(err) }
	cases := []struct{ msg, r, s []byte }{
%s
	}
	for _, c := range cases {
		if ok, err := Verify(id, px, py, c.msg, c.r, c.s); !ok || err != nil { t.Fatalf("Verify rejects the reference signature of a %%d-byte message", len(c.msg)) }
		if ok, err := VerifyZa(px, py, za, c.msg, c.r, c.s); !ok || err != nil { t.Fatalf("VerifyZa rejects the reference signature of a %%d-byte message", len(c.msg)) }
		r, s, err := Sign(id, px, py, &verifReaderM{b: k}, priv, c.msg)
		if err != nil || !bytes.Equal(r, c.r) || !bytes.Equal(s, c.s) { t.Fatalf("Sign differs from the reference for a %%d-byte message", len(c.msg)) }
		r, s, err = SignZa(&verifReaderM{b: k}, priv, za, c.msg)
		if err != nil || !bytes.Equal(r, c.r) || !bytes.Equal(s, c.s) { t.Fatalf("SignZa differs from the reference for a %%d-byte message", len(c.msg)) }
	}
}''' % (go_bytes(idm), go_bytes(b32(pubm[0])), go_bytes(b32(pubm[1])), go_bytes(b32(dv)), go_bytes(b32(kv)), '\n'.join(mrows))
    ok, out, path = ck.go_test('sm2', src, name='validate_msg')
    if ok is True:
        ck.validated += len(mrows)
    elif ok is False:
        ck.record('reference_msg', 'violated', 'message-level entry points differ from the reference (standard SM3 over ZA||M): ' + (out or '')[-200:].replace('\n', ' '))
        ck.violation('wrappers.reference', 'Sign/SignZa/Verify/VerifyZa differ from the reference on concrete messages (every residue of the hashed length mod 64)', path)
    ck.finish()


if __name__ == '__main__':
    guarded_main('C13', main)
