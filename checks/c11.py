#!/usr/bin/env python3
# C11 - memory safety: no access outside the slices and objects handed in.  DESIGN.md section 3/C11.
import time, os, re
from sm4lib import *


def main():
    ck = Check('C11')
    thorough = ck.tier == 'thorough'
    L = load_listing()
    prog = dump_ssa('c11')
    rng = ck.rng
    key = STD_KEY
    rkb = rk_bytes(round_keys(key))
    findings = {}   # class key -> dict(desc, routine, cases)
    nruns = 0
    t0 = time.time()
    m = Machine(L)

    def note(routine, events, case):
        for cls, evs in classify(events).items():
            k = routine + ':' + cls
            f = findings.setdefault(k, dict(routine=routine, cls=cls, cases=[], detail=evs[0][2], pcs=set()))
            f['cases'].append(case)
            f['pcs'].update(e[1] for e in evs)

    # ------------------------------------------------------------ A. assembly routines on exactly-sized regions
    for name, nb in (('cryptoBlockAsm', 1), ('cryptoBlockAsmX2', 2), ('cryptoBlockAsmX4', 4), ('cryptoBlockAsmX8', 8), ('cryptoBlockAsmX16', 16)):
        for inplace in (False, True):
            m.reset()
            a_rk = m.add_region('rk', rkb, False)
            src = [rng.randrange(256) for _ in range(16 * nb)]
            if inplace:
                a_d = m.add_region('dst', src)
                a_s = a_d
            else:
                a_d = m.add_region('dst', [0] * (16 * nb))
                a_s = m.add_region('src', src, False)
            m.run(name, {0: a_rk, 8: a_d, 16: a_s})
            nruns += 1
            note(name, m.events, dict(blocks=nb, inplace=inplace))
    m.reset()
    m.run('expandKeyAsm', {0: m.add_region('key', key, False), 8: m.add_region('enc', [0] * 128), 16: m.add_region('dec', [0] * 128)})
    note('expandKeyAsm', m.events, {})
    for n in range(0, 41):
        m.reset()
        m.run('copyAsm', {0: m.add_region('dst', [0] * n) if n else 0, 8: m.add_region('src', [1] * n, False) if n else 0, 16: n})
        nruns += 1
        note('copyAsm', m.events, dict(n=n))
    m.reset()
    m.run('needExpand', {0: 0, 8: 3, 16: 10, 24: 8})
    note('needExpand', m.events, {})
    for cnt in (1, 3, 4, 7, 8, 9, 12, 13):
        m.reset()
        m.run('gHashBlocks', {0: m.add_region('H', [5] * 16, False), 8: m.add_region('tag', [0] * 16), 16: m.add_region('data', [7] * (16 * cnt), False), 24: cnt})
        nruns += 1
        note('gHashBlocks', m.events, dict(count=cnt))

    if thorough:
        pls = sorted(set(list(range(0, 70)) + [127, 128, 129, 255, 256, 257, 271, 300, 511, 512, 513, 767, 1023, 1024, 1025, 1099, 1100]))
        als = sorted(set(list(range(0, 36)) + [63, 64, 65, 127, 128, 129, 271, 1100]))
        nls = sorted(set(list(range(1, 36)) + [63, 64, 65, 127, 128, 129, 130, 143, 271, 300]))
    else:
        pls = [0, 1, 15, 16, 17, 31, 32, 33, 63, 64, 65, 127, 129, 255, 257, 513, 1025, 1100]
        als = [0, 1, 15, 16, 17, 127, 128, 129]
        nls = [1, 11, 12, 13, 16, 17, 127, 128, 129]
    tuples = [(12, pl, al, 16) for pl in pls for al in (0, 5)] + [(12, pl, 0, 12) for pl in pls] + [(12, 37, al, 16) for al in als] + \
             [(nl, pl, 3, ts) for nl in nls for pl in (0, 17) for ts in (12, 16)]
    tuples = sorted(set(tuples))
    ck.bounds.append('sealAsm/openAsm on exactly-sized regions: %d (nonce,plaintext,aad,tag) length tuples (plaintext %d..%d, aad up to %d, nonce 1..%d, tag 12..16); block kernels X1..X16 in and out of place; copyAsm 0..40; key expansion' % (
        len(tuples), pls[0], pls[-1], als[-1], nls[-1]))
    ck.outside.append('lengths above 1100 bytes')
    for (nl, pl, al, ts) in tuples:
        nonce = [rng.randrange(256) for _ in range(nl)]
        pt = [rng.randrange(256) for _ in range(pl)]
        aad = [rng.randrange(256) for _ in range(al)]
        m.reset()
        m.run('sealAsm', seal_args(m, key, nonce, pt, aad, ts, rk=rkb))
        nruns += 1
        note('sealAsm', m.events, dict(nonce=nl, pt=pl, aad=al, tag=ts))
        sealed = list(m.regions['dst'].cells)
        m.reset()
        m.run('openAsm', open_args(m, key, nonce, sealed, aad, ts, rk=rkb))
        nruns += 1
        note('openAsm', m.events, dict(nonce=nl, ct=pl + ts, aad=al, tag=ts))
        if m.ret.get(104) != 1:
            findings.setdefault('openAsm:no-match', dict(routine='openAsm', cls='does not accept its own seal output', cases=[], detail='', pcs=set()))['cases'].append(dict(nonce=nl, pt=pl, aad=al, tag=ts))
    ck.transitions += m.steps
    ck.states += nruns

    # ------------------------------------------------------------ B. Go glue (go/ssa) + assembly: short buffers and slice lengths
    eng = new_engine(prog, cando_asm=True)
    asmbridge.install(eng, L)
    glue = []

    def run_glue(e):
        res = []
        blk, _ = e.call(SM4 + '.NewCipher', [e.new_slice(key)])
        gen, _ = e.call(SM4 + '.newCipherGeneric', [e.new_slice(key)])
        for label, c in (('asm', blk), ('generic', gen)):
            for meth in ('Encrypt', 'Decrypt'):
                for (dl, sl) in ((16, 16), (16, 3), (3, 16), (16, 15), (15, 16), (0, 16), (16, 0), (17, 17)):
                    # backing arrays are larger than the slices: bytes beyond len must not be touched
                    dobj = e.new_slice([0] * 32)
                    sobj = e.new_slice([1] * 32)
                    d = Slice(dobj.obj, (), 0, dl, 32)
                    s = Slice(sobj.obj, (), 0, sl, 32)
                    e.asm_valid[(dobj.obj, ())] = dl
                    e.asm_valid[(sobj.obj, ())] = sl
                    ncalls = len(e.asm_calls)
                    out = e.call_outcome('(*%s.%s).%s' % (SM4, blk.t.split('.')[-1] if label == 'asm' else 'sm4Cipher', meth), [c.v, d, s])
                    evs = [ev for call in e.asm_calls[ncalls:] for ev in call.events]
                    short = dl < 16 or sl < 16
                    if short and out.kind != 'panic':
                        touched = e.heap[dobj.obj][0][dl:] != [0] * (32 - dl) or bool(evs) or label == 'generic'
                        res.append(('%s.%s' % (label, meth), 'short', dict(dst=dl, src=sl), 'a %d-byte destination / %d-byte source is accepted without panic%s' % (dl, sl, ' and memory beyond the slice is accessed' if touched else '')))
                    if not short and out.kind == 'panic':
                        res.append(('%s.%s' % (label, meth), 'panic', dict(dst=dl, src=sl), 'panics on full blocks: ' + out.panic.msg))
                    if not short and evs:
                        res.append(('%s.%s' % (label, meth), 'oob', dict(dst=dl, src=sl), evs[0][2]))
        return res
    glue = eng.explore(run_glue)[0]
    ck.absorb(eng)
    for who, kind, case, desc in glue:
        k = 'glue:%s:%s' % (who, kind)
        f = findings.setdefault(k, dict(routine=who, cls=kind, cases=[], detail=desc, pcs=set()))
        f['cases'].append(case)

    # Seal / Open through the public methods with slices that are shorter than their backing arrays
    eng = new_engine(prog, cando_asm=True)
    asmbridge.install(eng, L)

    def run_api(e):
        res = []
        blk, _ = e.call(SM4 + '.NewCipher', [e.new_slice(key)])
        for ts in (12, 16):
            aead, _ = e.call('(*%s.sm4CipherAsm).NewGCM' % SM4, [blk.v, 12, ts])
            for pl in ([0, 1, 5, 16, 17, 33] if not thorough else [0, 1, 2, 5, 15, 16, 17, 31, 33, 63, 65, 129, 257]):
                nonce = e.new_slice(list(range(12)))
                pobj = e.new_slice([3] * (pl + 40))
                pt = Slice(pobj.obj, (), 0, pl, pl + 40)
                e.asm_valid[(pobj.obj, ())] = pl
                n0 = len(e.asm_calls)
                out = e.call_outcome('(*%s.sm4GcmAsm).Seal' % SM4, [aead.v, NILSLICE, nonce, pt, NILSLICE])
                evs = [ev for call in e.asm_calls[n0:] for ev in call.events]
                if out.kind == 'panic':
                    res.append(('Seal', 'panic', dict(pt=pl, tag=ts), 'Seal panics: ' + out.panic.msg))
                    continue
                for cls, ev in classify(evs).items():
                    res.append(('Seal', cls, dict(pt=pl, tag=ts), ev[0][2]))
                sealed = e.slice_list(out.values)
                cobj = e.new_slice(sealed + [0] * 40)
                ctx = Slice(cobj.obj, (), 0, len(sealed), len(sealed) + 40)
                e.asm_valid[(cobj.obj, ())] = len(sealed)
                n0 = len(e.asm_calls)
                out = e.call_outcome('(*%s.sm4GcmAsm).Open' % SM4, [aead.v, NILSLICE, nonce, ctx, NILSLICE])
                evs = [ev for call in e.asm_calls[n0:] for ev in call.events]
                if out.kind == 'panic':
                    res.append(('Open', 'panic', dict(ct=len(sealed), tag=ts), 'Open panics: ' + out.panic.msg))
                    continue
                for cls, ev in classify(evs).items():
                    res.append(('Open', cls, dict(ct=len(sealed), tag=ts), ev[0][2]))
            # ciphertext shorter than the tag: error, no assembly call
            for cl in range(0, ts):
                for dstlen in (None, 16):
                    n0 = len(e.asm_calls)
                    dst_ = NILSLICE if dstlen is None else e.new_slice([0] * dstlen)
                    out = e.call_outcome('(*%s.sm4GcmAsm).Open' % SM4, [aead.v, dst_, e.new_slice(list(range(12))), e.new_slice([1] * cl) if cl else NILSLICE, NILSLICE])
                    if out.kind == 'panic' or out.values[1] is None or len(e.asm_calls) != n0:
                        res.append(('Open', 'short-ciphertext', dict(ct=cl, tag=ts, dst=dstlen), 'ciphertext shorter than the tag is not refused before touching memory'))
        return res
    api = eng.explore(run_api)[0]
    ck.absorb(eng)
    for who, kind, case, desc in api:
        k = 'api:%s:%s' % (who, kind)
        f = findings.setdefault(k, dict(routine=who, cls=kind, cases=[], detail=desc, pcs=set()))
        f['cases'].append(case)
    secs = time.time() - t0

    # ------------------------------------------------------------ replays against PROT_NONE guard pages
    def test_src(body, extra_imports=''):
        return 'package sm4\n' + GUARD_IMPORTS.replace(')', '; "unsafe"; "crypto/cipher"%s)' % extra_imports) + '\nvar _ = unsafe.Pointer(nil)\nvar _ cipher.Block\n' + GUARD_HELPERS + '\nfunc TestVerifReplay(t *testing.T) {\n' + body + '\n}\n'

    keylit = go_bytes(key)

    def replay_for(k, f):
        r, cls = f['routine'], f['cls']
        case = f['cases'][0]
        if k.startswith('glue:') and cls == 'short':
            typ = 'newCipher' if r.startswith('asm') else 'newCipherGeneric'
            meth = r.split('.')[1]
            body = '''	c, _ := %s(%s)
	dst := guarded(%d); src := guarded(%d)
	if %s { dst = make([]byte, 64)[:len(dst)]; src = make([]byte, 64)[:len(src)] }
	panicked := false
	noFault(t, "%s on short buffers", func() {
		defer func() { if x := recover(); x != nil { if re, ok := x.(runtime.Error); ok && (strings.Contains(re.Error(), "fault") || strings.Contains(re.Error(), "invalid memory address")) { panic(x) }; panicked = true } }()
		c.%s(dst[:%d], src[:%d])
	})
	if !panicked { t.Fatalf("short buffer accepted silently") }''' % (typ, keylit, max(case['dst'], 1), max(case['src'], 1), 'true' if r.startswith('generic') else 'false', r, meth, case['dst'], case['src'])
            return test_src(body)
        if 'rk' in cls or (r.startswith('cryptoBlockAsm') and 'object' in cls):
            body = '''	rk := guarded(128)
	var c sm4Cipher
	expandKey(%s, &c.enc, &c.dec)
	for i, w := range c.enc { rk[4*i] = byte(w); rk[4*i+1] = byte(w >> 8); rk[4*i+2] = byte(w >> 16); rk[4*i+3] = byte(w >> 24) }
	dst := make([]byte, 256); src := make([]byte, 256)
	noFault(t, "round keys at the end of a page", func() { %s((*uint32)(unsafe.Pointer(&rk[0])), &dst[0], &src[0]) })''' % (keylit, r if r.startswith('cryptoBlockAsm') else 'cryptoBlockAsm')
            return test_src(body)
        if r in ('sealAsm', 'Seal') and (cls == 'oob' or cls.startswith('write')):
            # a store outside the destination: dst ends exactly at the end of a page (capacity == needed), appended in place
            cases = f['cases'][:10]
            body = '''	b, _ := NewCipher(%s)
	for _, c := range [][4]int{%s} {
		a, err := b.(interface{ NewGCM(int, int) (cipher.AEAD, error) }).NewGCM(c[0], c[3])
		if err != nil { t.Fatal(err) }
		buf := guarded(c[1] + c[3])
		pt := make([]byte, c[1]); aad := make([]byte, c[2]); nonce := make([]byte, c[0])
		noFault(t, "Seal appending into a destination that ends at a page boundary", func() { a.Seal(buf[:0], nonce, pt, aad) })
	}''' % (keylit, ', '.join('{%d, %d, %d, %d}' % (c.get('nonce', 12), c.get('pt', 0), c.get('aad', 0), c.get('tag', 16)) for c in cases))
            return test_src(body)
        if r in ('sealAsm', 'Seal', 'openAsm', 'Open') and ('read' in cls or 'object' in cls or 'pt' in cls or 'ct' in cls):
            # a load outside an input: nonce, additional data and plaintext / ciphertext each end exactly at the end of a page
            cases = f['cases'][:10]
            body = '''	b, _ := NewCipher(%s)
	for _, c := range [][4]int{%s} {
		a, err := b.(interface{ NewGCM(int, int) (cipher.AEAD, error) }).NewGCM(c[0], c[3])
		if err != nil { t.Fatal(err) }
		mk := func(n int) []byte { if n == 0 { return nil }; g := guarded(n); for i := range g { g[i] = byte(i*7 + 1) }; return g }
		nonce, pt, aad := mk(c[0]), mk(c[1]), mk(c[2])
		var sealed []byte
		noFault(t, "Seal with nonce, additional data and plaintext each ending at a page boundary", func() { sealed = a.Seal(nil, nonce, pt, aad) })
		ct := mk(len(sealed)); copy(ct, sealed)
		noFault(t, "Open with nonce, additional data and ciphertext each ending at a page boundary", func() {
			if _, err := a.Open(nil, nonce, ct, aad); err != nil { t.Fatalf("open failed: %%v", err) }
		})
	}''' % (keylit, ', '.join('{%d, %d, %d, %d}' % (c.get('nonce', 12), c.get('pt', max(0, c.get('ct', 16) - c.get('tag', 16))), c.get('aad', 0), c.get('tag', 16)) for c in cases))
            return test_src(body)
        if r == 'copyAsm':
            ns = sorted(set(c.get('n', 1) for c in f['cases']))[:12]
            body = '''	for _, n := range []int{%s} {
		dst := guarded(n); src := guarded(n)
		for i := range src { src[i] = byte(i + 1) }
		noFault(t, "copyAsm with both buffers ending at a page boundary", func() { copyAsm(&dst[0], &src[0], n) })
		for i := range src { if dst[i] != src[i] { t.Fatalf("copyAsm(%%d) copies wrongly", n) } }
	}''' % ', '.join(str(n) for n in ns if n > 0)
            return test_src(body)
        if cls == 'short-ciphertext':
            # the ciphertext starts at the first byte of a page whose predecessor is PROT_NONE: a read in front of it faults
            cases = f['cases'][:12]
            body = '''	b, _ := NewCipher(%s)
	ps := syscall.Getpagesize()
	mem, err := syscall.Mmap(-1, 0, 3*ps, syscall.PROT_READ|syscall.PROT_WRITE, syscall.MAP_ANON|syscall.MAP_PRIVATE)
	if err != nil { t.Skip(err) }
	if err := syscall.Mprotect(mem[:ps], syscall.PROT_NONE); err != nil { t.Skip(err) }
	for _, c := range [][3]int{%s} {
		a, _ := cipher.NewGCMWithTagSize(b, c[1])
		ct := mem[ps : ps+c[0] : ps+c[0]]
		var dst []byte
		if c[2] > 0 { dst = make([]byte, c[2]) }
		func() {
			defer func() { if x := recover(); x != nil { if re, ok := x.(runtime.Error); ok && (strings.Contains(re.Error(), "fault") || strings.Contains(re.Error(), "invalid memory address")) { panic(x) }; t.Fatalf("Open(%%d-byte ciphertext, tag %%d) panics instead of returning an error: %%v", c[0], c[1], x) } }()
			noFault(t, "Open with a ciphertext shorter than the tag", func() {
				if _, err := a.Open(dst, make([]byte, 12), ct, nil); err == nil { t.Fatalf("Open(%%d-byte ciphertext, tag %%d) succeeds", c[0], c[1]) }
			})
		}()
	}''' % (keylit, ', '.join('{%d, %d, %d}' % (c['ct'], c['tag'], c.get('dst') or 0) for c in cases))
            return test_src(body)
        if cls == 'panic' and r in ('Seal', 'Open'):
            body = '''	b, _ := NewCipher(%s)
	a, _ := cipher.NewGCM(b)
	s := a.Seal(nil, make([]byte, 12), make([]byte, %d), nil)
	if _, err := a.Open(nil, make([]byte, 12), s, nil); err != nil { t.Fatalf("%%v", err) }''' % (keylit, case.get('pt', 0))
            return test_src(body)
        return None

    for k, f in sorted(findings.items()):
        ncase = len(f['cases'])
        src = replay_for(k, f)
        desc = '%s: %s (%d cases, e.g. %s; listing pcs %s)' % (k, f['detail'], ncase, f['cases'][0], sorted(f['pcs'])[:4])
        if src is None:
            if 'CK' in f['cls'] or 'rodata' in f['cls'] or re.search(r'read-[A-Z]', f['cls']):
                # read past a read-only data symbol of the binary: cannot fault, reported from the listing
                ck.record('memsafe[' + k + ']', 'violated', desc + ' - static finding (adjacent rodata is mapped, no dynamic reproduction)')
                ck.violation(k, desc, os.path.join(REPO, 'sm4', 'asm_amd64.s'))
            else:
                ck.record('memsafe[' + k + ']', 'inconclusive', desc + ' - no replay template')
            continue
        ok, out, path = ck.go_test('sm4', src, name='mem_' + re.sub(r'\W', '_', k))
        if ok is False:
            ck.record('memsafe[' + k + ']', 'violated', desc, sample=dict(finding=k, case=f['cases'][0]))
            ck.violation(k, desc, path)
        elif ok is True:
            ck.record('memsafe[' + k + ']', 'inconclusive', desc + ' - listing-level finding not reproduced as a fault on this host')
        else:
            ck.record('memsafe[' + k + ']', 'inconclusive', desc + ' - replay did not build: ' + (out or '')[-200:])
    if not findings:
        ck.record('memsafe', 'proved', '%d routine executions: every memory operand of every executed instruction stays inside its declared region (exact sizes, slice length not capacity); short blocks panic, short ciphertexts are refused before any assembly call' % nruns,
                  ck.bounds[0], secs, sample=dict(routine='sealAsm', nonce=12, pt=17, aad=5, tag=16, claim='all loads/stores within rk[0:128), nonce, pt, aad, dst[0:pt+tag), temp[0:32)'))
    ck.assumptions.append('control flow and addresses of the assembly depend only on lengths (property C09 decides this), so concrete data suffices for footprints')
    ck.assumptions.append('regions have arbitrary placement: addresses are (region, offset) pairs and every access is compared with the region size, so page-end placement is covered; alignment-faulting forms are flagged syntactically')

    # engine validation: interpreter output == real routine on concrete inputs
    vals = []
    for (nl, pl, al, ts) in [(12, 37, 5, 16), (13, 300, 0, 12), (129, 64, 17, 16)]:
        nonce = [rng.randrange(256) for _ in range(nl)]
        pt = [rng.randrange(256) for _ in range(pl)]
        aad = [rng.randrange(256) for _ in range(al)]
        m.reset()
        m.run('sealAsm', seal_args(m, key, nonce, pt, aad, ts, rk=rkb))
        vals.append((nonce, pt, aad, ts, list(m.regions['dst'].cells)))
    rows = '\n'.join('{%s,%s,%s,%d,%s},' % (go_bytes(a), go_bytes(b), go_bytes(c), d, go_bytes(e_)) for a, b, c, d, e_ in vals)
    src = '''package sm4
import ("testing"; "bytes")
func TestVerifReplay(t *testing.T) {
	cases := []struct{ nonce, pt, aad []byte; ts int; want []byte }{
%s
	}
	b, _ := NewCipher(%s)
	for i, c := range cases {
		a, err := b.(gcmAble).NewGCM(len(c.nonce), c.ts)
		if err != nil { t.Skip(err) }
		if got := a.Seal(nil, c.nonce, c.pt, c.aad); !bytes.Equal(got, c.want) { t.Fatalf("case %%d: interpreter and real routine disagree", i) }
	}
}''' % (rows, keylit)
    ok, out, path = ck.go_test('sm4', src, name='validate')
    if ok is True:
        ck.validated += len(vals)
    elif ok is False:
        ck.record('engine_validation', 'inconclusive', 'assembly interpreter and the real routine disagree: ' + (out or '')[-200:])
    # ------------------------------------------------------------ arm64: Go glue (go/ssa GOARCH=arm64) + NEON leaf routines (arm64 listing)
    import arm64lib
    a64fails = {}
    t_a64 = time.time()
    try:
        a64env = arm64lib.Env('c11')
        n_a64 = arm64lib.c11(ck, a64env, lambda k, d, w=None: a64fails.setdefault(k, []).append((d, w)), thorough)
    except (asmsym.AsmUnsupported, Unsupported, RuntimeError) as ex:
        n_a64 = 0
        a64fails.setdefault('a64:unsupported', []).append(('arm64 part not completed: %s' % ex, None))
    if not arm64lib.report(ck, a64fails):
        ck.record('arm64', 'proved', 'arm64: every access of every NEON leaf routine inside its region; the Go glue passes sufficiently large buffers and never panics on valid inputs (%d cases)' % n_a64, secs=time.time() - t_a64)
    ck.finish()


if __name__ == '__main__':
    guarded_main('C11', main)
