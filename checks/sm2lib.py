# shared harness pieces for the SM2 protocol-level checks (C01, C02, C03, C12, C13, C19)
import sys, os
sys.path.insert(0, os.path.join(os.path.dirname(os.path.abspath(__file__)), '..', 'engine'))
sys.path.insert(0, os.path.join(os.path.dirname(os.path.abspath(__file__)), '..', 'specs'))
import z3
from common import *
from gosym import *
from harness import *
import models, sm2model
from sm2model import N, P, X, Y, OnCurve
import sm2 as ref

SM2 = MOD + '/sm2'


def proto_engine(prog, timeout_ms=3000, faults=False):
    eng = new_engine(prog, timeout_ms=timeout_ms)
    eng.use_linear_abstraction()
    sm2model.install(eng)
    sm2model.install_reader(eng)
    sm2model.install_hash(eng)
    return eng


def int_input(e, name, nbytes, lo=0, hi=None):
    """fresh integer with its nbytes big-endian encoding as lazy cells"""
    v = e.fresh_int(name)
    hi = 256 ** nbytes - 1 if hi is None else hi
    e.assume(z3.And(v >= lo, v <= hi))
    e.big_bounds[models.id_of(v)] = (lo, hi, v)
    cells = [ByteOf(v, j, nbytes) for j in range(nbytes)]
    return v, e.new_slice(cells)


def slice_value(e, s):
    """(python/z3 integer value, length) of a result slice with concrete bounds"""
    if s.obj is None:
        return None, 0
    v, _, _ = models.slice_int(e, s)
    return v, s.len


def mval(m, t):
    if isinstance(t, int):
        return t
    r = m.eval(t, model_completion=True)
    return r.as_long()


def b32(v):
    return list(v.to_bytes(32, 'big'))


def spec_r(e, eint, k):
    """r = (e + x1) mod n with x1 the x-coordinate of [k]G"""
    sm2model.reg_point(e, k)
    return e.int_mod(eint + X(k), N)


def is_err(v):
    return v is not None


def check_with_assist(s, timeout_ms):
    """s.check(); when z3 answers unknown on these linear-integer + UF systems with 256-bit coefficients (it does,
    where cvc5 needs a second), ask cvc5 for a model of the same SMT-LIB text, pin its values for the constants and
    let z3 confirm: the model returned is always a z3 model of the original assertions"""
    import subprocess, tempfile, re as _re
    rr = s.check()
    if rr == z3.sat:
        return rr, s.model()
    if rr != z3.unknown:
        return rr, None
    txt = s.to_smt2() + '\n(get-model)\n'
    with tempfile.NamedTemporaryFile('w', suffix='.smt2', dir=OUT, delete=False) as f:
        f.write(txt)
        path = f.name
    try:
        r = subprocess.run(['cvc5', '--produce-models', '--tlimit=%d' % max(timeout_ms, 30000), path], capture_output=True, text=True, timeout=max(timeout_ms, 30000) / 1000 + 30)
        out = r.stdout
    except Exception:
        out = ''
    finally:
        os.unlink(path)
    if not out.startswith('sat'):
        return z3.unknown, None
    consts = {}
    for d in s.assertions():
        pass
    decls = {}

    def collect(t, seen):
        if t.get_id() in seen:
            return
        seen.add(t.get_id())
        if z3.is_const(t) and t.decl().kind() == z3.Z3_OP_UNINTERPRETED:
            decls[t.decl().name()] = t
        for c in t.children():
            collect(c, seen)
    seen = set()
    for a in s.assertions():
        collect(a, seen)
    pins = []
    for mm in _re.finditer(r'\(define-fun \|?([^\s|]+)\|? \(\) (Int|\(_ BitVec \d+\)) (.+)\)\s*$', out, _re.M):
        name, sort, val = mm.group(1), mm.group(2), mm.group(3).strip()
        if name not in decls:
            continue
        if sort == 'Int':
            v = val.replace('(', '').replace(')', '').replace(' ', '')
            try:
                pins.append(decls[name] == int(v))
            except ValueError:
                pass
        elif val.startswith('#b'):
            pins.append(decls[name] == int(val[2:], 2))
        elif val.startswith('#x'):
            pins.append(decls[name] == int(val[2:], 16))
    s.push()
    for p_ in pins:
        s.add(p_)
    r2 = s.check()
    m = s.model() if r2 == z3.sat else None
    s.pop()
    return (z3.sat, m) if m is not None else (z3.unknown, None)


def solve_with_truth(e, pins, extra=(), timeout=20000, rounds=8):
    """exact model of the path condition after pinning integer symbols to concrete values (pins: list of
    (term, int)) with the uninterpreted curve functions / inverses replaced by their true values: first at the
    pinned arguments, then (refinement loop) at whatever group elements the model chooses, until the model is
    consistent with the real curve.  With the products gone the remaining constraints are linear."""
    sub = [(t, z3.IntVal(v)) for t, v in pins]
    facts = [t == v for t, v in pins]
    for v, r, m in e.inv_facts:
        vv = z3.simplify(z3.substitute(v, *sub))
        if z3.is_int_value(vv) and vv.as_long() % m:
            facts.append(r == pow(vv.as_long(), -1, m))
    s = z3.Solver()
    s.set('timeout', timeout)
    for c in e.pc:
        s.add(c)
    for f in facts:
        s.add(f)
    for x in extra:
        s.add(x)
    for rnd in range(rounds):
        rr, m = check_with_assist(s, timeout)
        if os.environ.get('VERIF_DEBUG'):
            print('  [truth round %d] %s' % (rnd, rr), file=sys.stderr)
        if rr != z3.sat:
            return None
        consistent = True
        for key, u in list(e.known_points.items()):
            uv = m.eval(u, model_completion=True).as_long()
            pt = ref.mul(uv % N)
            tx, ty = (pt[0], pt[1]) if pt else (0, 0)
            s.add(z3.Implies(u == uv, z3.And(X(u) == tx, Y(u) == ty)))
            if m.eval(X(u), model_completion=True).as_long() != tx or m.eval(Y(u), model_completion=True).as_long() != ty:
                consistent = False
                # try to keep this group element where the model put it (the digest usually absorbs the change)
                s.push()
                s.add(u == uv)
                r3, m3 = check_with_assist(s, timeout)
                if r3 == z3.sat:
                    m = m3
                else:
                    s.pop()
        for v, r, mm in e.inv_facts:
            vv = m.eval(v, model_completion=True).as_long()
            if vv % mm and m.eval(r, model_completion=True).as_long() != pow(vv, -1, mm):
                consistent = False
                s.add(z3.Implies(v == vv, r == pow(vv, -1, mm)))
        if consistent:
            return m
    return None


def equality_obligation(prog, ck, T='SM2Element', M=None):
    """real (*fiat.SM2Element).Equal and IsZero: with Bytes() replaced by 32 arbitrary bytes per receiver (its
    contract: the canonical encoding, proved separately), the result is 1 exactly when the two encodings agree in all 32
    bytes (IsZero: when all 32 are zero) and 0 otherwise.  Returns (verdict, detail, witness (a, b) or None)."""
    FIAT = MOD + '/sm2/internal/fiat'
    M = P if M is None else M
    eng = new_engine(prog, timeout_ms=60000)
    cur = {}

    def fake_bytes(e, a, ins):
        if getattr(e, 'in_init', False):
            return e.new_slice([0] * 32)          # sm2ZeroEncoding = encoding of the zero element
        recv = a[0]
        return e.new_slice(list(cur.get(recv.obj, cur.get('other'))))
    eng.intercepts['(*%s.%s).Bytes' % (FIAT, T)] = fake_bytes
    bad = []

    def run_eq(e):
        av, bv_ = sym_bytes(e, 'a', 32), sym_bytes(e, 'b', 32)
        o1 = e.new_obj([[0, 0, 0, 0]], FIAT + '.' + T)
        o2 = e.new_obj([[0, 0, 0, 0]], FIAT + '.' + T)
        cur.clear(); cur[o1] = av; cur[o2] = bv_; cur['other'] = bv_
        e.assume(z3.And(z3.ULT(bytes_to_bv(av), z3.BitVecVal(M, 256)), z3.ULT(bytes_to_bv(bv_), z3.BitVecVal(M, 256))))
        out = e.call_outcome('(*%s.%s).Equal' % (FIAT, T), [Ptr(o1, ()), Ptr(o2, ())])
        if out.kind != 'return':
            return ('cex', 'Equal panics: ' + out.panic.msg, None, av, bv_)
        r = tobv(out.values[0] if isinstance(out.values, (list, tuple)) else out.values, 64)
        A, B = bytes_to_bv(av), bytes_to_bv(bv_)
        pr = e.prove(z3.And(z3.Or(r == 0, r == 1), (r == 1) == (A == B)))
        return (pr[0], 'Equal is not "all 32 bytes of the canonical encodings agree"', pr[1], av, bv_)

    def run_zero(e):
        av = sym_bytes(e, 'a', 32)
        o1 = e.new_obj([[0, 0, 0, 0]], FIAT + '.' + T)
        cur.clear(); cur[o1] = av; cur['other'] = av
        e.assume(z3.ULT(bytes_to_bv(av), z3.BitVecVal(M, 256)))
        out = e.call_outcome('(*%s.%s).IsZero' % (FIAT, T), [Ptr(o1, ())])
        if out.kind != 'return':
            return ('cex', 'IsZero panics: ' + out.panic.msg, None, av, [0] * 32)
        r = tobv(out.values[0] if isinstance(out.values, (list, tuple)) else out.values, 64)
        A = bytes_to_bv(av)
        pr = e.prove(z3.And(z3.Or(r == 0, r == 1), (r == 1) == (A == 0)))
        return (pr[0], 'IsZero is not "all 32 bytes of the canonical encoding are zero"', pr[1], av, [0] * 32)
    for fn in (run_eq, run_zero):
        for r in eng.explore(fn):
            if r[0] != 'proved':
                bad.append(r)
    ck.absorb(eng)
    if not bad:
        return True, 'Equal == 1 <=> the 32-byte encodings agree; IsZero == 1 <=> the encoding is all zero (all 2^512 / 2^256 byte strings)', None
    for b in bad:
        if b[0] == 'cex' and b[2] is not None:
            return 'cex', b[1], (model_bytes(b[2], b[3]), model_bytes(b[2], b[4]))
    return ('cex' if any(b[0] == 'cex' for b in bad) else 'unknown'), bad[0][1], None


def setbytes_obligation(prog, ck, T, M, pre):
    """real (*fiat.T).SetBytes on bit-vectors: accepts exactly the 32-byte encodings of values < M and hands the
    decoded value to the Montgomery conversion; other lengths are refused.  Returns (verdict, detail)."""
    FIAT = MOD + '/sm2/internal/fiat'
    eng = new_engine(prog, timeout_ms=60000)
    seen = {}

    def tomont(e, a, ins):
        seen['limbs'] = [tobv(x, 64) for x in e.load(a[1])]
        e.store(a[0], [0, 0, 0, 0])
        return None
    eng.intercepts[FIAT + '.%sToMontgomery' % pre] = tomont
    bad = []

    def run_sb(e):
        v = sym_bytes(e, 'v', 32)
        obj = e.new_obj([[0, 0, 0, 0]], FIAT + '.' + T)
        seen.clear()
        out = e.call_outcome('(*%s.%s).SetBytes' % (FIAT, T), [Ptr(obj, ()), e.new_slice(list(v))])
        if out.kind != 'return':
            return ('cex', 'panic ' + out.panic.msg, None, v)
        p, err = out.values
        V = bytes_to_bv(v)
        if err is None:
            if 'limbs' not in seen:
                return ('cex', 'accepted without converting', None, v)
            val = z3.Concat(seen['limbs'][3], seen['limbs'][2], seen['limbs'][1], seen['limbs'][0])
            r = e.prove(z3.And(z3.ULT(V, z3.BitVecVal(M, 256)), val == V))
        else:
            r = e.prove(z3.UGE(V, z3.BitVecVal(M, 256)))
        return (r[0], 'accept/reject or decoded value wrong', r[1], v)
    for r in eng.explore(run_sb):
        if r[0] != 'proved':
            bad.append(r)

    def run_len(e):
        rs = []
        for L in (0, 1, 31, 33, 64):
            obj = e.new_obj([[0, 0, 0, 0]], FIAT + '.' + T)
            out = e.call_outcome('(*%s.%s).SetBytes' % (FIAT, T), [Ptr(obj, ()), e.new_slice([0] * L) if L else e.new_slice([])])
            if out.kind != 'return' or out.values[1] is None:
                rs.append(L)
        return rs
    lens_bad = eng.explore(run_len)[0]
    ck.absorb(eng)
    if not bad and not lens_bad:
        return True, 'decode accepts exactly 32-byte encodings of values < m and hands the value to the Montgomery conversion', None
    wit = None
    for b in bad:
        if b[0] == 'cex' and b[2] is not None:
            wit = model_bytes(b[2], b[3])
            break
    return ('cex' if wit is not None or lens_bad or any(b[0] == 'cex' for b in bad) else 'unknown'), 'SetBytes misjudges encodings (%s; lengths %s)' % (bad[0][1] if bad else '', lens_bad), wit
