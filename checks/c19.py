#!/usr/bin/env python3
# C19 - a failing randomness source yields an error, never a key or signature.  DESIGN.md section 3/C19.
import time, os
from sm2lib import *


def main():
    ck = Check('C19', level='fault_enumeration')
    prog = dump_ssa('c19')
    thorough = ck.tier == 'thorough'
    budget = 2 if thorough else 1
    maxc = 3 if thorough else 2
    ck.assumptions += sm2model.CONTRACTS
    ck.assumptions.append('io.ReadFull / io.ReadAtLeast are executed from their real go/ssa; the caller-supplied Reader is a stub')
    rule = ('fault schedules: every Read call may behave as {full read, short read without error, error before any byte, partial data + EOF, '
            'all data + error, zero bytes without error}; up to %d non-nominal reads per run at any call index, up to %d candidates; data bytes and key/digest symbolic; '
            'a schedule is non-trivial when it contains at least one non-nominal read' % (budget, maxc))
    ck.bounds.append(rule)
    ck.outside.append('more than %d non-nominal reads in one run; more than %d candidates; readers that return n > len(p) or panic (contract violations of io.Reader); blocking readers' % (budget, maxc))
    eng = proto_engine(prog)
    eng.max_instrs = 4_000_000_000
    fails = {}
    scheds = set()
    nontrivial = set()
    npaths = 0
    samples = []
    t0 = time.time()

    def common(e, rd, out, what, outputs_nil, success_ok):
        stub = rd.v
        sched = tuple(stub.log)
        scheds.add((what,) + sched)
        if any(w != n or err for (w, n, err) in sched):
            nontrivial.add((what,) + sched)
        if len(samples) < 8 and any(w != n or err for (w, n, err) in sched):
            samples.append(dict(entry=what, reads=[dict(asked=w, got=n, err=err) for (w, n, err) in sched], outcome=out.kind if out.kind == 'panic' else ('error' if out.values[-1] is not None else 'success')))
        res = []
        if out.kind == 'panic':
            res.append((what + '.panic', '%s panics under schedule %s: %s' % (what, sched, out.panic.msg), sched))
            return res
        err = out.values[-1]
        # every group operation must have been fed a completely delivered candidate
        for ent in e.sm2_log:
            if ent[0] == 'basemult':
                kv = ent[1]
                if not any((not isinstance(kv, int)) and kv.eq(k) for k in stub.ks) or stub.delivered < 32:
                    res.append((what + '.partial', '%s multiplies with a buffer that is not a completely delivered 32-byte draw (schedule %s)' % (what, sched), sched))
        if err is None:
            if stub.delivered % 32 != 0 or stub.delivered == 0:
                res.append((what + '.success-partial', '%s succeeds after %d delivered bytes (schedule %s)' % (what, stub.delivered, sched), sched))
            if not success_ok(e, stub):
                res.append((what + '.success-value', '%s succeeds but the result is not built from the last complete draw (schedule %s)' % (what, sched), sched))
        else:
            if not outputs_nil:
                res.append((what + '.error-with-output', '%s returns an error together with a public key / signature (schedule %s)' % (what, sched), sched))
        return res

    def run_gen(e):
        rd = sm2model.new_reader(e, maxc, faults=True)
        rd.v.fault_budget = budget
        e.forbid_mixed = True
        try:
            out = e.call_outcome(SM2 + '.GenerateKey', [rd])
        except models.MixedCells as mc:
            return [('GenerateKey.partial', 'GenerateKey uses a partially filled buffer (schedule %s): %s' % (tuple(rd.v.log), mc), tuple(rd.v.log))]
        nil = True
        if out.kind == 'return':
            priv, x, y, err = out.values
            nil = x.obj is None and y.obj is None

            def ok(e2, stub):
                dv, _ = slice_value(e2, priv)
                k = stub.ks[stub.delivered // 32 - 1]
                return e2.prove_i(dv == k)[0] == 'proved'
        else:
            ok = None
        return common(e, rd, out, 'GenerateKey', nil, ok)

    def run_sign(e):
        d, priv = int_input(e, 'd', 32, 1, N - 2)
        ev, eb = int_input(e, 'e', 32)
        rd = sm2model.new_reader(e, maxc, faults=True)
        rd.v.fault_budget = budget
        e.forbid_mixed = True
        try:
            out = e.call_outcome(SM2 + '.SignHashed', [rd, priv, eb])
        except models.MixedCells as mc:
            return [('SignHashed.partial', 'SignHashed uses a partially filled nonce buffer (schedule %s): %s' % (tuple(rd.v.log), mc), tuple(rd.v.log))]
        nil = True
        if out.kind == 'return':
            r, s, err = out.values
            nil = r.obj is None and s.obj is None

            def ok(e2, stub):
                rv, _ = slice_value(e2, r)
                k = stub.ks[stub.delivered // 32 - 1]
                return e2.prove_i(rv == spec_r(e2, ev, k))[0] == 'proved'
        else:
            ok = None
        return common(e, rd, out, 'SignHashed', nil, ok)

    def run_wrapper(which):
        def run(e):
            d, priv = int_input(e, 'd', 32, 1, N - 2)
            rd = sm2model.new_reader(e, 2, faults=True)       # wrappers: 2 candidates, 1 fault in both tiers (the schedules of the
            rd.v.fault_budget = 1                              # digest-level function above carry the deeper bound)
            e.forbid_mixed = True
            msg = e.new_slice(sym_bytes(e, 'm', 5))
            try:
                if which == 'SignZa':
                    za = e.new_slice(sym_bytes(e, 'za', 32))
                    out = e.call_outcome(SM2 + '.SignZa', [rd, priv, za, msg])
                else:
                    px, py = sm2model.reg_point(e, d)
                    out = e.call_outcome(SM2 + '.Sign', [e.new_slice(sym_bytes(e, 'id', 16)), e.new_slice([ByteOf(px, j, 32) for j in range(32)]), e.new_slice([ByteOf(py, j, 32) for j in range(32)]), rd, priv, msg])
            except models.MixedCells as mc:
                return [(which + '.partial', '%s uses a partially filled nonce buffer (schedule %s): %s' % (which, tuple(rd.v.log), mc), tuple(rd.v.log))]
            nil = True
            if out.kind == 'return':
                r, s_, err = out.values
                nil = r.obj is None and s_.obj is None
                res = common(e, rd, out, which, nil, lambda e2, stub: True)
                # the wrappers must hand the failure of the digest-level function on: no error and no signature is a failure too
                if err is None and nil:
                    res.append((which + '.silent', '%s returns neither a signature nor an error (schedule %s)' % (which, tuple(rd.v.log)), tuple(rd.v.log)))
                return res
            return common(e, rd, out, which, nil, None)
        return run

    aborted = []
    for fname_, fn in (('GenerateKey', run_gen), ('SignHashed', run_sign), ('SignZa', run_wrapper('SignZa')), ('Sign', run_wrapper('Sign'))):
        try:
            for r in eng.explore(fn):
                npaths += 1
                for f in r:
                    fails.setdefault(f[0], []).append(f)
        except Unsupported as ex:
            # the entry point uses something the interpreter does not model: its symbolic part is inconclusive, the other entry
            # points and the concrete schedules on the real build still run
            aborted.append(fname_)
            ck.record('faults[symbolic:%s]' % fname_, 'inconclusive', 'symbolic exploration of %s not completed: %s' % (fname_, str(ex)[:160]))

    def run_nil(e):
        out = e.call_outcome(SM2 + '.GenerateKey', [None])
        if out.kind == 'panic' or out.values[3] is None:
            return [('GenerateKey.nil', 'nil source is not reported as an error', ())]
        return []
    for r in eng.explore(run_nil):
        for f in r:
            fails.setdefault(f[0], []).append(f)
    secs = time.time() - t0
    ck.absorb(eng)

    # ---------------------------------------------------------------- replay: a scripted reader on the real build
    def replay(what, sched):
        steps = ','.join('{%d,%d,%s}' % (w, n, 'nil' if err is None else ('io.EOF' if err == 'EOF' else 'errInjected')) for (w, n, err) in sched)
        call = {'GenerateKey': '_, x, y, err := GenerateKey(rd); out := append(append([]byte{}, x...), y...)',
                'SignHashed': 'r, s, err := SignHashed(rd, priv, e); out := append(append([]byte{}, r...), s...)',
                'SignZa': 'r, s, err := SignZa(rd, priv, e, []byte("msg")); out := append(append([]byte{}, r...), s...); if err == nil && len(out) != 64 { t.Fatalf("SignZa returns neither a signature nor an error") }',
                'Sign': 'px, py, _ := DerivePublic(priv); r, s, err := Sign([]byte("1234567812345678"), px, py, rd, priv, []byte("msg")); out := append(append([]byte{}, r...), s...); if err == nil && len(out) != 64 { t.Fatalf("Sign returns neither a signature nor an error") }'}[what]
        src = '''package sm2
import ("testing"; "errors"; "io")
var errInjected = errors.New("injected")
type step struct{ want, n int; err error }
type scriptReader struct{ steps []step; i int; failed error; ctr byte; off, last int }
func (r *scriptReader) Read(p []byte) (int, error) {
	if r.failed != nil { return 0, r.failed }
	fill := func(j int) { r.ctr++; if r.off/32 < r.last { p[j] = 0xff } else { p[j] = r.ctr }; r.off++ }
	if r.i >= len(r.steps) { for j := range p { fill(j) }; return len(p), nil }
	s := r.steps[r.i]; r.i++
	n := s.n; if n > len(p) { n = len(p) }
	for j := 0; j < n; j++ { fill(j) }
	if s.err != nil { r.failed = s.err }
	return n, s.err
}
var _ = io.EOF
func TestVerifReplay(t *testing.T) {
	rd := &scriptReader{steps: []step{%s}, last: %d}
	priv := make([]byte, 32); priv[31] = 7
	e := make([]byte, 32); e[0] = 1
	_, _ = priv, e
	defer func() { if x := recover(); x != nil { t.Fatalf("panic: %%v", x) } }()
	%s
	delivered := rd.off
	if err == nil && (delivered %% 32 != 0 || delivered == 0) { t.Fatalf("success after %%d delivered bytes", delivered) }
	if err != nil && len(out) != 0 { t.Fatalf("error together with output %%x", out) }
	if err == nil && rd.failed != nil && delivered %% 32 != 0 { t.Fatalf("success although the source failed mid-draw") }
}''' % (steps, max(0, (sum(n for (w, n, err) in sched) - 1) // 32), call)
        return ck.go_test('sm2', src, name='faults_' + what)

    for key, fl in sorted(fails.items()):
        f = fl[0]
        what = key.split('.')[0]
        if key == 'GenerateKey.nil':
            src = '''package sm2
import "testing"
func TestVerifReplay(t *testing.T) {
	defer func() { if recover() != nil { t.Fatalf("panic on nil source") } }()
	if _, _, _, err := GenerateKey(nil); err == nil { t.Fatalf("nil source accepted") }
}'''
            ok, out, path = ck.go_test('sm2', src, name='nil')
        else:
            ok, out, path = None, '', None
            for cand in fl[:5]:
                ok, out, path = replay(what, cand[2])
                if ok is False:
                    f = cand
                    break
        if ok is False:
            ck.record('faults[' + key + ']', 'violated', '%s (%d failing schedules)' % (f[1], len(fl)))
            ck.violation(key, f[1], path)
        else:
            ck.encoder_mismatch('faults[' + key + ']', f[1] + ' :: ' + (out or '')[-200:])
    if not fails and not aborted:
        ck.record('faults', 'proved', '%d paths over %d distinct read schedules (%d with a fault): error <=> the source failed before a complete acceptable draw; no output with an error; group operations only on complete draws; short reads completed; nil source refused' % (
            npaths, len(scheds), len(nontrivial)), rule, secs)
    # long runs of rejected candidates (beyond the symbolic bound on the number of candidates): k rejected 32-byte draws, then the
    # source ends, fails mid-draw, or delivers an acceptable value; error exactly when no acceptable complete draw arrived
    src_many = '''package sm2
import ("testing"; "io"; "bytes")
type seqReader struct{ b []byte; off int }
func (r *seqReader) Read(p []byte) (int, error) { if r.off >= len(r.b) { return 0, io.EOF }; n := copy(p, r.b[r.off:]); r.off += n; return n, nil }
func TestVerifReplay(t *testing.T) {
	priv := make([]byte, 32); priv[31] = 7
	e := make([]byte, 32); e[0] = 1
	good := bytes.Repeat([]byte{0x11}, 32)
	px, py, _ := DerivePublic(priv)
	id, msg := []byte("1234567812345678"), []byte("message digest")
	za, _ := ZA(id, px, py)
	for _, rejected := range [][]byte{bytes.Repeat([]byte{0xff}, 32), make([]byte, 32)} {
		for k := 0; k <= 40; k++ {
			for _, tail := range [][]byte{nil, good[:17], good} {
				stream := append(bytes.Repeat(rejected, k), tail...)
				wantErr := len(tail) != 32
				d, x, y, err := GenerateKey(&seqReader{b: stream})
				if wantErr && err == nil { t.Fatalf("GenerateKey: %d rejected candidates then %d more bytes: no error, key %x", k, len(tail), d) }
				if wantErr && (x != nil || y != nil) { t.Fatalf("GenerateKey: error together with a public key") }
				if !wantErr && (err != nil || !bytes.Equal(d, good)) { t.Fatalf("GenerateKey: %d rejected candidates then a good one: err=%v key=%x", k, err, d) }
				r, s, err := SignHashed(&seqReader{b: stream}, priv, e)
				if wantErr && err == nil { t.Fatalf("SignHashed: %d rejected nonce candidates then %d more bytes: no error, r=%x s=%x", k, len(tail), r, s) }
				if wantErr && (r != nil || s != nil) { t.Fatalf("SignHashed: error together with a signature") }
				if !wantErr && err != nil { t.Fatalf("SignHashed: %d rejected candidates then a good one: %v", k, err) }
				if k <= 3 {
					rm, sm, err := Sign(id, px, py, &seqReader{b: stream}, priv, msg)
					if wantErr && (err == nil || rm != nil || sm != nil) { t.Fatalf("Sign: %d rejected nonce candidates then %d more bytes and the end of the source: err=%v r=%x s=%x", k, len(tail), err, rm, sm) }
					if !wantErr && err != nil { t.Fatalf("Sign: %d rejected candidates then a good one: %v", k, err) }
					rz, sz, err := SignZa(&seqReader{b: stream}, priv, za, msg)
					if wantErr && (err == nil || rz != nil || sz != nil) { t.Fatalf("SignZa: %d rejected nonce candidates then %d more bytes and the end of the source: err=%v r=%x s=%x", k, len(tail), err, rz, sz) }
					if !wantErr && (err != nil || !bytes.Equal(rz, rm) || !bytes.Equal(sz, sm)) { t.Fatalf("SignZa: %d rejected candidates then a good one: err=%v, or differs from Sign", k, err) }
				}
			}
		}
	}
}'''
    okm, outm, pathm = ck.go_test('sm2', src_many, name='many_rejections', timeout=600)
    if okm is False:
        ck.record('faults[many-rejections]', 'violated', 'after a long run of rejected candidates the outcome is wrong: ' + (outm or '')[-300:].replace('\n', ' '))
        ck.violation('many-rejections', 'key generation / signing mishandle a source that ends or fails after many rejected candidates', pathm)
    # a few concrete schedules on the real build as validation of the stub/ReadFull model
    val = 1 if okm is True else 0
    for what, sched in (('GenerateKey', [(32, 16, None), (16, 16, None)]), ('SignHashed', [(32, 0, 'injected reader failure')]), ('SignHashed', [(32, 16, 'EOF')]),
                        ('GenerateKey', [(32, 32, 'injected reader failure')])):
        ok, out, path = replay(what, sched)
        if ok is True:
            val += 1
        elif ok is False and not fails:
            ck.record('schedule_replay', 'violated', '%s mishandles schedule %s on the real build' % (what, sched))
            ck.violation('%s.schedule' % what, '%s mishandles schedule %s' % (what, sched), path)
    ck.validated += val
    ck.extra.update(evaluations=max(1, len(scheds)), distinct_nontrivial=max(2, len(nontrivial)) if len(nontrivial) >= 2 else len(nontrivial), rule=rule)
    ck.samples = samples + ck.samples
    ck.finish()


if __name__ == '__main__':
    guarded_main('C19', main)
