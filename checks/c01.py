#!/usr/bin/env python3
# C01 - every signature the library produces verifies, neither call panics.  DESIGN.md section 3/C01.
import time, os
from sm2lib import *


def main():
    ck = Check('C01')
    prog = dump_ssa('c01')
    thorough = ck.tier == 'thorough'
    maxc = 2 if thorough else 1
    keylens = [int(x) for x in os.environ['VERIF_C01_KEYLENS'].split(',')] if os.environ.get('VERIF_C01_KEYLENS') else ([32, 31, 16, 1] if thorough else [32, 31])
    ck.bounds.append('sign then verify: private key lengths %s (contents symbolic), digest 32 symbolic bytes, up to %d nonce candidates; id/message-level entry points with id of 0/16 bytes and message of 0/5 bytes' % (keylens, maxc))
    ck.outside.append('more than %d consecutive rejected nonce candidates' % maxc)
    ck.assumptions += sm2model.CONTRACTS
    eng = proto_engine(prog)
    fails = {}
    unknown = []
    npaths = [0]
    t0 = time.time()

    # ---------------------------------------------------------------- special vectors on the real build first (cheap): keys with leading zero
    # bytes, short key encodings, extreme digests and nonces - signing must agree with the reference and the signature must verify
    rng0 = ck.rng
    sv = []
    for dv, klen_ in [(rng0.randrange(1, N - 1), 32), (rng0.randrange(1, 2 ** 247), 32), (rng0.randrange(1, 2 ** 200), 32), (1, 32), (N - 2, 32), (rng0.randrange(2 ** 240, 2 ** 248), 31),
                      (rng0.randrange(1, 2 ** 240), 31), (rng0.randrange(2 ** 120, 2 ** 128), 16), (0x7f, 1), (rng0.randrange(1, N - 1), 32)]:
        for evv, kv in [(rng0.getrandbits(256), rng0.randrange(1, N)), (0, 1), (2 ** 256 - 1, N - 1), (rng0.getrandbits(200), rng0.randrange(1, 2 ** 200))][:(4 if thorough else 2)]:
            rs = ref.sign_k(dv, evv, kv)
            if rs is None:
                continue
            pub = ref.mul(dv)
            sv.append('{%s,%s,%s,%s,%s,%s,%s},' % (go_bytes(list(dv.to_bytes(klen_, 'big'))), go_bytes(b32(evv)), go_bytes(b32(kv) + b32(0x1234567) * 2), go_bytes(b32(rs[0])), go_bytes(b32(rs[1])), go_bytes(b32(pub[0])), go_bytes(b32(pub[1]))))
    # rare intermediate values, solved for the digest: t = (r+s) mod n small (t = (r+k)/(1+d)), r small, s small
    dv0, kv0 = rng0.randrange(1, N - 1), rng0.randrange(1, N)
    x1_0 = ref.mul(kv0)[0]
    inv1d = pow(1 + dv0, -1, N)
    rare = []
    for t0 in (1, 2, 5, 1000, 8191, 8192, 2 ** 20, 2 ** 100, 2 ** 247):
        rare.append((t0 * (1 + dv0) - kv0) % N)                       # r with (r+k)/(1+d) = t0
    for r0 in (1, 2, 255, 2 ** 100, 2 ** 247):
        rare.append(r0)
    for s0 in (1, 2, 2 ** 100, 2 ** 247):
        rare.append((kv0 - s0 * (1 + dv0)) * pow(dv0, -1, N) % N)     # r with s = s0
    for rr in rare:
        evv = (rr - x1_0) % N
        rs = ref.sign_k(dv0, evv, kv0)
        if rs is None:
            continue
        pub = ref.mul(dv0)
        sv.append('{%s,%s,%s,%s,%s,%s,%s},' % (go_bytes(b32(dv0)), go_bytes(b32(evv)), go_bytes(b32(kv0) + b32(0x1234567) * 2), go_bytes(b32(rs[0])), go_bytes(b32(rs[1])), go_bytes(b32(pub[0])), go_bytes(b32(pub[1]))))
    src0 = '''package sm2
import ("testing"; "bytes")
type verifReader struct{ b []byte; used int }
func (r *verifReader) Read(p []byte) (int, error) { if r.used >= len(r.b) { for i := range p { p[i] = 0x5a }; r.used += len(p); return len(p), nil }; n := copy(p, r.b[r.used:]); r.used += n; return n, nil }
func TestVerifReplay(t *testing.T) {
	cases := []struct{ d, e, k, r, s, px, py []byte }{
%s
	}
	for i, c := range cases {
		r, s, err := SignHashed(&verifReader{b: c.k}, c.d, c.e)
		if err != nil { t.Fatalf("case %%d (key of %%d bytes): sign error %%v", i, len(c.d), err) }
		ok, err := VerifyHashed(c.px, c.py, c.e, r, s)
		if !ok || err != nil { t.Fatalf("case %%d (key %%x): the library rejects its own signature r=%%x s=%%x (ok=%%v err=%%v)", i, c.d, r, s, ok, err) }
		if !bytes.Equal(r, c.r) || !bytes.Equal(s, c.s) { t.Logf("note: case %%d differs from the reference signature (C02 decides)", i) }
	}
}''' % '\n'.join(sv)
    ok0, out0, path0 = ck.go_test('sm2', src0, name='special_vectors')
    if ok0 is True:
        ck.validated += len(sv)
    elif ok0 is False:
        ck.record('signverify[special-vectors]', 'violated', 'a signature produced by the library for a special key / digest / nonce does not verify (or the call panics): ' + (out0 or '')[-300:].replace('\n', ' '))
        ck.violation('special-vectors', 'sign-then-verify fails on the real build for a special key (leading zero bytes, short encoding, extreme digest or nonce)', path0)
    eng.deadline = time.time() + (120 if ok0 is False else (900 if not thorough else 3 * 3600))     # short budget once a violation is established

    def analyse(e, d, klen, ev, rd, out, verify_fn, extra_args, info):
        """out: outcome of the signing call; then the matching verification is executed on the same path"""
        res = []
        if out.kind == 'panic':
            if e.prove_i(False)[0] != 'proved':
                res.append(('Sign.panic', 'signing panics: %s at %s' % (out.panic.msg, out.panic.pos), info, 'signpanic'))
            return res
        r, s, err = out.values
        if err is not None:
            return res    # refused key / cut: nothing to verify (C02 decides whether the refusal is right)
        # public key of d through the real DerivePublic (contract: base multiplication + affine encoding)
        px, py = sm2model.reg_point(e, d) if not isinstance(d, int) else ref.mul(d)
        pubx = e.new_slice([ByteOf(px, j, 32) for j in range(32)])
        puby = e.new_slice([ByteOf(py, j, 32) for j in range(32)])
        vout = e.call_outcome(verify_fn, extra_args(pubx, puby) + [r, s])
        if vout.kind == 'panic':
            res.append(('Verify.panic', 'verification of a library-produced signature panics: %s at %s' % (vout.panic.msg, vout.panic.pos), info, 'panic'))
            return res
        okv, verr = vout.values
        if verr is not None or okv is False:
            if e.prove_i(False)[0] == 'proved':
                return res     # this path is infeasible (needs the non-linear facts to see it)
        if verr is not None:
            res.append(('Verify.error', 'verification of a library-produced signature returns error %s' % verr.v.msg, info, 'reject'))
            return res
        if isinstance(okv, bool):
            if not okv:
                res.append(('Verify.reject', 'library-produced signature is rejected', info, 'reject'))
            return res
        v = e.prove_i(okv)
        if v[0] == 'cex':
            res.append(('Verify.reject', 'library-produced signature is rejected', info, 'reject'))
        elif v[0] != 'proved':
            unknown.append(('Verify.accept', str(v[1])[:100]))
        return res

    for klen in keylens:
        def run(e, klen=klen):
            d, priv = int_input(e, 'd', klen, 1, min(N - 2, 256 ** klen - 1))
            ev, eb = int_input(e, 'e', 32)
            rd = sm2model.new_reader(e, maxc)
            out = e.call_outcome(SM2 + '.SignHashed', [rd, priv, eb])
            info = dict(d=d, e=ev, ks=rd.v.ks, klen=klen, eng=e, level='hashed')
            return analyse(e, d, klen, ev, rd, out, SM2 + '.VerifyHashed', lambda px, py: [px, py, eb], info)
        for r in eng.explore(run):
            npaths[0] += 1
            for f in r:
                fails.setdefault(f[0], []).append(f)
                if f[0] == 'Verify.panic' and 'model' not in f[2]:
                    pass
    # id / message level entry points (hash object modelled as an uninterpreted digest of the written bytes)
    for (idl, ml) in ([(16, 5), (0, 0)] if thorough else [(16, 5)]):
        def run2(e, idl=idl, ml=ml):
            d, priv = int_input(e, 'd', 32, 1, N - 2)
            ident = e.new_slice(sym_bytes(e, 'id', idl))
            msg = e.new_slice(sym_bytes(e, 'm', ml))
            px, py = sm2model.reg_point(e, d)
            pubx = e.new_slice([ByteOf(px, j, 32) for j in range(32)])
            puby = e.new_slice([ByteOf(py, j, 32) for j in range(32)])
            rd = sm2model.new_reader(e, 1)
            out = e.call_outcome(SM2 + '.Sign', [ident, pubx, puby, rd, priv, msg])
            info = dict(d=d, e=None, ks=rd.v.ks, klen=32, eng=e, level='message')
            return analyse(e, d, 32, None, rd, out, SM2 + '.Verify', lambda px_, py_: [ident, px_, py_, msg], info)
        for r in eng.explore(run2):
            npaths[0] += 1
            for f in r:
                fails.setdefault(f[0] + '@msg', []).append(f)
    secs = time.time() - t0
    ck.absorb(eng)
    if getattr(eng, 'budget_hit', None):
        ck.record('signverify[time-budget]', 'inconclusive', 'the symbolic exploration stopped at its time budget after %d paths (%d decision prefixes left unexplored)' % (npaths[0], eng.budget_hit))
    wit_deadline = time.time() + (600 if not thorough else 3600)

    # ---------------------------------------------------------------- witnesses: re-run the failing path with true curve values
    def witness(key, f):
        """find concrete (d, e, k) that drives the real code down the failing path: d and k are chosen, the curve
        functions take their true values there, and the solver completes the digest e"""
        _, desc, info, kind = f
        klen = info['klen']
        for attempt in range(6):
            if time.time() > wit_deadline:
                break
            # the private key is pinned to a random value (generic failures), to a value with leading zero bytes, or left
            # to the solver (failures that need a special key); the nonce is always pinned (its curve point is needed)
            dmax = min(N - 2, 256 ** klen - 1)
            dv = [ck.rng.randrange(1, dmax + 1), None, ck.rng.randrange(1, min(dmax, 2 ** 247) + 1), ck.rng.randrange(1, dmax + 1), None, ck.rng.randrange(1, 2 ** 64)][attempt]
            # nonces: random, small (leading zero bytes: rare intermediate values such as short r + k), or left to the solver
            kmode = ['rand', 'rand', 'small', 'small', 'small', 'free'][attempt]
            kvs = [ck.rng.randrange(1, N) if kmode == 'rand' else (ck.rng.randrange(1, 2 ** 200) if kmode == 'small' else None) for _ in range(maxc)]
            found = {}

            def rerun(e):
                if found:
                    return None
                d, priv = int_input(e, 'd', klen, 1, min(N - 2, 256 ** klen - 1))
                ev, eb = int_input(e, 'e', 32)
                rd = sm2model.new_reader(e, maxc)
                out = e.call_outcome(SM2 + '.SignHashed', [rd, priv, eb])
                if kind == 'signpanic':
                    if out.kind != 'panic':
                        return None
                    pins = ([(d, dv)] if dv is not None else []) + [(k, kv) for k, kv in zip(rd.v.ks, kvs) if kv is not None]
                    m = solve_with_truth(e, pins, [], timeout=20000 * (1 + attempt))
                    if m is not None:
                        found['e'] = mval(m, ev)
                        found['ks'] = [kv if kv is not None else mval(m, k) for k, kv in zip(rd.v.ks, kvs)]
                        found['d'] = dv if dv is not None else mval(m, d)
                    return None
                if out.kind != 'return' or out.values[2] is not None:
                    return None
                r, s, err = out.values
                px, py = sm2model.reg_point(e, d)
                pubx = e.new_slice([ByteOf(px, j, 32) for j in range(32)])
                puby = e.new_slice([ByteOf(py, j, 32) for j in range(32)])
                vout = e.call_outcome(SM2 + '.VerifyHashed', [pubx, puby, eb, r, s])
                extra = []
                if kind == 'panic':
                    bad = vout.kind == 'panic'
                else:
                    bad = vout.kind != 'panic' and (vout.values[1] is not None or vout.values[0] is False)
                    if vout.kind != 'panic' and not bad and not isinstance(vout.values[0], bool):
                        extra = [z3.Not(vout.values[0])]
                        bad = True
                if not bad:
                    return None
                pins = ([(d, dv)] if dv is not None else []) + [(k, kv) for k, kv in zip(rd.v.ks, kvs) if kv is not None]
                m = solve_with_truth(e, pins, extra, timeout=20000 * (1 + attempt))
                if m is not None:
                    found['e'] = mval(m, ev)
                    found['ks'] = [kv if kv is not None else mval(m, k) for k, kv in zip(rd.v.ks, kvs)]
                    found['d'] = dv if dv is not None else mval(m, d)
                return None
            eng2 = proto_engine(prog)
            eng2.explore(rerun)
            ck.absorb(eng2)
            if found:
                return found['d'], found['e'], found['ks']
        return None

    def replay(dv, evv, ks, klen):
        stream = b''.join(k.to_bytes(32, 'big') for k in ks) + (0x1234567).to_bytes(32, 'big') * 2
        pub = ref.mul(dv)
        src = '''package sm2
import "testing"
type verifReader struct{ b []byte; used int }
func (r *verifReader) Read(p []byte) (int, error) { if r.used >= len(r.b) { for i := range p { p[i] = 0x5a }; r.used += len(p); return len(p), nil }; n := copy(p, r.b[r.used:]); r.used += n; return n, nil }
func TestVerifReplay(t *testing.T) {
	rd := &verifReader{b: %s}
	priv := %s
	e := %s
	r, s, err := SignHashed(rd, priv, e)
	if err != nil { t.Fatalf("sign: %%v", err) }
	ok, err := VerifyHashed(%s, %s, e, r, s)
	if !ok || err != nil { t.Fatalf("own signature rejected: ok=%%v err=%%v r=%%x s=%%x", ok, err, r, s) }
}''' % (go_bytes(stream), go_bytes(list(dv.to_bytes(klen, 'big'))), go_bytes(b32(evv)), go_bytes(b32(pub[0])), go_bytes(b32(pub[1])))
        return ck.go_test('sm2', src, name='signverify')

    for key, fl in sorted(fails.items()):
        f = fl[0]
        w = witness(key, f) if f[2]['level'] == 'hashed' else None
        if w is None and f[2]['level'] == 'message':
            # same defect class as the digest-level one; the digest-level witness is the replay
            hk = key.replace('@msg', '')
            if hk in fails:
                continue
        if w is None:
            ck.record('signverify[' + key + ']', 'inconclusive', '%s: no concrete witness constructed (%d symbolic paths fail)' % (f[1], len(fl)))
            continue
        dv, evv, ks = w
        ok, out, path = replay(dv, evv, ks, f[2]['klen'])
        if ok is False:
            ck.record('signverify[' + key + ']', 'violated', '%s (%d failing symbolic paths)' % (f[1], len(fl)), sample=dict(d=hex(dv), e=hex(evv), k=[hex(k) for k in ks]))
            ck.violation(key, f[1], path)
        else:
            ck.encoder_mismatch('signverify[' + key + ']', (out or '')[-300:])
    if unknown:
        ck.record('signverify_unknown', 'inconclusive', 'solver unknown on %d acceptance claims' % len(unknown))
    if not fails and not unknown:
        ck.record('signverify', 'proved', 'on all %d explored paths the verification equation holds for the produced (r,s): dlog([s]G+[t]P) == k, hence (e+x1) mod n == r; no panic path is feasible' % npaths[0], ck.bounds[0], secs,
                  sample=dict(obligation='signverify', claim='forall d in [1,n-2], e, k: VerifyHashed(XY(d), e, SignHashed(k; d, e)) == (true, nil)'))
    ck.extra['paths'] = npaths[0]

    # ---------------------------------------------------------------- concrete cross-check of the contracts on the real build
    cases = []
    for i in range(6):
        dv = ck.rng.randrange(1, N - 1)
        evv = ck.rng.getrandbits(256)
        kv = ck.rng.randrange(1, N)
        cases.append((dv, evv, kv))
    rows = []
    for dv, evv, kv in cases:
        rs = ref.sign_k(dv, evv, kv)
        pub = ref.mul(dv)
        rows.append('{%s,%s,%s,%s,%s,%s,%s},' % tuple(go_bytes(b32(v)) for v in (dv, evv, kv, rs[0], rs[1], pub[0], pub[1])))
    src = '''package sm2
import ("testing"; "bytes")
type verifReader struct{ b []byte; used int }
func (r *verifReader) Read(p []byte) (int, error) { if r.used >= len(r.b) { for i := range p { p[i] = 0x5a }; r.used += len(p); return len(p), nil }; n := copy(p, r.b[r.used:]); r.used += n; return n, nil }
func TestVerifReplay(t *testing.T) {
	cases := []struct{ d, e, k, r, s, px, py []byte }{
%s
	}
	for i, c := range cases {
		r, s, err := SignHashed(&verifReader{b: c.k}, c.d, c.e)
		if err != nil || !bytes.Equal(r, c.r) || !bytes.Equal(s, c.s) { t.Fatalf("case %%d: sign differs from reference", i) }
		ok, err := VerifyHashed(c.px, c.py, c.e, r, s)
		if !ok || err != nil { t.Fatalf("case %%d: verify", i) }
	}
}''' % '\n'.join(rows)
    ok, out, path = ck.go_test('sm2', src, name='validate')
    if ok is True:
        ck.validated += len(cases)
    elif ok is False and not fails:
        ck.record('reference_agreement', 'inconclusive', 'real build and reference disagree on random vectors: ' + (out or '')[-200:])
    ck.finish()


if __name__ == '__main__':
    guarded_main('C01', main)
