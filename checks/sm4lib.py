# shared harness pieces for the SM4 / GCM checks (C05-C07, C09-C11, C17)
import sys, os
sys.path.insert(0, os.path.join(os.path.dirname(os.path.abspath(__file__)), '..', 'engine'))
sys.path.insert(0, os.path.join(os.path.dirname(os.path.abspath(__file__)), '..', 'specs'))
import z3
from common import *
from gosym import *
from harness import *
import asmsym, asmbridge
from asmsym import Machine, Addr, Listing
import sm4 as S
import gcm as G

SM4 = MOD + '/sm4'
ASM_FILES = ['asm_amd64.s', 'gcm_amd64.s', 'helper_amd64.s']
STD_KEY = list(bytes.fromhex('0123456789abcdeffedcba9876543210'))


def load_listing():
    return Listing.load(os.path.join(REPO, 'sm4'), ASM_FILES)


def rk_bytes(rk):
    out = []
    for w in rk:
        out += [w & 0xff, (w >> 8) & 0xff, (w >> 16) & 0xff, w >> 24]
    return out


def round_keys(key):
    return S.expand_key(S.words(list(key)))


def seal_args(m, key, nonce, pt, aad, ts, dst_cells=None, rk=None, alias_dst_pt=False):
    """build regions for sealAsm and return the frame"""
    rkb = rk if rk is not None else rk_bytes(round_keys(key))
    a_rk = m.add_region('rk', rkb, False)
    a_n = m.add_region('nonce', nonce, False) if len(nonce) else 0
    a_a = m.add_region('aad', aad, False) if len(aad) else 0
    a_t = m.add_region('temp', [0] * 32)
    if alias_dst_pt:
        a_d = m.add_region('dst', list(pt) + [0xEE] * ts)
        a_p = a_d
    else:
        a_p = m.add_region('pt', pt, False) if len(pt) else 0
        a_d = m.add_region('dst', dst_cells if dst_cells is not None else [0xEE] * (len(pt) + ts))
    return {0: a_rk, 8: ts, 16: a_d, 24: a_n, 32: len(nonce), 40: len(nonce), 48: a_p, 56: len(pt), 64: len(pt),
            72: a_a, 80: len(aad), 88: len(aad), 96: a_t}


def open_args(m, key, nonce, ct, aad, ts, rk=None, dst_nil=False):
    rkb = rk if rk is not None else rk_bytes(round_keys(key))
    a_rk = m.add_region('rk', rkb, False)
    a_n = m.add_region('nonce', nonce, False) if len(nonce) else 0
    a_a = m.add_region('aad', aad, False) if len(aad) else 0
    a_t = m.add_region('temp', [0] * 32)
    a_c = m.add_region('ct', ct, True) if len(ct) else 0   # writable: whether the routine modifies it is C10's question
    n = len(ct) - ts
    a_d = 0 if dst_nil or n <= 0 else m.add_region('dst', [0xEE] * n)
    return {0: a_rk, 8: ts, 16: a_d, 24: a_n, 32: len(nonce), 40: len(nonce), 48: a_c, 56: len(ct), 64: len(ct),
            72: a_a, 80: len(aad), 88: len(aad), 96: a_t}


def classify(events):
    """group interpreter events into finding classes: {class: [event...]}"""
    import re
    out = {}
    for kind, pc, detail in events:
        m = re.match(r'(read|write) (\w+)\[(-?\d+):?(-?\d+)?\)? outside \[0,(\d+)\)', detail)
        if kind == 'oob' and m:
            reg = re.sub(r'^obj\d+(_\d+)*$', 'object', m.group(2))
            lo = int(m.group(3))
            size = int(m.group(5))
            hi = int(m.group(4)) if m.group(4) else lo + 1
            cls = '%s-%s-%s' % (m.group(1), reg, 'past-end' if hi > size else 'before-start')
        else:
            cls = kind
        out.setdefault(cls, []).append((kind, pc, detail))
    return out


GUARD_HELPERS = '''
// guarded returns a slice of n bytes whose last byte is the last byte of a readable page; the next page is PROT_NONE
func guarded(n int) []byte {
	ps := syscall.Getpagesize()
	pages := (n+ps-1)/ps + 1
	mem, err := syscall.Mmap(-1, 0, (pages+1)*ps, syscall.PROT_READ|syscall.PROT_WRITE, syscall.MAP_ANON|syscall.MAP_PRIVATE)
	if err != nil { panic(err) }
	if err := syscall.Mprotect(mem[pages*ps:], syscall.PROT_NONE); err != nil { panic(err) }
	return mem[pages*ps-n : pages*ps : pages*ps]
}
func noFault(t *testing.T, what string, f func()) {
	old := debug.SetPanicOnFault(true)
	defer debug.SetPanicOnFault(old)
	defer func() {
		if r := recover(); r != nil {
			if e, ok := r.(runtime.Error); ok && (strings.Contains(e.Error(), "fault") || strings.Contains(e.Error(), "invalid memory address")) { t.Fatalf("%s: memory fault: %v", what, r) }
			panic(r)
		}
	}()
	f()
}
'''
GUARD_IMPORTS = 'import ("testing"; "syscall"; "runtime"; "runtime/debug"; "strings")'


def aff_data(rng, name, n, k=3, extra=()):
    """n data bytes: concrete (seeded) except up to k affine-symbolic ones at first/middle/last (+extra) positions"""
    cells = [rng.randrange(256) for _ in range(n)]
    pos = sorted(set([p for p in ([0, n // 2, n - 1] + list(extra)) if 0 <= p < n]))[:max(k, 0)]
    for p in pos:
        cells[p] = asmsym.Aff.byte('%s_%d' % (name, p))
    return cells, pos


def concretize(cells, model):
    """concrete bytes of a cell list under a z3 model of the byte variables (default 0)"""
    out = []
    for c in cells:
        if isinstance(c, int):
            out.append(c)
        else:
            t = asmsym.bv(c, 8)
            v = model.eval(t, model_completion=True) if model is not None else z3.simplify(z3.substitute(t, *[(asmsym.bitvar(n), z3.BitVecVal(0, 8)) for n in asmsym.BITVARS]))
            out.append(v.as_long() if z3.is_bv_value(v) else 0)
    return out


def cells_differ_query(got, want):
    """z3 condition 'some byte differs' (None if structurally identical)"""
    neq = []
    for g, w in zip(got, want):
        if isinstance(g, int) and isinstance(w, int):
            if g != w:
                return z3.BoolVal(True)
            continue
        # the implementation-derived and the specification-derived byte are both handed to the solver, also when
        # their canonical affine forms already coincide
        neq.append(asmsym.bv(g, 8) != asmsym.bv(w, 8))
    if len(got) != len(want):
        return z3.BoolVal(True)
    return z3.Or(*neq) if neq else None


KEYS = [STD_KEY, [0] * 16, [0xff] * 16]
