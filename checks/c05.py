#!/usr/bin/env python3
# C05 - SM4: all block paths compute the GB/T 32907 permutation and its inverse.  DESIGN.md section 3/C05.
import time, os, re
from sm4lib import *

SBOX_T = tuple(S.SBOX)
SBNAME, SBF = asmsym.table_func(SBOX_T)   # the S-box as an uninterpreted byte function named by its content
S.sbox_hook = lambda b: asmsym.apply_table(SBOX_T, b)


def eq_words(a, b):
    """list of (impl, spec) 32-bit values -> z3 condition or True/False"""
    cs = []
    for x, y in zip(a, b):
        x, y = asmsym.bv(x, 32) if not isinstance(x, int) else x, y
        if isinstance(x, int) and isinstance(y, int):
            if x != y:
                return False
            continue
        c = z3.simplify(asmsym.bv(x, 32) == asmsym.bv(y, 32))
        if z3.is_true(c):
            continue
        if z3.is_false(c):
            return False
        cs.append(c)
    return z3.And(*cs) if cs else True


def prove(ck, cond, timeout=60000):
    if cond is True:
        return 'proved', None
    if cond is False:
        return 'cex', None
    s = z3.Solver()
    s.set('timeout', timeout)
    t0 = time.time()
    r = s.check(z3.Not(cond))
    ck.queries += 1
    ck.solver_s += time.time() - t0
    if r == z3.unsat:
        return 'proved', None
    if r == z3.sat:
        return 'cex', s.model()
    return 'unknown', None


def le_words(cells):
    return [Machine.from_bytes(cells[i:i + 4]) for i in range(0, len(cells), 4)]


def main():
    ck = Check('C05')
    thorough = ck.tier == 'thorough'
    L = load_listing()
    prog = dump_ssa('c05')
    fails = {}
    t0 = time.time()
    m = Machine(L)

    def add(k, desc, replay=None):
        fails.setdefault(k, []).append((desc, replay))

    # ------------------------------------------------------------ 1. assembly kernels: every lane == specification block function
    # round keys and all input blocks symbolic; S-box applications are uninterpreted functions named by table content,
    # so the GFNI pre-affine/inverse/post-affine pipeline must fuse to exactly the standard S-box to match the spec
    rk_sym = [z3.BitVec('rk%d' % i, 32) for i in range(32)]
    rk_cells = []
    for w in rk_sym:
        rk_cells += Machine.to_bytes(w, 4)
    nk = 0
    for name, nb in (('cryptoBlockAsm', 1), ('cryptoBlockAsmX2', 2), ('cryptoBlockAsmX4', 4), ('cryptoBlockAsmX8', 8), ('cryptoBlockAsmX16', 16)):
        for inplace in ((False, True) if thorough or nb in (1, 16) else (False,)):
            src = [z3.BitVec('b%d_%d' % (nb, i), 8) for i in range(16 * nb)]
            asmsym.naming_reset(True)
            m.reset()
            a_rk = m.add_region('rk', rk_cells, False)
            if inplace:
                a_d = m.add_region('dst', list(src))
                a_s = a_d
            else:
                a_d = m.add_region('dst', [0] * (16 * nb))
                a_s = m.add_region('src', list(src), False)
            m.run(name, {0: a_rk, 8: a_d, 16: a_s})
            ck.transitions += m.steps
            ck.states += 1
            got = m.regions['dst'].cells
            bad = None
            for lane in range(nb):
                want = S.unwords(S.crypt_words(S.words(src[16 * lane:16 * lane + 16]), rk_sym))
                cond = z3.And(*[z3.simplify(asmsym.bv(g, 8) == w) for g, w in zip(got[16 * lane:16 * lane + 16], want)])
                cond = z3.simplify(cond)
                v = prove(ck, True if z3.is_true(cond) else cond)
                nk += 1
                if v[0] != 'proved':
                    bad = (lane, v[0])
                    break
            if bad:
                add('%s%s' % (name, ':inplace' if inplace else ''), 'lane %d of %s differs from the SM4 block function (%s)' % (bad[0], name, bad[1]), ('kernel', name, nb, inplace))
            if m.events:
                add(name + ':events', str(m.events[0]), None)
    # key schedule in assembly
    # key schedule: the key is written as W xor FK with W symbolic (a bijection of the key space) and the CK words are
    # symbolic too, so that no constant is folded into the S-box inputs (the simplifier's normal form for xor-with-constant
    # is not canonical); CK/FK values themselves are compared with the standard separately
    W = [z3.BitVec('W%d' % i, 32) for i in range(4)]
    kb = S.unwords([z3.simplify(w ^ f) for w, f in zip(W, S.FK)])
    CKs = [z3.BitVec('CK%d' % i, 32) for i in range(32)]
    asmsym.naming_reset(True)
    m.reset()
    ck_cells = []
    for w in CKs:
        ck_cells += Machine.to_bytes(w, 4)
    real_ck = list(m.regions['CK'].cells)
    real_fk = list(m.regions['FK'].cells)
    m.regions['CK'].cells = ck_cells
    m.run('expandKeyAsm', {0: m.add_region('key', list(kb), False), 8: m.add_region('enc', [0] * 128), 16: m.add_region('dec', [0] * 128)})
    m.regions['CK'].cells = real_ck
    ck.transitions += m.steps

    def spec_schedule(W, CKw):
        k = list(W)
        out = []
        for i in range(32):
            n = z3.simplify(k[0] ^ S.Tp(z3.simplify(k[1] ^ k[2] ^ k[3] ^ CKw[i])))
            out.append(n)
            k = [k[1], k[2], k[3], n]
        return out
    want_rk = spec_schedule(W, CKs)
    enc = le_words(m.regions['enc'].cells)
    dec = le_words(m.regions['dec'].cells)
    v = prove(ck, eq_words(enc, want_rk))
    v2 = prove(ck, eq_words(dec, want_rk[::-1]))
    if v[0] != 'proved' or v2[0] != 'proved':
        add('expandKeyAsm', 'assembly key schedule differs from the standard (%s/%s)' % (v[0], v2[0]), ('expand',))
    if le_words(real_ck) != S.CK or le_words(real_fk) != S.FK:
        add('expandKeyAsm:constants', 'CK/FK data of the assembly differ from the standard constants', ('expand',))
    if not cells_same(m.regions['key'].cells, kb):
        add('expandKeyAsm:key', 'key bytes modified', None)
    asmsym.naming_reset(False)

    # ------------------------------------------------------------ 2. portable Go code: tables, round structure, key schedule
    eng = new_engine(prog, timeout_ms=60000)

    def run_tables(e):
        g = lambda n: e.load(e.global_ptr(SM4 + '.' + n))
        sbox, s0, s1, s2, s3, ck_, fk = g('sbox'), g('s0'), g('s1'), g('s2'), g('s3'), g('ck'), [e_ for e_ in (0,)]
        res = []
        if list(sbox) != list(S.SBOX):
            res.append('sbox')
        for i, tab in enumerate((s0, s1, s2, s3)):
            for x in range(256):
                if tab[x] != S.L(S.SBOX[x] << (24 - 8 * i)):
                    res.append('s%d' % i)
                    break
        if list(ck_) != S.CK:
            res.append('ck')
        return res
    tbad = eng.explore(run_tables)[0]
    if tbad:
        add('tables', 'portable tables differ from the standard: %s' % tbad, ('tables',))

    # ss / ssX2 / transTPrime as functions of their tables: for all inputs equal to L(tau(.)) / L'(tau(.)).
    # each is an XOR of four independent byte look-ups and L, L' are GF(2)-linear, so equality for all 2^32 inputs
    # follows from the per-table facts above; here the real code is run with the look-ups kept symbolic (mux trees)
    # and compared with the spec on one symbolic byte at a time (other bytes zero) - 4 x 256 values each, by the solver
    def run_ss(e):
        res = []
        for fn, spec_f, width in ((SM4 + '.ss', S.L, 32), (SM4 + '.transTPrime', S.Lp, 32)):
            for pos in range(4):
                b = e.fresh_bv('x', 8)
                t = z3.ZeroExt(24, b) << (8 * pos)
                out = e.call(fn, [z3.simplify(t)])
                # spec: L(sbox[b] << 8pos) xor L(tau(0) with that byte removed)
                zero_part = S.tau(0) & ~(0xff << (8 * pos)) & 0xffffffff
                sb = SBF(b)
                want = spec_f(z3.ZeroExt(24, sb) << (8 * pos) | z3.BitVecVal(zero_part, 32))
                # tie the uninterpreted S-box to its table for this query
                ax = z3.And(*[z3.Implies(b == x, sb == S.SBOX[x]) for x in range(256)])
                r = e.prove(z3.Implies(ax, tobv(out, 32) == want))
                if r[0] != 'proved':
                    res.append((fn.split('.')[-1], pos, r[0]))
        # ssX2: two independent 32-bit halves
        t0w = S.L(S.tau(0))
        for pos in range(8):
            b = e.fresh_bv('x', 8)
            t = z3.ZeroExt(56, b) << (8 * pos)
            out = tobv(e.call(SM4 + '.ssX2', [z3.simplify(t)]), 64)
            p4 = pos % 4
            zero_part = S.tau(0) & ~(0xff << (8 * p4)) & 0xffffffff
            sb = SBF(b)
            half = S.L(z3.ZeroExt(24, sb) << (8 * p4) | z3.BitVecVal(zero_part, 32))
            want = z3.Concat(half, z3.BitVecVal(t0w, 32)) if pos >= 4 else z3.Concat(z3.BitVecVal(t0w, 32), half)
            ax = z3.And(*[z3.Implies(b == x, sb == S.SBOX[x]) for x in range(256)])
            r = e.prove(z3.Implies(ax, out == want))
            if r[0] != 'proved':
                res.append(('ssX2', pos, r[0]))
        return res
    ssbad = eng.explore(run_ss)[0]
    if ssbad:
        add('ss', 'round helper differs from L(tau(.)) / L\'(tau(.)): %s' % ssbad, ('tables',))

    # round structure with ss / ssX2 / transTPrime uninterpreted
    TF = z3.Function('Tround', z3.BitVecSort(32), z3.BitVecSort(32))
    TPF = z3.Function('Tprime', z3.BitVecSort(32), z3.BitVecSort(32))
    eng2 = new_engine(prog, timeout_ms=60000)
    eng2.intercepts[SM4 + '.ss'] = lambda e, a, ins: TF(tobv(a[0], 32))
    eng2.intercepts[SM4 + '.transTPrime'] = lambda e, a, ins: TPF(tobv(a[0], 32))

    def ssx2(e, a, ins):
        t = tobv(a[0], 64)
        return z3.Concat(TF(z3.Extract(63, 32, t)), TF(z3.Extract(31, 0, t)))
    eng2.intercepts[SM4 + '.ssX2'] = ssx2

    def spec_rounds(words, rk, T):
        x = list(words)
        for i in range(32):
            n = x[0] ^ T(x[1] ^ x[2] ^ x[3] ^ rk[i])
            x = [x[1], x[2], x[3], n]
        return [x[3], x[2], x[1], x[0]]

    def run_struct(e):
        res = []
        rk = [e.fresh_bv('rk%d' % i, 32) for i in range(32)]
        rko = e.new_obj(list(rk), '[32]uint32')
        for alias in (False, True):
            blk = sym_bytes(e, 'p', 16)
            src = e.new_slice(list(blk))
            dst = src if alias else e.new_slice([0] * 16)
            out = e.call_outcome(SM4 + '.cryptoBlock', [src, dst, Ptr(rko, ())])
            want = S.unwords(spec_rounds(S.words(blk), rk, TF))
            if out.kind != 'return' or e.prove(z3.And(*[tobv(g, 8) == w for g, w in zip(e.slice_list(dst), want)]))[0] != 'proved':
                res.append('cryptoBlock' + (' (dst aliases src)' if alias else ''))
            blk2 = sym_bytes(e, 'q', 32)
            src2 = e.new_slice(list(blk2))
            dst2 = src2 if alias else e.new_slice([0] * 32)
            out = e.call_outcome(SM4 + '.cryptoBlockX2', [src2, dst2, Ptr(rko, ())])
            want2 = S.unwords(spec_rounds(S.words(blk2[:16]), rk, TF)) + S.unwords(spec_rounds(S.words(blk2[16:]), rk, TF))
            if out.kind != 'return' or e.prove(z3.And(*[tobv(g, 8) == w for g, w in zip(e.slice_list(dst2), want2)]))[0] != 'proved':
                res.append('cryptoBlockX2' + (' (dst aliases src)' if alias else ''))
        # key schedule (same device as for the assembly: key = W xor FK, CK symbolic)
        Wg = [e.fresh_bv('W%d' % i, 32) for i in range(4)]
        key = S.unwords([z3.simplify(w ^ f) for w, f in zip(Wg, S.FK)])
        CKg = [e.fresh_bv('CK%d' % i, 32) for i in range(32)]
        ckp = e.global_ptr(SM4 + '.ck')
        e.store(ckp, list(CKg))
        enc = e.new_obj([0] * 32, '[32]uint32')
        dec = e.new_obj([0] * 32, '[32]uint32')
        out = e.call_outcome(SM4 + '.expandKey', [e.new_slice(list(key)), Ptr(enc, ()), Ptr(dec, ())])
        k = list(Wg)
        wrk = []
        for i in range(32):
            n = k[0] ^ TPF(z3.simplify(k[1] ^ k[2] ^ k[3] ^ CKg[i]))
            wrk.append(n)
            k = [k[1], k[2], k[3], n]
        ge, gd = e.heap[enc][0], e.heap[dec][0]
        if out.kind != 'return' or e.prove(z3.And(*([tobv(g, 32) == w for g, w in zip(ge, wrk)] + [tobv(g, 32) == w for g, w in zip(gd, wrk[::-1])])))[0] != 'proved':
            res.append('expandKey')
        return res
    sbad = eng2.explore(run_struct)[0]
    for name in sbad:
        add('go:' + name, 'portable %s differs from the 32-round structure of the standard' % name, ('generic',))
    ck.absorb(eng)
    ck.absorb(eng2)

    # ------------------------------------------------------------ 3. dispatch, key sizes, independence from the key slice
    for cando in (True, False):
        eng3 = new_engine(prog, cando_asm=cando)
        asmbridge.install(eng3, L)

        def run_new(e, cando=cando):
            res = []
            for klen in range(0, 41):
                ks = e.new_slice([7] * klen) if klen else e.new_slice([])
                out = e.call_outcome(SM4 + '.NewCipher', [ks])
                if out.kind == 'panic':
                    res.append('NewCipher panics for a %d-byte key' % klen)
                    continue
                blk, err = out.values
                if (klen == 16) != (err is None) or (err is not None and (blk is not None or err.t != SM4 + '.KeySizeError')):
                    res.append('NewCipher(%d-byte key): wrong result/error' % klen)
            # the cipher holds no reference into the key slice and is unaffected by later writes to it
            kb_ = list(STD_KEY)
            ks = e.new_slice(kb_)
            blk, _ = e.call(SM4 + '.NewCipher', [ks])
            want_t = '*%s.%s' % (SM4, 'sm4CipherAsm' if cando else 'sm4Cipher')
            if blk.t != want_t:
                res.append('dispatch: candoAsm=%s gives %s' % (cando, blk.t))

            def refs(v):
                if isinstance(v, (Ptr, Slice)) and v.obj == ks.obj:
                    return True
                if isinstance(v, list):
                    return any(refs(x) for x in v)
                return False
            if refs(e.heap[blk.v.obj][0]):
                res.append('cipher object keeps a pointer into the key slice')
            for i in range(16):
                e.slice_set(ks, i, 0)
            src = e.new_slice(list(STD_KEY))
            dst = e.new_slice([0] * 16)
            e.call('(*%s).Encrypt' % want_t[1:], [blk.v, dst, src])
            if e.slice_list(dst) != list(S.encrypt_block(STD_KEY, STD_KEY)):
                res.append('Encrypt after the key slice was overwritten differs from the standard vector (path %s)' % want_t)
            back = e.new_slice([0] * 16)
            e.call('(*%s).Decrypt' % want_t[1:], [blk.v, back, dst])
            if e.slice_list(back) != list(STD_KEY):
                res.append('Decrypt does not invert Encrypt (path %s)' % want_t)
            return res
        for msg in eng3.explore(run_new)[0]:
            add('dispatch:' + msg[:40], msg, ('dispatch',))
        ck.absorb(eng3)
    secs = time.time() - t0
    ck.bounds.append('assembly kernels X1/X2/X4/X8/X16 with all round keys and all input blocks symbolic (distinct blocks per lane), expandKeyAsm with a symbolic key; portable cryptoBlock/cryptoBlockX2/expandKey with symbolic blocks, keys and round keys; NewCipher for key lengths 0..40 and both dispatch outcomes')
    ck.outside.append('arm64: the NEON semantics are those of engine/arm64sym.py (no arm64 host to validate them on hardware)')
    ck.assumptions.append('S-box applications are uninterpreted byte functions named by table content: the assembly\'s GFNI pipeline (pre-affine, field inversion, post-affine) is fused into one 256-entry table by the interpreter and matches the spec only if that table is the standard S-box (itself generated from the algebraic definition and validated against OpenSSL)')

    # ------------------------------------------------------------ replay on the real build: all paths against reference vectors
    rng = ck.rng
    vec = []
    for i in range(4):
        k = [rng.randrange(256) for _ in range(16)]
        blocks = [rng.randrange(256) for _ in range(256)]
        want = []
        for j in range(16):
            want += S.encrypt_block(k, blocks[16 * j:16 * j + 16])
        vec.append((k, blocks, want))
    rows = '\n'.join('{%s,%s,%s},' % (go_bytes(k), go_bytes(b), go_bytes(w)) for k, b, w in vec)
    src = '''package sm4
import ("testing"; "bytes"; "crypto/cipher")
func TestVerifReplay(t *testing.T) {
	cases := []struct{ key, in, want []byte }{
%s
	}
	for i, c := range cases {
		g, _ := newCipherGeneric(c.key)
		a, _ := NewCipher(c.key)
		for j := 0; j < 16; j++ {
			o := make([]byte, 16)
			g.Encrypt(o, c.in[16*j:16*j+16]); if !bytes.Equal(o, c.want[16*j:16*j+16]) { t.Fatalf("case %%d: portable Encrypt block %%d", i, j) }
			a.Encrypt(o, c.in[16*j:16*j+16]); if !bytes.Equal(o, c.want[16*j:16*j+16]) { t.Fatalf("case %%d: NewCipher Encrypt block %%d", i, j) }
			b := append([]byte{}, c.in[16*j:16*j+16]...); a.Encrypt(b, b); a.Decrypt(b, b); if !bytes.Equal(b, c.in[16*j:16*j+16]) { t.Fatalf("case %%d: in-place round trip", i) }
			g.Decrypt(o, c.want[16*j:16*j+16]); if !bytes.Equal(o, c.in[16*j:16*j+16]) { t.Fatalf("case %%d: portable Decrypt", i) }
			o2 := make([]byte, 16); cs := append([]byte{}, c.want[16*j:16*j+16]...)
			a.Decrypt(o2, cs); if !bytes.Equal(o2, c.in[16*j:16*j+16]) { t.Fatalf("case %%d: NewCipher Decrypt into a separate buffer, block %%d", i, j) }
			if !bytes.Equal(cs, c.want[16*j:16*j+16]) { t.Fatalf("case %%d: NewCipher Decrypt changed its source block", i) }
			ps := append([]byte{}, c.in[16*j:16*j+16]...)
			a.Encrypt(o2, ps); if !bytes.Equal(ps, c.in[16*j:16*j+16]) { t.Fatalf("case %%d: NewCipher Encrypt changed its source block", i) }
		}
		if candoAsm {
			var c2 sm4Cipher
			expandKey(c.key, &c2.enc, &c2.dec)
			var ca sm4CipherAsm
			expandKeyAsm(&c.key[0], &ca.enc[0], &ca.dec[0])
			if ca.enc != c2.enc || ca.dec != c2.dec { t.Fatalf("case %%d: key schedules differ", i) }
			for _, n := range []int{1, 2, 4, 8, 16} {
				o := make([]byte, 16*n)
				switch n {
				case 1: cryptoBlockAsm(&ca.enc[0], &o[0], &c.in[0])
				case 2: cryptoBlockAsmX2(&ca.enc[0], &o[0], &c.in[0])
				case 4: cryptoBlockAsmX4(&ca.enc[0], &o[0], &c.in[0])
				case 8: cryptoBlockAsmX8(&ca.enc[0], &o[0], &c.in[0])
				case 16: cryptoBlockAsmX16(&ca.enc[0], &o[0], &c.in[0])
				}
				if !bytes.Equal(o, c.want[:16*n]) { t.Fatalf("case %%d: kernel X%%d differs from the standard", i, n) }
			}
			o := make([]byte, 32); encryptX2(&c2, o, c.in[:32]); if !bytes.Equal(o, c.want[:32]) { t.Fatalf("portable X2") }
		}
	}
	// blocks at every offset inside a larger buffer (no alignment may be assumed for dst or src), both cipher types
	{
		c0 := cases[0]
		a, _ := NewCipher(c0.key); g, _ := newCipherGeneric(c0.key)
		for _, bc := range []cipher.Block{a, g} {
			for off := 0; off < 17; off++ {
				buf := make([]byte, 80); in := make([]byte, 80)
				copy(in[off:], c0.in[:16])
				func() {
					defer func() { if x := recover(); x != nil { t.Fatalf("Encrypt with dst/src at offset %%d of their buffers panics: %%v", off, x) } }()
					bc.Encrypt(buf[off:off+16], in[off:off+16])
					if !bytes.Equal(buf[off:off+16], c0.want[:16]) { t.Fatalf("Encrypt at buffer offset %%d differs from the standard", off) }
					bc.Decrypt(buf[off:off+16], buf[off:off+16])
					if !bytes.Equal(buf[off:off+16], c0.in[:16]) { t.Fatalf("in-place Decrypt at buffer offset %%d differs", off) }
				}()
			}
		}
	}
	// the fallback dispatch (CPU without the accelerated instructions): NewCipher must still be SM4, in both directions
	if saved := candoAsm; true {
		candoAsm = false
		c0 := cases[0]
		fb, err := NewCipher(c0.key)
		candoAsm = saved
		if err != nil { t.Fatalf("NewCipher on the fallback path: %%v", err) }
		o := make([]byte, 16)
		fb.Encrypt(o, c0.in[:16]); if !bytes.Equal(o, c0.want[:16]) { t.Fatalf("fallback path (candoAsm=false): Encrypt differs from the standard") }
		fb.Decrypt(o, c0.want[:16]); if !bytes.Equal(o, c0.in[:16]) { t.Fatalf("fallback path (candoAsm=false): Decrypt differs from the standard") }
	}
	// key lengths: only 16 bytes is a key; everything else must give an error and no cipher
	for n := 0; n <= 64; n++ {
		c, err := NewCipher(make([]byte, n))
		if n == 16 && (err != nil || c == nil) { t.Fatalf("16-byte key refused") }
		if n != 16 && (err == nil || c != nil) { t.Fatalf("NewCipher accepts a %%d-byte key", n) }
	}
}''' % rows
    ok, out, path = ck.go_test('sm4', src, name='blocks')
    if ok is True:
        ck.validated += len(vec) * 16
    for k, fl in sorted(fails.items()):
        desc = fl[0][0]
        if ok is False:
            ck.record('block[' + k + ']', 'violated', desc + ' - confirmed on the real build: ' + (out or '')[-160:].replace('\n', ' '))
            ck.violation(k, desc, path)
        else:
            ck.record('block[' + k + ']', 'inconclusive', desc + ' - symbolic mismatch not reproduced by the reference vectors on the real build')
    if ok is False and not fails:
        ck.record('reference_vectors', 'violated', 'real build differs from the reference on random vectors: ' + (out or '')[-200:].replace('\n', ' '))
        ck.violation('reference-vectors', 'a block path differs from the standard on random vectors', path)
    if not fails:
        ck.record('asm_kernels', 'proved', '%d lane obligations: every lane of every kernel width equals the 32-round specification for all round keys and blocks; expandKeyAsm equals the standard key schedule for all keys' % nk, ck.bounds[0], secs,
                  sample=dict(kernel='cryptoBlockAsmX16', lane=7, claim='forall rk[0..31], block: out == SM4_rk(block)'))
        ck.record('portable', 'proved', 'tables == L(sbox<<k), ss/transTPrime == L(tau)/L\'(tau) for all bytes at each position, cryptoBlock/cryptoBlockX2/expandKey == standard structure (also with dst aliasing src)')
        ck.record('dispatch', 'proved', 'KeySizeError iff len(key) != 16 for 0..40; both dispatch outcomes give the standard permutation and its inverse; no reference into the key slice')
    # ------------------------------------------------------------ arm64: Go glue (go/ssa GOARCH=arm64) + NEON leaf routines (arm64 listing)
    import arm64lib
    a64fails = {}
    t_a64 = time.time()
    try:
        a64env = arm64lib.Env('c05')
        n_a64 = arm64lib.c05(ck, a64env, lambda k, d, w=None: a64fails.setdefault(k, []).append((d, w)), thorough)
    except (asmsym.AsmUnsupported, Unsupported, RuntimeError) as ex:
        n_a64 = 0
        a64fails.setdefault('a64:unsupported', []).append(('arm64 part not completed: %s' % ex, None))
    if not arm64lib.report(ck, a64fails):
        ck.record('arm64', 'proved', 'arm64 NEON kernels X1/X2/X4/X8/X16 (plain, in place, tmp=dst) and the NEON key schedule equal the GB/T 32907 specification for all round keys, keys and blocks (%d cases)' % n_a64, secs=time.time() - t_a64)
    ck.finish()


def cells_same(a, b):
    for x, y in zip(a, b):
        if isinstance(x, int) or isinstance(y, int):
            if not (isinstance(x, int) and isinstance(y, int) and x == y):
                return False
        elif not x.eq(y):
            return False
    return True


if __name__ == '__main__':
    guarded_main('C05', main)
