#!/usr/bin/env python3
# C18 - every precomputed constant equals the value its derivation gives.  DESIGN.md section 3/C18.
import time, os
from sm4lib import *
import sm2 as ref
import sm3 as sm3spec

INT = MOD + '/sm2/internal'
R256 = 1 << 256


def b32(v):
    return list(v.to_bytes(32, "big"))


def gf_mul_bv(a, b):
    """multiplication in GF(2)[x]/(x^8+x^7+x^6+x^5+x^4+x^2+1) on 8-bit z3 terms"""
    r = z3.BitVecVal(0, 8)
    for i in range(8):
        r = z3.If(z3.Extract(i, i, b) == 1, r ^ a, r)
        hi = z3.Extract(7, 7, a)
        a = z3.If(hi == 1, (a << 1) ^ z3.BitVecVal(0xF5, 8), a << 1)
    return r


def main():
    ck = Check('C18')
    prog = dump_ssa('c18')
    L = load_listing()
    fails = []
    nent = 0
    t0 = time.time()
    eng = new_engine(prog)

    def run_tables(e):
        g = lambda pkg, n: e.load(e.global_ptr(pkg + '.' + n))
        return dict(sbox=list(g(SM4, 'sbox')), s=[list(g(SM4, 's%d' % i)) for i in range(4)], ck=list(g(SM4, 'ck')), tt=list(g(MOD + '/sm3', 'tt')),
                    zbytes=e.slice_list(g(MOD + '/sm2', 'zBytes')),
                    sm2={name: e.load(e.global_ptr(INT + '.' + name)) for name in ('sm2Precomputed_6_3_14', 'sm2Precomputed_6_3_14_Remainder', 'sm2Precomputed_5_3_17', 'sm2Precomputed_5_3_17_Remainder',
                                                                                  'sm2Precomputed_4_2_32', 'sm2Precomputed_7_3_12', 'sm2Precomputed_7_3_12_Remainder')},
                    heap=e)
    T = eng.explore(run_tables)[0]
    e = T['heap']
    ck.absorb(eng)

    # ------------------------------------------------------------ SM4 S-box: algebraic definition, for all 256 entries by a symbolic-index query
    sb = T['sbox']
    arr = z3.K(z3.BitVecSort(8), z3.BitVecVal(0, 8))
    for i, v in enumerate(sb):
        arr = z3.Store(arr, z3.BitVecVal(i, 8), z3.BitVecVal(v, 8))
    x = z3.BitVec('x', 8)

    def affine_bv(v):
        bits = []
        for i, row in enumerate(S.ACOLS):
            acc = None
            for k in range(8):
                if (row >> k) & 1:
                    b = z3.Extract(k, k, v)
                    acc = b if acc is None else acc ^ b
            bits.append(acc)
        return z3.Concat(*bits) ^ z3.BitVecVal(S.CVEC, 8)
    # sbox[x] = A(inv(A(x)))  <=>  with u = A(x), v = A^-1-image: A(v') = sbox[x] where v' = inv(u); stated without inverses:
    # there is exactly one v' with A(v') == sbox[x] (A is a bijection, checked on all 256 values) and u*v' == 1 or u == v' == 0
    ainv = {S.affine(v): v for v in range(256)}
    okA = len(ainv) == 256
    arr_ainv = z3.K(z3.BitVecSort(8), z3.BitVecVal(0, 8))
    for k_, v_ in ainv.items():
        arr_ainv = z3.Store(arr_ainv, z3.BitVecVal(k_, 8), z3.BitVecVal(v_, 8))
    u = affine_bv(x)
    vprime = z3.Select(arr_ainv, z3.Select(arr, x))
    s = z3.Solver()
    s.set('timeout', 60000)
    t1 = time.time()
    r = s.check(z3.Not(z3.Or(gf_mul_bv(u, vprime) == 1, z3.And(u == 0, vprime == 0))))
    ck.queries += 1
    ck.solver_s += time.time() - t1
    nent += 256
    if r != z3.unsat or not okA:
        fails.append(('sm4.sbox', 'S-box table differs from the algebraic definition A*inv(A*x+c)+c (%s)' % r))
    for i in range(4):
        for xv in range(256):
            nent += 1
            if T['s'][i][xv] != S.L(sb[xv] << (24 - 8 * i)):
                fails.append(('sm4.s%d' % i, 'T-table s%d[%d] != L(sbox[x] << %d)' % (i, xv, 24 - 8 * i)))
                break
    for i in range(32):
        nent += 1
        if T['ck'][i] != sum((((4 * i + j) * 7) & 0xff) << (24 - 8 * j) for j in range(4)):
            fails.append(('sm4.ck', 'CK[%d] does not follow 7*(4i+j) mod 256' % i))
            break
    for j in range(64):
        nent += 1
        if T['tt'][j] != sm3spec.rotl(sm3spec.T(j), j % 32):
            fails.append(('sm3.tt', 'Tj rotation constant %d wrong' % j))
            break
    if T['zbytes'] != list(ref.b32(ref.A) + ref.b32(ref.B) + ref.b32(ref.GX) + ref.b32(ref.GY)):
        fails.append(('sm2.zBytes', 'a||b||Gx||Gy block differs from the standard parameters'))

    # ------------------------------------------------------------ assembly data blocks (amd64 and arm64)
    def le32(bs):
        return [int.from_bytes(bytes(bs[i:i + 4]), 'little') for i in range(0, len(bs), 4)]
    D = L.data
    if le32(D['FK']) != S.FK:
        fails.append(('asm.FK', 'FK block of the amd64 assembly differs from the standard'))
    if le32(D['CK']) != S.CK:
        fails.append(('asm.CK', 'CK block of the amd64 assembly differs from the standard'))
    pre = int.from_bytes(D['PreAffineMatrix'], 'little')
    post = int.from_bytes(D['PostAffineMatrix'], 'little')
    # constants of the two GFNI instructions are immediates in the listing
    imms = {}
    for ins in L.funcs['cryptoBlockAsm']:
        if ins.op in ('VGF2P8AFFINEQB', 'VGF2P8AFFINEINVQB'):
            imms[ins.op] = int(ins.args[0][1:], 0)
    t_pre = asmsym.affine_table(pre, imms.get('VGF2P8AFFINEQB', 0), False)
    t_post = asmsym.affine_table(post, imms.get('VGF2P8AFFINEINVQB', 0), True)
    fused = [t_post[t_pre[v]] for v in range(256)]
    nent += 256
    if fused != S.SBOX:
        fails.append(('asm.gfni', 'pre-affine / inversion / post-affine of the GFNI path does not compose to the SM4 S-box (first difference at %s)' % next((i for i in range(256) if fused[i] != S.SBOX[i]), None)))
    if list(D['Shuffle']) != [3, 2, 1, 0, 7, 6, 5, 4, 11, 10, 9, 8, 15, 14, 13, 12]:
        fails.append(('asm.Shuffle', 'byte-order shuffle is not the 32-bit byte reversal'))
    if list(D['Shuffle2']) != list(range(15, -1, -1)) or list(D['Shuffle1']) != [7, 6, 5, 4, 3, 2, 1, 0, 15, 14, 13, 12, 11, 10, 9, 8]:
        fails.append(('asm.Shuffle12', 'GHASH length-block shuffles are not 128-bit / 2x64-bit byte reversals'))
    if int.from_bytes(D['GCM_POLY'], 'little') != 0x87:
        fails.append(('asm.GCM_POLY', 'GHASH reduction constant is not x^7+x^2+x+1'))
    # bit reversal of a byte through the two nibble tables
    low = list(D['LOWER_MASK'])
    ok_rev = list(D['AND_MASK']) == [0x0f] * 16
    for v in range(256):
        hi_tab = [(t << 4) & 0xff for t in low]     # VPSLLQ $4 of the lower table
        got = hi_tab[v & 15] ^ low[v >> 4]
        if got != int('{:08b}'.format(v)[::-1], 2):
            ok_rev = False
    if not ok_rev:
        fails.append(('asm.reverseBits', 'nibble tables do not implement the bit reversal of a byte'))
    for name, want in (('Counter_Add1', [1, 2, 3, 4]), ('Counter_Add2', [4, 4, 4, 4]), ('Counter_Add3', [2, 2, 2, 2])):
        w = le32(D[name])
        if [w[4 * i + 3] for i in range(4)] != want or any(w[4 * i + k] for i in range(4) for k in range(3)):
            fails.append(('asm.' + name, 'counter increment vector wrong'))
    try:
        La = Listing.load(os.path.join(REPO, 'sm4'), ['asm_arm64.s', 'gcm_arm64.s'], goarch='arm64')
        if list(La.data.get('SBox', b'')) != S.SBOX:
            fails.append(('arm64.SBox', 'S-box copy of the arm64 assembly differs from the standard'))
        if le32(La.data['FK']) != S.FK or le32(La.data['CK']) != S.CK:
            fails.append(('arm64.FKCK', 'FK/CK of the arm64 assembly differ from the standard'))
        nent += 256 + 36
    except Exception as ex:
        ck.record('arm64_data', 'inconclusive', 'arm64 listing could not be produced: %s' % str(ex)[:100])

    # ------------------------------------------------------------ SM2 base-point tables: entry (j,i) = Montgomery form of the affine coordinates of [c(j,i)]G
    def limbs_at(ptr):
        return e.heap[ptr.obj][0] if not ptr.path else e._nav(e.heap[ptr.obj][0], ptr.path)

    def slice_items(sl):
        arr_ = e._nav(e.heap[sl.obj][0], sl.path)
        return arr_[sl.off:sl.off + sl.len]

    def mont(v):
        return v * R256 % ref.P

    def val(limbs):
        return sum(l << (64 * i) for i, l in enumerate(limbs))
    cache = {}

    def mulG(c):
        if c not in cache:
            cache[c] = ref.mul(c % ref.N)
        return cache[c]
    schemes = [('sm2Precomputed_6_3_14', 6, 3, 14, 4), ('sm2Precomputed_5_3_17', 5, 3, 17, 1), ('sm2Precomputed_4_2_32', 4, 2, 32, 0), ('sm2Precomputed_7_3_12', 7, 3, 12, 4)]
    npts = 0
    for name, window, sub, iters, rem in schemes:
        tab = slice_items(T['sm2'][name])
        if len(tab) != sub:
            fails.append(('sm2.' + name, 'number of sub-tables'))
            continue
        for j in range(sub):
            xy = slice_items(tab[j])
            xs, ys = slice_items(xy[0]), slice_items(xy[1])
            if len(xs) != (1 << window) - 1 or len(ys) != len(xs):
                fails.append(('sm2.' + name, 'sub-table width'))
                break
            for i in range(len(xs)):
                c = 0
                for b in range(window):
                    if ((i + 1) >> b) & 1:
                        c += 1 << (rem + j * iters + b * sub * iters)
                pt = mulG(c)
                npts += 1
                gx, gy = val(limbs_at(xs[i])), val(limbs_at(ys[i]))
                if pt is None or gx != mont(pt[0]) or gy != mont(pt[1]):
                    fails.append(('sm2.%s[%d][%d]' % (name, j, i), 'table entry is not the Montgomery form of [%#x]G' % c))
                    break
                # independent of the reference multiplication: the entry is on the curve
                ax, ay = gx * pow(R256, -1, ref.P) % ref.P, gy * pow(R256, -1, ref.P) % ref.P
                if not ref.on_curve((ax, ay)):
                    fails.append(('sm2.%s[%d][%d]' % (name, j, i), 'table entry is not on the curve'))
                    break
        if rem >= 1:
            rt = slice_items(T['sm2'][name + '_Remainder'])
            xs, ys = slice_items(rt[0]), slice_items(rt[1])
            if len(xs) != (1 << rem) - 1:
                fails.append(('sm2.' + name + '_Remainder', 'width'))
            for i in range(len(xs)):
                pt = mulG(i + 1)
                npts += 1
                if val(limbs_at(xs[i])) != mont(pt[0]) or val(limbs_at(ys[i])) != mont(pt[1]):
                    fails.append(('sm2.%s_Remainder[%d]' % (name, i), 'remainder table entry is not [%d]G' % (i + 1)))
                    break
    nent += 2 * npts
    secs = time.time() - t0
    ck.states += nent
    ck.transitions += nent
    ck.extra['exhaustive'] = True
    ck.extra['entries_checked'] = nent
    ck.extra['sm2_points'] = npts
    ck.bounds.append('finite space enumerated completely: %d table entries (%d SM2 base-point multiples in 4 schemes, S-box 256, T-tables 4x256, CK 32, FK 4, Tj 64, curve-parameter block, amd64 data blocks incl. GFNI matrices+immediates, arm64 S-box/FK/CK copies)' % (nent, npts))

    # replay on the real build: table-driven base multiplication of single-window scalars against the reference
    rows = []
    for name, window, sub, iters, rem in schemes[:1]:
        for (j, i) in [(0, 0), (0, 62), (1, 5), (2, 62), (2, 31)]:
            c = 0
            for b in range(window):
                if ((i + 1) >> b) & 1:
                    c += 1 << (rem + j * iters + b * sub * iters)
            pt = mulG(c)
            rows.append('{%s, %s, %s},' % (go_bytes(b32(c)), go_bytes(b32(pt[0])), go_bytes(b32(pt[1]))))
    for c in (1, 15, 16):
        pt = mulG(c)
        rows.append('{%s, %s, %s},' % (go_bytes(b32(c)), go_bytes(b32(pt[0])), go_bytes(b32(pt[1]))))
    src = '''package internal
import ("testing"; "bytes")
func TestVerifReplay(t *testing.T) {
	cases := []struct{ k, x, y []byte }{
%s
	}
	for i, c := range cases {
		for n, f := range []func([]byte) (*SM2Point, error){scalarBaseMult_SkipBitExtraction_6_3_14, scalarBaseMult_SkipBitExtraction_5_3_17, scalarBaseMult_SkipBitExtraction_4_2_32, scalarBaseMult_SkipBitExtraction_7_3_12} {
			p, err := f(c.k)
			if err != nil { t.Fatal(err) }
			b := p.Bytes()
			if !bytes.Equal(b[1:33], c.x) || !bytes.Equal(b[33:], c.y) { t.Fatalf("case %%d scheme %%d: base multiple differs from the reference", i, n) }
		}
	}
}''' % '\n'.join(rows)
    okr, outr, pathr = ck.go_test('sm2/internal', src, name='tables')
    if okr is True:
        ck.validated += len(rows)
    # constants that are immediates inside the arm64 code (not DATA blocks): the GHASH reduction constant of gHashBlocks is
    # checked through its effect - the routine, interpreted from the arm64 listing, must be the GHASH of the specification
    try:
        import arm64lib, random as _rnd
        a64 = arm64lib.Env('c18')
        r3 = _rnd.Random(ck.seed)
        for count in (1, 2, 4, 9):
            Hh = [r3.randrange(256) for _ in range(16)]
            tag0 = [r3.randrange(256) for _ in range(16)]
            data = [r3.randrange(256) for _ in range(16 * count)]
            m64 = a64.m
            m64.reset()
            m64.run('gHashBlocks', {0: m64.add_region('h', Hh, False), 8: m64.add_region('tag', list(tag0)), 16: m64.add_region('data', data, False), 24: count})
            y = int.from_bytes(bytes(tag0), 'big')
            hv = int.from_bytes(bytes(Hh), 'big')
            for i in range(count):
                y = G.mul_int(y ^ int.from_bytes(bytes(data[16 * i:16 * i + 16]), 'big'), hv)
            if bytes(m64.regions['tag'].cells) != y.to_bytes(16, 'big'):
                fails.append(('arm64.GHASH-constant', 'arm64 gHashBlocks (reduction constant and shuffles as immediates in gcm_arm64.s) does not compute GHASH over x^128+x^7+x^2+x+1'))
                break
        CK_ = rk_bytes(S.CK)
    except (asmsym.AsmUnsupported, RuntimeError, KeyError) as ex:
        ck.record('arm64_immediates', 'inconclusive', 'arm64 gHashBlocks could not be interpreted: %s' % str(ex)[:160])
    keys = {}
    for k, d in fails:
        keys.setdefault(k.split('[')[0], []).append((k, d))
    for k, fl in sorted(keys.items()):
        ck.record('const[' + k + ']', 'violated', '%s (%d entries)' % (fl[0][1], len(fl)), sample=dict(entry=fl[0][0]))
        ck.violation(k, fl[0][1], pathr if (okr is False and k.startswith('sm2')) else os.path.join(REPO, {'sm4': 'sm4/sm4_const.go', 'sm3': 'sm3/sm3.go', 'sm2': 'sm2/internal/sm2_tables.go', 'asm': 'sm4/com_amd64.s', 'arm64': 'sm4/gcm_arm64.s' if 'GHASH' in k else 'sm4/asm_arm64.s'}.get(k.split('.')[0], '')))
    if okr is False and not fails:
        ck.record('table_replay', 'violated', 'table-driven base multiplication differs from the reference: ' + (outr or '')[-200:].replace('\n', ' '))
        ck.violation('tables-replay', 'table-driven base multiplication differs from the reference', pathr)
    if not fails:
        ck.record('constants', 'proved', ck.bounds[0], secs=secs, sample=dict(table='sm2Precomputed_6_3_14', sub_table=2, index=62, multiplier='2^4*2^28*(1+2^42+...+2^210)', claim='limbs == Montgomery(affine([c]G))'))
    ck.assumptions.append('the comparison value of a table entry comes from an independent affine reference implementation (validated on the standard vectors); each entry is additionally checked to lie on the curve')
    ck.finish()


if __name__ == '__main__':
    guarded_main('C18', main)
