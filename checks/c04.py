#!/usr/bin/env python3
# C04 - SM3: every Write/Sum/Reset history yields the standard digest.  DESIGN.md section 3/C04.
import sys, os, time
sys.path.insert(0, os.path.join(os.path.dirname(os.path.abspath(__file__)), '..', 'engine'))
sys.path.insert(0, os.path.join(os.path.dirname(os.path.abspath(__file__)), '..', 'specs'))
import z3
from common import *
from gosym import *
from harness import *
import sm3 as spec

PK = MOD + '/sm3'
T_SM3 = PK + '.SM3'
F = lambda m: '(*%s).%s' % (T_SM3, m)

CF = z3.Function('CF', z3.BitVecSort(256), z3.BitVecSort(512), z3.BitVecSort(256))


def cf_uf(V, block):
    r = CF(z3.Concat(*[tobv(v, 32) for v in V]), z3.Concat(*[tobv(b, 8) for b in block]))
    return [z3.Extract(255 - 32 * i, 224 - 32 * i, r) for i in range(8)]


def cf_model(e, args, ins):
    """contract of (*SM3).cf, discharged by obligation cf_equals_spec: h = CF(h, msg[0:64]); nothing else changes"""
    p, msg = args
    if not isinstance(msg.cap, int) or msg.cap < 64:
        raise GoPanic('slice bounds out of range [:64] with capacity %s' % msg.cap, 'bounds')
    st = e.heap[p.obj][0]
    st = e._nav(st, p.path)
    blk = [e.slice_get(Slice(msg.obj, msg.path, msg.off, 64, 64), i) for i in range(64)]
    st[0] = [simp(x) for x in cf_uf(st[0], blk)]
    return None


def mk_state(e, nx, name='s', total=None):
    h = [e.fresh_bv('%s_h%d' % (name, i), 32) for i in range(8)]
    x = [e.fresh_bv('%s_x%d' % (name, i), 8) for i in range(64)]
    ln = e.fresh_bv(name + '_len', 64) if total is None else total
    if total is None:
        e.assume(ln & 63 == nx)
        e.assume(z3.ULT(ln, 1 << 61))
    oid = e.new_obj([list(h), list(x), nx, ln], T_SM3)
    return Ptr(oid, ()), h, x, ln


def same(e, a, b):
    """prove equality of two scalar values under the path condition"""
    a, b = force(a), force(b)
    if isinstance(a, int) and isinstance(b, int):
        return ('proved', None) if a == b else ('cex', None)
    w = a.size() if is_sym(a) else b.size()
    c = z3.simplify(tobv(a, w) == tobv(b, w))
    if z3.is_true(c):
        return ('proved', None)
    return e.prove(c)


def all_same(e, pairs):
    cs = []
    for a, b in pairs:
        a, b = force(a), force(b)
        if isinstance(a, int) and isinstance(b, int):
            if a != b:
                return e.prove(False)
            continue
        w = a.size() if is_sym(a) else b.size()
        c = z3.simplify(tobv(a, w) == tobv(b, w))
        if z3.is_true(c):
            continue
        cs.append(c)
    if not cs:
        return ('proved', None)
    return e.prove(z3.And(*cs))


def main():
    ck = Check('C04')
    prog = dump_ssa('c04')
    thorough = ck.tier == 'thorough'

    # ------------------------------------------------------------ 1. cf == specification CF
    eng = new_engine(prog, timeout_ms=120000)

    def run_cf(e):
        """cut-point proof: the loop state (a..h) is renamed to fresh symbols at every arrival at a
        loop header, and one round of the real code is compared with one round of the specification"""
        p, h, x, ln = mk_state(e, 0)
        blk = sym_bytes(e, 'm', 64)
        msg = e.new_slice(blk)
        W = [spec.word(blk[4 * i:4 * i + 4]) for i in range(16)]
        for j in range(16, 68):
            W.append(spec.P1(W[j - 16] ^ W[j - 9] ^ spec.rotl(W[j - 3], 15)) ^ spec.rotl(W[j - 13], 7) ^ W[j - 6])
        cuts = {'prev': None, 'bad': [], 'n': 0, 'unknown': [], 'wchecked': 0}
        names = ['a', 'b', 'c', 'd', 'e', 'f', 'g', 'h']
        Wfull = W
        W = [e.fresh_bv('W%d' % k, 32) for k in range(68)]   # named message words

        def rec(k):  # the standard's expansion recurrence over the named words
            return spec.P1(W[k - 16] ^ W[k - 9] ^ spec.rotl(W[k - 3], 15)) ^ spec.rotl(W[k - 13], 7) ^ W[k - 6]

        def cut_w(e2, env, first):
            wobj = None
            for v in env.values():
                if isinstance(v, Ptr) and v.obj is not None and e2.heap[v.obj][1] == '[68]uint32':
                    wobj = v.obj
            if wobj is None:
                cuts['unknown'].append('w array not found')
                return
            arr = e2.heap[wobj][0]
            for k in range(68):
                cell = arr[k]
                if is_sym(cell) and cell.eq(W[k]):
                    continue
                if isinstance(cell, int) and cell == 0:
                    continue
                if first:
                    want = Wfull[k]
                else:
                    want = rec(k)
                v = same(e2, cell, want)
                cuts['wchecked'] += 1
                if v[0] == 'cex':
                    cuts['bad'].append(('w%d' % k, v[1], None))
                elif v[0] != 'proved':
                    cuts['unknown'].append('w%d' % k)
                arr[k] = W[k]

        def spec_round(j, S):
            A, B, C, D, E, Fv, G, H = S
            a12 = spec.rotl(A, 12)
            SS1 = spec.rotl(spec.add(a12, E, spec.rotl(spec.T(j), j % 32)), 7)
            SS2 = SS1 ^ a12
            Wj4 = W[j + 4] if j < 16 else rec(j + 4)   # W'j = Wj xor Wj+4; from round 16 on the word is produced in the same round
            TT1 = spec.add(spec.FF(j, A, B, C), D, SS2, W[j] ^ Wj4)
            TT2 = spec.add(spec.GG(j, E, Fv, G), H, SS1, W[j])
            return [TT1, A, spec.rotl(B, 9), C, spec.P0(TT2), E, spec.rotl(Fv, 19), G]

        def on_phi(e2, f, bi, prev, phis, newvals, env):
            if f['name'] != F('cf'):
                return None
            byc = {ph['x'].get('comment'): i for i, ph in enumerate(phis)}
            if 'j' not in byc or 'a' not in byc:
                return None
            j = newvals[byc['j']][1]
            vals = [newvals[byc[n]][1] for n in names]
            if cuts['prev'] is not None and cuts['prev'][0] == j - 1:
                pj, S = cuts['prev']
                want = spec_round(pj, S)
                v = all_same(e2, list(zip(vals, want)))
                cuts['n'] += 1
                if v[0] == 'cex':
                    cuts['bad'].append((pj, v[1], S))
                elif v[0] != 'proved':
                    cuts['unknown'].append(pj)
            cut_w(e2, env, cuts['prev'] is None)
            fresh = [e2.fresh_bv('S%d_%s' % (j, n), 32) for n in names]
            if cuts['prev'] is None:
                cuts['entry'] = (vals, fresh)
            elif cuts['prev'][0] == j:
                # first arrival at the second loop: state is passed on unchanged
                v = all_same(e2, list(zip(vals, cuts['prev'][1])))
                if v[0] != 'proved':
                    cuts['unknown'].append('handover')
            cuts['prev'] = (j, fresh)
            out = list(newvals)
            for n, fv in zip(names, fresh):
                out[byc[n]] = (out[byc[n]][0], fv)
            return out
        e.on_phi = on_phi
        out = e.call_outcome(F('cf'), [p, msg])
        e.on_phi = None
        if out.kind != 'return':
            return ('violated', 'cf panics: ' + out.panic.msg, None)
        st = e.heap[p.obj][0]
        if cuts['prev'] is None or cuts['prev'][0] != 64 or cuts['n'] != 64 or cuts['wchecked'] < 68:
            return ('unknown', 'cut points not found as expected (rounds seen: %d)' % cuts['n'], None)
        if cuts['unknown']:
            return ('unknown', 'solver unknown in rounds %s' % cuts['unknown'], None)
        # entry state must be h, final value h ^ state64
        v = all_same(e, list(zip(cuts['entry'][0], h)) + [(st[0][i], h[i] ^ cuts['prev'][1][i]) for i in range(8)])
        if v[0] != 'proved':
            return ('cex' if v[0] == 'cex' else 'unknown', 'chaining (entry / final xor) differs', None)
        # message words used by the real code: run the real expansion for the words it precomputes
        if cuts['bad']:
            # build a concrete witness: choose message from the model of the first failing round; the
            # chaining value cannot be back-solved through earlier rounds, so the replay searches h by running the spec
            return ('cex', 'round/expansion steps %s of the real code differ from the specification' % ([b[0] for b in cuts['bad']],), None, None)
        v = all_same(e, list(zip(st[1], x)) + [(st[2], 0), (st[3], ln)] + list(zip(e.slice_list(msg), blk)))
        if v[0] != 'proved':
            return (v[0], 'cf modifies more than h', v[1], (h, blk))
        return ('proved', '', None)
    t0 = time.time()
    res = eng.explore(run_cf)
    r = res[0]
    if r[0] == 'proved':
        ck.record('cf_equals_spec', 'proved', 'all 2^256 chaining values x 2^512 blocks', 'h: 8 symbolic words, block: 64 symbolic bytes', time.time() - t0)
    elif r[0] == 'cex':
        if r[2] is not None:
            h, blk = r[3]
            m = r[2]
            hv = [m.eval(x, model_completion=True).as_long() for x in h]
            bv = model_bytes(m, blk)
        else:
            hv = [ck.rng.getrandbits(32) for _ in range(8)]
            bv = [ck.rng.randrange(256) for _ in range(64)]
        want = spec.cf(hv, bv)
        src = '''package sm3
import "testing"
func TestVerifReplay(t *testing.T) {
	s := SM3{h: [8]uint32{%s}}
	msg := %s
	s.cf(msg)
	want := [8]uint32{%s}
	if s.h != want { t.Fatalf("cf: got %%x want %%x", s.h, want) }
}
''' % (','.join('0x%x' % v for v in hv), go_bytes(bv), ','.join('0x%x' % v for v in want))
        ok, out, path = ck.go_test('sm3', src)
        if ok is False:
            ck.record('cf_equals_spec', 'violated', 'compression function differs from GB/T 32905', sample=dict(h=hv, block=hexs(bv)))
            ck.violation('cf', 'compression function differs from the standard', path)
        else:
            ck.encoder_mismatch('cf_equals_spec', r[1] + ' :: ' + out[-300:])
    else:
        ck.record('cf_equals_spec', 'inconclusive' if r[0] != 'violated' else 'violated', r[1])
        if r[0] == 'violated':
            ck.violation('cf.panic', r[1], '-')
    ck.absorb(eng)

    # ------------------------------------------------------------ 2. Write: one inductive step from any invariant state
    eng = new_engine(prog)
    eng.intercepts[F('cf')] = cf_model
    ck.assumptions.append('(*SM3).cf replaced by uninterpreted CF in Write/Sum obligations; justified by obligation cf_equals_spec')
    if thorough:
        nxs = list(range(64))
        lens = lambda nx: list(range(0, 192))
    else:
        nxs = [0, 1, 7, 31, 54, 55, 56, 57, 62, 63]
        lens = lambda nx: sorted(set([0, 1, 2, 63 - nx, 64 - nx, 65 - nx, 64, 127 - nx, 128 - nx, 129 - nx, 128, 191]) & set(range(0, 192)))
    ck.bounds.append('Write: nx in %s, data length per call in 0..191 (%s), chaining value, buffered bytes, data bytes and total length (< 2^61) symbolic' % (
        'all 0..63' if thorough else str(nxs), 'all' if thorough else 'boundary set around the block edges'))
    ck.outside.append('single Write calls longer than 191 bytes (same loop body, 3 iterations unrolled)')
    ck.outside.append('total message length >= 2^61 bytes (bit length overflows 64 bits; the standard limits messages to < 2^64 bits)')
    wfail = {}
    nwrite = 0
    t0 = time.time()
    for nx in nxs:
        for L in lens(nx):
            def run_write(e, nx=nx, L=L):
                p, h, x, ln = mk_state(e, nx)
                data = sym_bytes(e, 'd', L)
                ds = e.new_slice(data)
                out = e.call_outcome(F('Write'), [p, ds])
                if out.kind != 'return':
                    return ('Write.panic', 'cex', 'Write panics: %s' % out.panic.msg, None, (h, x, ln, data))
                n, err = out.values
                st = e.heap[p.obj][0]
                buf = x[:nx] + data
                hh = list(h)
                k = 0
                while len(buf) - k >= 64:
                    hh = cf_uf(hh, buf[k:k + 64])
                    k += 64
                tail = buf[k:]
                fails = []
                v = same(e, n, L)
                if v[0] != 'proved' or err is not None:
                    fails.append(('Write.n', v[0] if err is None else 'cex', 'Write returns n=%s err=%s for %d bytes' % (n, err, L), v[1]))
                v = all_same(e, list(zip(st[0], hh)) + [(st[2], len(tail)), (st[3], ln + L)] + list(zip(st[1][:len(tail)], tail)) + list(zip(e.slice_list(ds), data)))
                if v[0] != 'proved':
                    fails.append(('Write.state', v[0], 'state after Write does not represent message||data', v[1]))
                return [(f[0], f[1], f[2], f[3], (h, x, ln, data)) for f in fails]
            for r in eng.explore(run_write):
                nwrite += 1
                if isinstance(r, tuple):
                    r = [r]
                for f in r:
                    wfail.setdefault(f[0], []).append((nx, L, f))
    secs = time.time() - t0
    ck.absorb(eng)

    def replay_write(key, nx, L, f):
        _, verdict, desc, m, (h, x, ln, data) = f
        if m is None:
            import z3 as _z
            class M:  # all-zero model
                def eval(self, t, model_completion=True):
                    return _z.BitVecVal(0, t.size())
            m = M()
        hv = [m.eval(t, model_completion=True).as_long() for t in h]
        xv = model_bytes(m, x)
        lv = m.eval(ln, model_completion=True).as_long()
        if lv % 64 != nx:
            lv = nx
        dv = model_bytes(m, data)
        buf = xv[:nx] + dv
        hh = list(hv)
        k = 0
        while len(buf) - k >= 64:
            hh = spec.cf(hh, buf[k:k + 64])
            k += 64
        tail = buf[k:]
        src = '''package sm3
import ("testing"; "bytes")
func TestVerifReplay(t *testing.T) {
	s := SM3{h: [8]uint32{%s}, nx: %d, len: %d}
	copy(s.x[:], %s)
	data := %s
	n, err := s.Write(data)
	if n != %d || err != nil { t.Fatalf("Write(%%d bytes) returned n=%%d err=%%v", len(data), n, err) }
	wantH := [8]uint32{%s}
	tail := %s
	if s.h != wantH || s.nx != len(tail) || !bytes.Equal(s.x[:s.nx], tail) || s.len != %d { t.Fatalf("state after Write wrong: h=%%x nx=%%d len=%%d", s.h, s.nx, s.len) }
}
''' % (','.join('0x%x' % v for v in hv), nx, lv, go_bytes(xv), go_bytes(dv), L, ','.join('0x%x' % v for v in hh), go_bytes(tail), (lv + L) & (2 ** 64 - 1))
        return ck.go_test('sm3', src, name='write_' + key.replace('.', '_'))

    for key in ('Write.n', 'Write.state', 'Write.panic'):
        if key in wfail:
            cases = wfail[key]
            cex = [c for c in cases if c[2][1] == 'cex']
            if not cex:
                ck.record('write_step[' + key + ']', 'inconclusive', 'solver unknown on %d cases' % len(cases))
                continue
            nx, L, f = cex[0]
            ok, out, path = replay_write(key, nx, L, f)
            if ok is False:
                ck.record('write_step[' + key + ']', 'violated', '%s (first of %d failing (nx,len) cases: nx=%d len=%d)' % (f[2], len(cex), nx, L))
                ck.violation(key, f[2], path)
            else:
                ck.encoder_mismatch('write_step[' + key + ']', (out or '')[-300:])
    if not wfail:
        ck.record('write_step', 'proved', '%d (nx, len) cases; post-state represents message||data, n==len(data), err==nil' % nwrite, ck.bounds[-1], secs,
                  sample=dict(obligation='write_step', nx=55, data_len=10, claim='forall h,x[0:nx],data,len: Write(data) -> h=CF-fold, x=tail, nx=(nx+len)%64, n=len(data), err=nil'))
    else:
        ok_keys = [k for k in ('Write.n', 'Write.state') if k not in wfail]
        for k in ok_keys:
            ck.record('write_step[' + k + ']', 'proved', '%d (nx, len) cases' % nwrite, ck.bounds[-1], secs)

    # ------------------------------------------------------------ 3. Sum from any invariant state
    eng = new_engine(prog)
    eng.intercepts[F('cf')] = cf_model
    sum_nxs = list(range(64)) if thorough else [0, 1, 31, 54, 55, 56, 57, 63]
    in_shapes = [(None, None), (0, 0), (3, 3), (3, 40), (0, 32), (5, 36)] if thorough else [(None, None), (3, 3), (3, 40)]
    ck.bounds.append('Sum: nx in %s, argument slice (len,cap) in %s, state and argument bytes symbolic' % ('all 0..63' if thorough else sum_nxs, in_shapes))
    sfail = {}
    nsum = 0
    t0 = time.time()
    for nx in sum_nxs:
        for (il, ic) in in_shapes:
            def run_sum(e, nx=nx, il=il, ic=ic):
                p, h, x, ln = mk_state(e, nx)
                if il is None:
                    ins_ = NILSLICE
                    inb = []
                else:
                    inb = sym_bytes(e, 'in', il)
                    spare = sym_bytes(e, 'sp', ic - il)
                    s0 = e.new_slice(inb + spare)
                    ins_ = Slice(s0.obj, (), 0, il, ic)
                out = e.call_outcome(F('Sum'), [p, ins_])
                info = (h, x, ln, inb)
                if out.kind != 'return':
                    return [('Sum.panic', 'cex', 'Sum panics: ' + out.panic.msg, None, info)]
                r = out.values
                # specification digest
                pend = x[:nx]
                bits = simp(ln << 3)
                lenb = [z3.Extract(63 - 8 * i, 56 - 8 * i, bits) for i in range(8)]
                buf = pend + [0x80]
                while len(buf) % 64 != 56:
                    buf.append(0)
                buf += lenb
                hh = list(h)
                for k in range(0, len(buf), 64):
                    hh = cf_uf(hh, buf[k:k + 64])
                dg = []
                for wv in hh:
                    dg += [z3.Extract(31 - 8 * i, 24 - 8 * i, wv) for i in range(4)]
                fails = []
                if not isinstance(r.len, int) or r.len != len(inb) + 32:
                    fails.append(('Sum.append', 'cex', 'Sum result has length %s, want %d' % (r.len, len(inb) + 32), None, info))
                else:
                    got = e.slice_list(r)
                    v = all_same(e, list(zip(got[:len(inb)], inb)))
                    if v[0] != 'proved':
                        fails.append(('Sum.append', v[0], 'Sum does not return its argument as prefix', v[1], info))
                    v = all_same(e, list(zip(got[len(inb):], dg)))
                    if v[0] != 'proved':
                        fails.append(('Sum.digest', v[0], 'digest differs from GB/T 32905 padding+compression for pending length %d' % nx, v[1], info))
                st = e.heap[p.obj][0]
                v = all_same(e, list(zip(st[0], h)) + list(zip(st[1], x)) + [(st[2], nx), (st[3], ln)])
                if v[0] != 'proved':
                    fails.append(('Sum.receiver', v[0], 'Sum modifies the receiver', v[1], info))
                return fails
            for r in eng.explore(run_sum):
                nsum += 1
                for f in r:
                    sfail.setdefault(f[0], []).append((nx, il, ic, f))
    secs = time.time() - t0
    ck.absorb(eng)

    def replay_sum(key, nx, il, ic, f):
        _, verdict, desc, m, (h, x, ln, inb) = f
        ev = (lambda t: m.eval(t, model_completion=True).as_long()) if m is not None else (lambda t: 0)
        hv = [ev(t) for t in h]
        xv = [ev(t) for t in x]
        lv = ev(ln)
        if lv % 64 != nx:
            lv = nx
        iv = [ev(t) for t in inb]
        hh = list(hv)
        for blk in spec.pad(lv, xv[:nx]):
            hh = spec.cf(hh, blk)
        dg = []
        for wv in hh:
            dg += list(wv.to_bytes(4, 'big'))
        mk_in = 'var in []byte' if il is None else 'in := make([]byte, %d, %d); copy(in, %s)' % (il, ic, go_bytes(iv))
        src = '''package sm3
import ("testing"; "bytes")
func TestVerifReplay(t *testing.T) {
	s := SM3{h: [8]uint32{%s}, nx: %d, len: %d}
	copy(s.x[:], %s)
	before := s
	%s
	got := s.Sum(in)
	want := append(append([]byte{}, in...), %s...)
	if !bytes.Equal(got, want) { t.Fatalf("Sum: got %%x want %%x", got, want) }
	if s != before { t.Fatalf("Sum modified receiver") }
}
''' % (','.join('0x%x' % v for v in hv), nx, lv, go_bytes(xv), mk_in, go_bytes(dg))
        return ck.go_test('sm3', src, name='sum_' + key.replace('.', '_'))

    for key, cases in sfail.items():
        cex = [c for c in cases if c[3][1] == 'cex']
        if not cex:
            ck.record('sum_step[' + key + ']', 'inconclusive', 'solver unknown on %d cases' % len(cases))
            continue
        nx, il, ic, f = cex[0]
        ok, out, path = replay_sum(key, nx, il, ic, f)
        nxset = sorted(set(c[0] for c in cex))
        if ok is False:
            ck.record('sum_step[' + key + ']', 'violated', '%s; failing pending lengths: %s' % (f[2], nxset))
            ck.violation(key + ('@nx=%s' % ','.join(map(str, nxset)) if key == 'Sum.digest' else ''), f[2], path)
        else:
            ck.encoder_mismatch('sum_step[' + key + ']', (out or '')[-300:])
    if not sfail:
        ck.record('sum_step', 'proved', '%d (nx, argument shape) cases: result = in || digest(spec padding), receiver unchanged' % nsum, ck.bounds[-1], secs,
                  sample=dict(obligation='sum_step', nx=55, in_shape=[3, 40], claim='forall state: Sum(in) == in || CF-fold(pad(pending,len)); receiver bit-identical'))

    # ------------------------------------------------------------ 4. Reset / New / SumSM3
    eng = new_engine(prog)
    eng.intercepts[F('cf')] = cf_model

    def run_reset(e):
        p, h, x, ln = mk_state(e, 17)
        e.call(F('Reset'), [p])
        st = e.heap[p.obj][0]
        ok = st[0] == spec.IV and st[2] == 0 and st[3] == 0
        r = e.call(PK + '.New', [])
        st2 = e.load(r.v) if isinstance(r, Iface) else None
        ok2 = isinstance(r, Iface) and r.t == '*' + T_SM3 and st2[0] == spec.IV and st2[2] == 0 and st2[3] == 0
        return ok, ok2
    ok, ok2 = eng.explore(run_reset)[0]
    if ok and ok2:
        ck.record('reset_new', 'proved', 'Reset and New leave h=IV, nx=0, len=0 from an arbitrary state')
    else:
        src = '''package sm3
import "testing"
func TestVerifReplay(t *testing.T) {
	s := SM3{nx: 17, len: 1234}
	s.Reset()
	n := New().(*SM3)
	iv := [8]uint32{%s}
	if s.h != iv || s.nx != 0 || s.len != 0 || n.h != iv || n.nx != 0 || n.len != 0 { t.Fatalf("Reset/New state wrong") }
}''' % ','.join('0x%x' % v for v in spec.IV)
        okk, out, path = ck.go_test('sm3', src, name='reset')
        if okk is False:
            ck.record('reset_new', 'violated', 'Reset/New do not establish the initial state')
            ck.violation('Reset', 'Reset/New do not establish the IV state', path)
        else:
            ck.encoder_mismatch('reset_new', (out or '')[-300:])
    one_lens = list(range(0, 200)) if thorough else [0, 1, 54, 55, 56, 57, 63, 64, 65, 119, 120, 128, 183]
    bad = []
    t0 = time.time()
    for L in one_lens:
        def run_one(e, L=L):
            data = sym_bytes(e, 'd', L)
            out = e.call_outcome(PK + '.SumSM3', [e.new_slice(data)])
            if out.kind != 'return':
                return ('cex', None, data)
            hh = list(spec.IV)
            full = L - L % 64
            for k in range(0, full, 64):
                hh = cf_uf(hh, data[k:k + 64])
            for blk in spec.pad(L, data[full:]):
                hh = cf_uf(hh, blk)
            dg = []
            for wv in hh:
                dg += [z3.Extract(31 - 8 * i, 24 - 8 * i, wv) for i in range(4)]
            v = all_same(e, list(zip(out.values, dg)))
            return (v[0], v[1], data)
        r = eng.explore(run_one)[0]
        if r[0] != 'proved':
            bad.append((L, r))
    ck.absorb(eng)
    ck.bounds.append('SumSM3: message lengths %s, contents symbolic' % ('0..199' if thorough else one_lens))
    if not bad:
        ck.record('oneshot', 'proved', 'SumSM3(data) == CF-fold over standard padding for %d lengths' % len(one_lens), secs=time.time() - t0)
    else:
        L, r = bad[0]
        dv = model_bytes(r[1], r[2]) if r[1] is not None else [0] * L
        src = '''package sm3
import ("testing"; "bytes")
func TestVerifReplay(t *testing.T) {
	got := SumSM3(%s)
	want := %s
	if !bytes.Equal(got[:], want) { t.Fatalf("SumSM3(%%d bytes): got %%x want %%x", %d, got, want) }
}''' % (go_bytes(dv), go_bytes(spec.digest(dv)), L)
        okk, out, path = ck.go_test('sm3', src, name='oneshot')
        lens_bad = [b[0] for b in bad]
        if okk is False:
            ck.record('oneshot', 'violated', 'SumSM3 differs from the standard digest for lengths %s' % lens_bad)
            ck.violation('SumSM3@len%%64=%s' % ','.join(map(str, sorted(set(l % 64 for l in lens_bad)))), 'one-shot digest wrong for lengths %s' % lens_bad, path)
        else:
            ck.encoder_mismatch('oneshot', (out or '')[-300:])

    # ------------------------------------------------------------ 5. engine validation against the real build
    eng = new_engine(prog)
    cases = []
    rng = ck.rng
    for i in range(24 if not thorough else 60):
        L = rng.choice([0, 1, 55, 56, 63, 64, 65, 100, 128, 200, rng.randrange(0, 300)])
        msg = [rng.randrange(256) for _ in range(L)]
        cut = rng.randrange(0, L + 1)
        cases.append((msg, cut))

    def run_val(e):
        outs = []
        for msg, cut in cases:
            r = e.call(PK + '.New', [])
            p = r.v
            n1, _ = e.call(F('Write'), [p, e.new_slice(msg[:cut])])
            d1 = e.slice_list(e.call(F('Sum'), [p, NILSLICE]))
            n2, _ = e.call(F('Write'), [p, e.new_slice(msg[cut:])])
            d2 = e.slice_list(e.call(F('Sum'), [p, e.new_slice([1, 2, 3])]))
            outs.append((n1, n2, d1, d2))
        return outs
    outs = eng.explore(run_val)[0]
    ck.absorb(eng)
    body = []
    for (msg, cut), (n1, n2, d1, d2) in zip(cases, outs):
        body.append('{%s, %d, %d, %d, %s, %s},' % (go_bytes(msg), cut, n1, n2, go_bytes(d1), go_bytes(d2)))
    src = '''package sm3
import ("testing"; "bytes")
func TestVerifReplay(t *testing.T) {
	cases := []struct{ msg []byte; cut, n1, n2 int; d1, d2 []byte }{
%s
	}
	for i, c := range cases {
		h := New()
		n1, _ := h.Write(c.msg[:c.cut])
		d1 := h.Sum(nil)
		n2, _ := h.Write(c.msg[c.cut:])
		d2 := h.Sum([]byte{1, 2, 3})
		if n1 != c.n1 || n2 != c.n2 || !bytes.Equal(d1, c.d1) || !bytes.Equal(d2, c.d2) { t.Fatalf("case %%d: engine and real build disagree", i) }
	}
}''' % '\n'.join(body)
    okk, out, path = ck.go_test('sm3', src, name='validate')
    if okk is True:
        ck.validated += len(cases)
    else:
        ck.record('engine_validation', 'inconclusive', 'symbolic interpreter and real build disagree on concrete traces: ' + (out or '')[-300:])
    ck.assumptions += ['go/ssa built by x/tools v0.29.0 reflects the compiled semantics of the source (validated on %d concrete traces against the real build)' % ck.validated,
                       'inductive argument: Reset establishes the representation invariant, every Write preserves it (obligation write_step), Sum reads it (obligation sum_step); hence every history is covered']
    ck.finish()


if __name__ == '__main__':
    guarded_main('C04', main)
