#!/usr/bin/env python3
# C08 - SM2 secret scalars do not steer control flow or memory addressing.  DESIGN.md section 3/C08.
import sys, os, time
sys.path.insert(0, os.path.join(os.path.dirname(os.path.abspath(__file__)), '..', 'engine'))
sys.path.insert(0, os.path.join(os.path.dirname(os.path.abspath(__file__)), '..', 'specs'))
import z3
from common import *
from gosym import *
from harness import *
import sm2 as ref

INT = MOD + '/sm2/internal'
FIAT = MOD + '/sm2/internal/fiat'
SM2 = MOD + '/sm2'
N = ref.N


def in_loop(f, bi):
    """block bi lies on a cycle of the control-flow graph"""
    seen = set()
    stack = list(f['blocks'][bi]['succs'])
    while stack:
        b = stack.pop()
        if b == bi:
            return True
        if b in seen:
            continue
        seen.add(b)
        stack.extend(f['blocks'][b]['succs'])
    return False


def verdict_value(f, a):
    """a Return operand that can carry a verdict: a constant, or an error value built on the spot"""
    if a['k'] in ('const', 'global'):
        return True
    if a['k'] == 'reg':
        for b in f['blocks']:
            for ins in b['instrs']:
                if ins.get('name') == a['n']:
                    if ins['op'] == 'Call' and ins['a'][0].get('n') in ('errors.New', 'fmt.Errorf'):
                        return True
                    if ins['op'] == 'MakeInterface':
                        return True
                    if ins['op'] == 'UnOp' and ins['x'].get('op') == '*' and ins['a'][0]['k'] == 'global':
                        return True      # a package-level error value
                    return False
    return False


def return_only(f, bi, depth=0):
    """every path from block bi reaches a Return through blocks without memory access or calls, and every such Return
    hands back verdict values only (constants / error values; at least one): `return ret, nil` after skipped work or a
    bare `return` is not a verdict"""
    b = f['blocks'][bi]
    for ins in b['instrs']:
        if ins['op'] in ('Call', 'Store', 'Alloc', 'MakeSlice', 'IndexAddr', 'FieldAddr', 'Slice', 'Panic') or (ins['op'] == 'UnOp' and ins['x'].get('op') == '*'):
            if not (ins['op'] == 'Call' and ins['a'][0].get('n') in ('errors.New', 'fmt.Errorf')) and ins['op'] != 'MakeInterface' \
                    and not (ins['op'] == 'UnOp' and ins['a'][0]['k'] == 'global'):
                return False
    rets = [ins for ins in b['instrs'] if ins['op'] == 'Return']
    if rets:
        return all(len(r['a']) >= 1 and all(verdict_value(f, a) for a in r['a']) for r in rets)
    if depth > 4 or not b['succs']:
        return False
    return all(return_only(f, s, depth + 1) for s in b['succs'])


def cheap(f, bi, depth=0, seen=None):
    """every path from block bi reaches a Return without a loop and without calls: no secret-dependent amount of work is
    skipped or added by choosing this arm"""
    seen = seen or set()
    if bi in seen or depth > 8 or in_loop(f, bi):
        return False
    b = f['blocks'][bi]
    for ins in b['instrs']:
        if ins['op'] in ('Call', 'Go', 'Defer') and not (ins['a'] and ins['a'][0].get('n') in ('errors.New', 'fmt.Errorf')):
            return False
    if any(ins['op'] == 'Return' for ins in b['instrs']):
        return True
    if not b['succs']:
        return False
    return all(cheap(f, s_, depth + 1, seen | {bi}) for s_ in b['succs'])


def returns_reject(f, bi, depth=0):
    """the return-only arm hands back the API's reject verdict: a non-nil error, or (TestPrivateKey) a non-zero code"""
    b = f['blocks'][bi]
    rets = [ins for ins in b['instrs'] if ins['op'] == 'Return']
    if rets:
        for r in rets:
            for a in r['a']:
                if a['k'] == 'reg' and verdict_value(f, a):
                    return True                      # an error value built on the spot / a package-level error
                if a['k'] == 'const' and f['name'].endswith('/sm2.TestPrivateKey') and a.get('v') not in (0, '0', None):
                    return True
        return False
    if depth > 4 or not b['succs']:
        return False
    return all(returns_reject(f, s_, depth + 1) for s_ in b['succs'])


def main():
    ck = Check('C08')
    prog = dump_ssa('c08')
    thorough = ck.tier == 'thorough'
    eng = new_engine(prog)
    eng.taint = True
    S64 = z3.BitVec('secret64', 64)
    S8 = z3.BitVec('secret8', 8)
    findings = {}
    allowed = set()
    covered = []
    t0 = time.time()

    def classify(e, label):
        for kind, fn, bi, pos, detail in e.events:
            f = prog.funcs[fn]
            if kind == 'symbranch':
                succs = f['blocks'][bi]['succs']
                # a verdict branch: outside loops, one arm only returns verdict values, and either that arm is the API's
                # reject outcome or the other arm does no further work (so that nothing secret-dependent is skipped)
                verdict = False
                if not in_loop(f, bi) and len(succs) == 2:
                    for a_, o_ in ((succs[0], succs[1]), (succs[1], succs[0])):
                        if return_only(f, a_) and (returns_reject(f, a_) or cheap(f, o_)):
                            verdict = True
                if verdict:
                    allowed.add((fn, bi, pos))
                    continue
            k = (kind, pos or fn)
            findings.setdefault(k, dict(fn=fn, kind=kind, pos=pos, ops=set()))['ops'].add(label)
        e.events = []

    def elem(e, T):
        return Ptr(e.new_obj([[S64] * 4], FIAT + '.' + T), ())

    ops = []
    ops.append(('ConstantTimeCmp', lambda e: e.call_outcome(MOD + '/utils.ConstantTimeCmp', [e.new_slice([S8] * 32), e.new_slice([S8] * 32), 32])))
    for L in (32, 31, 1):
        ops.append(('TestPrivateKey(%d bytes)' % L, lambda e, L=L: e.call_outcome(SM2 + '.TestPrivateKey', [e.new_slice([S8] * L)])))
    ops.append(('SM2ScalarElement.SetBytes (d+1 in SignHashed)', lambda e: e.call_outcome('(*%s.SM2ScalarElement).SetBytes' % FIAT, [elem(e, 'SM2ScalarElement'), e.new_slice([S8] * 32)])))
    ops.append(('SM2Element.SetBytes', lambda e: e.call_outcome('(*%s.SM2Element).SetBytes' % FIAT, [elem(e, 'SM2Element'), e.new_slice([S8] * 32)])))
    ops.append(('SM2ScalarElement.Invert', lambda e: e.call_outcome('(*%s.SM2ScalarElement).Invert' % FIAT, [elem(e, 'SM2ScalarElement'), elem(e, 'SM2ScalarElement')])))
    ops.append(('SM2Element.Invert', lambda e: e.call_outcome('(*%s.SM2Element).Invert' % FIAT, [elem(e, 'SM2Element'), elem(e, 'SM2Element')])))
    for op in ('Mul', 'Add', 'Sub', 'Square'):
        ops.append(('SM2Element.' + op, lambda e, op=op: e.call_outcome('(*%s.SM2Element).%s' % (FIAT, op), [elem(e, 'SM2Element'), elem(e, 'SM2Element')] + ([elem(e, 'SM2Element')] if op != 'Square' else []))))
        ops.append(('SM2ScalarElement.' + op, lambda e, op=op: e.call_outcome('(*%s.SM2ScalarElement).%s' % (FIAT, op), [elem(e, 'SM2ScalarElement'), elem(e, 'SM2ScalarElement')] + ([elem(e, 'SM2ScalarElement')] if op != 'Square' else []))))
    ops.append(('SM2Element.Select', lambda e: e.call_outcome('(*%s.SM2Element).Select' % FIAT, [elem(e, 'SM2Element'), elem(e, 'SM2Element'), elem(e, 'SM2Element'), S64])))
    ops.append(('ScalarBaseMult', lambda e: e.call_outcome(INT + '.ScalarBaseMult', [e.new_slice([S8] * 32)])))
    ops.append(('ScalarMult', lambda e: e.call_outcome(INT + '.ScalarMult', [e.call(INT + '.NewSM2Generator', []), e.new_slice([S8] * 32)])))

    def msel(e):
        pt = e.call(INT + '.NewSM2Point', [])
        tab = e.load(e.global_ptr(INT + '.sm2Precomputed_6_3_14'))
        first = Ptr(tab.obj, tab.path + (tab.off,))
        return e.call_outcome('(*%s.SM2Point).MultiSelectXY' % INT, [pt, first, 63, S8])
    ops.append(('MultiSelectXY', msel))
    eng.max_instrs = 2_000_000_000
    for label, fn in ops:
        def run(e, fn=fn, label=label):
            e.events = []
            out = fn(e)
            if out.kind == 'panic' and 'secret' not in str(out.panic.msg):
                findings.setdefault(('panic', label), dict(fn=label, kind='symbranch', pos='', ops=set()))['ops'].add(label + ' panics: ' + out.panic.msg)
            classify(e, label)
        eng.explore(run, max_paths=64)
        covered.append(label)
    ck.absorb(eng)
    secs = time.time() - t0
    ck.bounds.append('operations run with every secret byte/limb symbolic and all callees inlined (real tables, real fiat code): ConstantTimeCmp(32), TestPrivateKey(32/31/1 bytes), SM2ScalarElement.SetBytes, SM2Element.SetBytes, both Invert chains, field Mul/Add/Sub/Select, ScalarBaseMult(32-byte k), ScalarMult(generator, 32-byte scalar), MultiSelectXY(width 63)')
    ck.outside.append('the math/big arithmetic of SignHashed on k, d+1 and s and GetAffineX_Unsafe (variable time by construction of math/big; not among the operations the property lists); micro-architectural effects below the Go instruction level; scalars of other lengths')
    ck.assumptions.append('secret-derived values are over-approximated by one opaque symbol per width; a secret-dependent branch is allowed only as a verdict branch: outside any loop and with an arm that only returns')

    for (kind, where), f in sorted(findings.items()):
        desc = '%s in %s at %s during %s' % ({'symbranch': 'branch on secret data', 'symindex': 'memory index derived from secret data', 'symslice': 'slice bound derived from secret data'}[kind],
                                            f['fn'].split('/')[-1], (f['pos'] or '').replace(REPO + '/', ''), sorted(f['ops']))
        # confirmation on the real build: per-block execution counts differ between two secrets (go test -cover is not
        # needed: the early exit is observable through the number of loop iterations, reproduced here with a counting copy)
        # confirmation on the real build: run the operation on two secrets and compare per-block execution counts
        diff, path = None, None
        fname = (f['pos'] or '').split(':')[0]
        if 'SM2ScalarElement).SetBytes' in f['fn'] or 'SM2Element).SetBytes' in f['fn']:
            T = 'SM2ScalarElement' if 'Scalar' in f['fn'] else 'SM2Element'
            src = '''package fiat
import ("testing"; "os"; "encoding/hex")
func TestVerifReplay(t *testing.T) {
	v, _ := hex.DecodeString(os.Getenv("VERIF_SECRET"))
	new(%s).SetBytes(v)
}''' % T
            m1 = (N - 1) if 'Scalar' in T else (ref.P - 1)
            a_ = bytes([1] * 32).hex()
            b_ = (m1 - 5).to_bytes(32, 'big').hex()     # shares a long prefix with the modulus: more loop iterations
            diff, out, path = ck.coverage_diff('sm2/internal/fiat', src, os.path.basename(fname) if fname else 'sm2_scalar_element.go', {'VERIF_SECRET': a_}, {'VERIF_SECRET': b_}, name='ct_setbytes')
        key = '%s@%s' % (kind, (f['pos'] or f['fn']).replace(REPO + '/', ''))
        if diff:
            ck.record('ct[%s]' % key, 'violated', desc + '; confirmed on the real build: %d coverage blocks are executed a different number of times for two secrets (e.g. %s)' % (len(diff), diff[0].split('/')[-1]),
                      sample=dict(kind=kind, position=(f['pos'] or '').replace(REPO + '/', ''), operations=sorted(f['ops'])))
            ck.violation(key, desc, path)
        elif diff is None and path is None:
            ck.record('ct[%s]' % key, 'violated', desc + ' (reported from the go/ssa control-flow graph; no replay template for this operation)')
            ck.violation(key, desc, fname or '-')
        else:
            ck.record('ct[%s]' % key, 'inconclusive', desc + ' - block counts of the two secrets do not differ on the real build')
    if os.environ.get('VERIF_DEBUG'):
        for a in sorted(allowed, key=str):
            print('  [verdict branch allowed]', a)
    if not findings:
        ck.record('constant_time', 'proved', 'no branch condition, index or slice bound depends on secret data in the listed operations, apart from verdict branches (return-only arm, outside loops)', ck.bounds[0], secs,
                  sample=dict(operation='ScalarBaseMult', secret='k (32 bytes)', claim='all If conditions and all indices are secret-free'))
    ck.finish()


if __name__ == '__main__':
    guarded_main('C08', main)
