# NIST SP 800-38D (GCM) over a 128-bit block cipher, written from the standard.
# Data bytes may be python ints or z3 8-bit terms; the key-dependent values (H, key stream) are concrete,
# so GHASH is GF(2)-linear in the data: X*H = XOR_i (x_i ? H*x^i : 0) with the bit order of the standard
# (bit 0 = most significant bit of the first byte).
import z3
try:
    from asmsym import Aff, aff_xor   # value domain only (GF(2)-affine forms over named input bits)
except ImportError:
    Aff = None

R = 0xE1 << 120


def mul_int(x, y):
    z = 0
    v = y
    for i in range(128):
        if (x >> (127 - i)) & 1:
            z ^= v
        v = (v >> 1) ^ R if v & 1 else v >> 1
    return z


def mul(x, h):
    """x: int, affine form or z3 BV128, h: int"""
    if isinstance(x, int):
        return mul_int(x, h)
    if Aff is not None and isinstance(x, Aff):
        return x.map(lambda v: mul_int(v, h), 128)
    v = h
    acc = None
    for i in range(128):
        bit = z3.Extract(127 - i, 127 - i, x)
        t = z3.If(bit == 1, z3.BitVecVal(v, 128), z3.BitVecVal(0, 128))
        acc = t if acc is None else acc ^ t
        v = (v >> 1) ^ R if v & 1 else v >> 1
    return acc


def block_val(bs):
    bs = list(bs) + [0] * (16 - len(bs))
    if all(isinstance(b, int) for b in bs):
        return int.from_bytes(bytes(bs), 'big')
    if Aff is not None and all(isinstance(b, (int, Aff)) for b in bs):
        r = 0
        for i, b in enumerate(bs):
            sh = 8 * (15 - i)
            t = (b << sh) if isinstance(b, int) else b.map(lambda v, sh=sh: v << sh, 128)
            r = (r ^ t) if isinstance(r, int) and isinstance(t, int) else aff_xor(r, t, 128)
        return r
    return z3.Concat(*[z3.BitVecVal(b, 8) if isinstance(b, int) else b for b in bs])


def xor128(a, b):
    if isinstance(a, int) and isinstance(b, int):
        return a ^ b
    if Aff is not None and isinstance(a, (int, Aff)) and isinstance(b, (int, Aff)):
        return aff_xor(a, b, 128)
    a = z3.BitVecVal(a, 128) if isinstance(a, int) else a
    b = z3.BitVecVal(b, 128) if isinstance(b, int) else b
    return a ^ b


def ghash(h, data):
    """data: list of bytes (multiple of 16)"""
    y = 0
    for i in range(0, len(data), 16):
        y = mul(xor128(y, block_val(data[i:i + 16])), h)
    return y


def pad16(bs):
    bs = list(bs)
    return bs + [0] * ((-len(bs)) % 16)


def inc32(cb):
    return (cb & ~0xffffffff) | ((cb + 1) & 0xffffffff)


def to_bytes(v, n=16):
    if isinstance(v, int):
        return list(v.to_bytes(n, 'big'))
    if Aff is not None and isinstance(v, Aff):
        return [v.map(lambda x, i=i: (x >> (8 * (n - 1 - i))) & 0xff, 8) for i in range(n)]
    return [z3.simplify(z3.Extract(8 * (n - 1 - i) + 7, 8 * (n - 1 - i), v)) for i in range(n)]


def bxor(a, b):
    if isinstance(a, int) and isinstance(b, int):
        return a ^ b
    if Aff is not None and isinstance(a, (int, Aff)) and isinstance(b, (int, Aff)):
        return aff_xor(a, b, 8)
    a = z3.BitVecVal(a, 8) if isinstance(a, int) else a
    b = z3.BitVecVal(b, 8) if isinstance(b, int) else b
    return z3.simplify(a ^ b)


def seal(encrypt_block, key, nonce, plaintext, aad, tag_size=16):
    """encrypt_block(key bytes, 16 bytes) -> 16 bytes, all concrete; nonce concrete; plaintext/aad may be symbolic"""
    h = int.from_bytes(bytes(encrypt_block(key, [0] * 16)), 'big')
    if len(nonce) == 12:
        j0 = int.from_bytes(bytes(nonce) + b'\x00\x00\x00\x01', 'big')
    else:
        j0 = ghash(h, pad16(nonce) + [0] * 8 + list((8 * len(nonce)).to_bytes(8, 'big')))
    cb = j0
    ct = []
    for i in range(0, len(plaintext), 16):
        cb = inc32(cb)
        ks = encrypt_block(key, list(cb.to_bytes(16, 'big')))
        blk = plaintext[i:i + 16]
        ct += [bxor(p, k) for p, k in zip(blk, ks)]
    s = ghash(h, pad16(aad) + pad16(ct) + list((8 * len(aad)).to_bytes(8, 'big')) + list((8 * len(ct)).to_bytes(8, 'big')))
    ekj0 = int.from_bytes(bytes(encrypt_block(key, list(j0.to_bytes(16, 'big')))), 'big')
    t = xor128(s, ekj0)
    return ct, to_bytes(t)[:tag_size], dict(h=h, j0=j0)


def open_(encrypt_block, key, nonce, ciphertext, aad, tag_size=16):
    """returns plaintext bytes or None (concrete inputs only)"""
    if len(ciphertext) < tag_size:
        return None
    body, tag = list(ciphertext[:-tag_size]), list(ciphertext[-tag_size:])
    h = int.from_bytes(bytes(encrypt_block(key, [0] * 16)), 'big')
    if len(nonce) == 12:
        j0 = int.from_bytes(bytes(nonce) + b'\x00\x00\x00\x01', 'big')
    else:
        j0 = ghash(h, pad16(nonce) + [0] * 8 + list((8 * len(nonce)).to_bytes(8, 'big')))
    s = ghash(h, pad16(aad) + pad16(body) + list((8 * len(aad)).to_bytes(8, 'big')) + list((8 * len(body)).to_bytes(8, 'big')))
    ekj0 = int.from_bytes(bytes(encrypt_block(key, list(j0.to_bytes(16, 'big')))), 'big')
    if to_bytes(s ^ ekj0)[:tag_size] != tag:
        return None
    cb = j0
    pt = []
    for i in range(0, len(body), 16):
        cb = inc32(cb)
        ks = encrypt_block(key, list(cb.to_bytes(16, 'big')))
        pt += [c ^ k for c, k in zip(body[i:i + 16], ks)]
    return pt


if __name__ == '__main__':
    # validate the mode against AES-GCM test case 4 of the GCM specification (McGrew & Viega) using python's AES if present
    import subprocess

    def aes(key, blk):
        r = subprocess.run(['openssl', 'enc', '-aes-128-ecb', '-K', bytes(key).hex(), '-nopad'], input=bytes(blk), capture_output=True)
        assert r.returncode == 0 and len(r.stdout) == 16, r.stderr
        return list(r.stdout)
    key = bytes.fromhex('feffe9928665731c6d6a8f9467308308')
    iv = bytes.fromhex('cafebabefacedbaddecaf888')
    pt = bytes.fromhex('d9313225f88406e5a55909c5aff5269a86a7a9531534f7da2e4c303d8a318a721c3c0c95956809532fcf0e2449a6b525b16aedf5aa0de657ba637b39')
    aad = bytes.fromhex('feedfacedeadbeeffeedfacedeadbeefabaddad2')
    ct, tag, _ = seal(aes, key, list(iv), list(pt), list(aad))
    assert bytes(tag).hex() == '5bc94fbc3221a5db94fae95ae7121a47', bytes(tag).hex()
    assert bytes(ct).hex().startswith('42831ec2217774244b7221b784d0d49c')
    iv2 = bytes.fromhex('9313225df88406e555909c5aff5269aa6a7a9538534f7da1e4c303d2a318a728c3c0c95156809539fcf0e2429a6b525416aedbf5a0de6a57a637b39b')
    ct, tag, _ = seal(aes, key, list(iv2), list(pt), list(aad))
    assert bytes(tag).hex() == '619cc5aefffe0bfa462af43c1699d050', bytes(tag).hex()
    assert open_(aes, key, list(iv2), ct + tag, list(aad)) == list(pt)
    print('gcm spec ok (AES-GCM test cases 4 and 6 of the GCM specification, AES via openssl)')
