# GB/T 32905-2016 (SM3) written from the standard; works on python ints and on z3 bit-vectors.
import z3

IV = [0x7380166f, 0x4914b2b9, 0x172442d7, 0xda8a0600, 0xa96f30bc, 0x163138aa, 0xe38dee4d, 0xb0fb0e4e]
M32 = 0xffffffff


def _is(x):
    return isinstance(x, int)


def rotl(x, n):
    n %= 32
    if _is(x):
        return ((x << n) | (x >> (32 - n))) & M32 if n else x
    return z3.RotateLeft(x, n)


def add(*xs):
    if all(_is(x) for x in xs):
        return sum(xs) & M32
    r = None
    for x in xs:
        x = z3.BitVecVal(x, 32) if _is(x) else x
        r = x if r is None else r + x
    return r


def T(j):
    return 0x79cc4519 if j < 16 else 0x7a879d8a


def FF(j, x, y, z):
    return x ^ y ^ z if j < 16 else (x & y) | (x & z) | (y & z)


def GG(j, x, y, z):
    return x ^ y ^ z if j < 16 else (x & y) | (~x & z)


def P0(x):
    return x ^ rotl(x, 9) ^ rotl(x, 17)


def P1(x):
    return x ^ rotl(x, 15) ^ rotl(x, 23)


def word(b4):
    if all(_is(b) for b in b4):
        return (b4[0] << 24) | (b4[1] << 16) | (b4[2] << 8) | b4[3]
    return z3.Concat(*[z3.BitVecVal(b, 8) if _is(b) else b for b in b4])


def cf(V, block):
    """compression function: V list of 8 words, block list of 64 bytes -> list of 8 words"""
    W = [word(block[4 * i:4 * i + 4]) for i in range(16)]
    for j in range(16, 68):
        W.append(P1(W[j - 16] ^ W[j - 9] ^ rotl(W[j - 3], 15)) ^ rotl(W[j - 13], 7) ^ W[j - 6])
    W1 = [W[j] ^ W[j + 4] for j in range(64)]
    A, B, C, D, E, F, G, H = V
    for j in range(64):
        a12 = rotl(A, 12)
        SS1 = rotl(add(a12, E, rotl(T(j), j % 32)), 7)
        SS2 = SS1 ^ a12
        TT1 = add(FF(j, A, B, C), D, SS2, W1[j])
        TT2 = add(GG(j, E, F, G), H, SS1, W[j])
        D = C
        C = rotl(B, 9)
        B = A
        A = TT1
        H = G
        G = rotl(F, 19)
        F = E
        E = P0(TT2)
    out = [A, B, C, D, E, F, G, H]
    return [o ^ v for o, v in zip(out, V)]


def pad(msglen, tail):
    """padding of a message of msglen bytes whose last (msglen % 64) bytes are `tail`:
    returns the list of final blocks (each 64 byte values)"""
    assert len(tail) == msglen % 64
    bits = (msglen * 8) & ((1 << 64) - 1)
    buf = list(tail) + [0x80]
    while len(buf) % 64 != 56:
        buf.append(0)
    buf += list(bits.to_bytes(8, 'big'))
    return [buf[i:i + 64] for i in range(0, len(buf), 64)]


def digest(msg):
    msg = list(msg)
    V = list(IV)
    n = len(msg)
    full = n - n % 64
    for i in range(0, full, 64):
        V = cf(V, msg[i:i + 64])
    for blk in pad(n, msg[full:]):
        V = cf(V, blk)
    out = []
    for v in V:
        out += list(v.to_bytes(4, 'big'))
    return bytes(out)


if __name__ == '__main__':
    assert digest(b'abc').hex() == '66c7f0f462eeedd9d1f2d46bdc10e4e24167c4875cf2f7a2297da02b8f4ba8e0'
    assert digest(b'abcd' * 16).hex() == 'debe9ff92275b8a138604889c18e5a4d6fdb70e5387e5765293dcba39c0c5732'
    print('sm3 spec ok')
