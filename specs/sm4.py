# GB/T 32907-2016 (SM4) written from the standard; works on python ints and z3 terms (through hooks).
# The S-box is generated from its algebraic definition S(x) = A*inv(A*x + c) + c over
# GF(2^8) = GF(2)[x]/(x^8+x^7+x^6+x^5+x^4+x^2+1); the generated table is validated in __main__ against the
# standard's example and (when available) OpenSSL's independent SM4.
import z3

POLY = 0x1F5
M32 = 0xffffffff


def gf_mul(a, b):
    r = 0
    while b:
        if b & 1:
            r ^= a
        a <<= 1
        if a & 0x100:
            a ^= POLY
        b >>= 1
    return r


def gf_inv(a):
    if a == 0:
        return 0
    r = 1
    e = 254
    base = a
    while e:
        if e & 1:
            r = gf_mul(r, base)
        base = gf_mul(base, base)
        e >>= 1
    return r


AROWS = [0b11100101, 0b11110010, 0b01111001, 0b10111100, 0b01011110, 0b00101111, 0b10010111, 0b11001011]
CVEC = 0xD3


# the standard treats the byte as a row vector (x7..x0) multiplied from the left: x*A + c, i.e. the columns of
# the circulant matrix as written above act on the bits
ACOLS = [sum(((AROWS[j] >> (7 - i)) & 1) << (7 - j) for j in range(8)) for i in range(8)]


def affine(x):
    r = 0
    for i, row in enumerate(ACOLS):
        bit = bin(row & x).count('1') & 1
        r |= bit << (7 - i)
    return r ^ CVEC


def gen_sbox():
    return [affine(gf_inv(affine(x))) for x in range(256)]


SBOX = gen_sbox()
FK = [0xa3b1bac6, 0x56aa3350, 0x677d9197, 0xb27022dc]
CK = [sum((((4 * i + j) * 7) & 0xff) << (24 - 8 * j) for j in range(4)) for i in range(32)]


def rotl(x, n):
    if isinstance(x, int):
        return ((x << n) | (x >> (32 - n))) & M32
    return z3.RotateLeft(x, n)


sbox_hook = None   # symbolic S-box application on a byte term (set by the checks)


def tau(a):
    if isinstance(a, int):
        return (SBOX[a >> 24] << 24) | (SBOX[(a >> 16) & 0xff] << 16) | (SBOX[(a >> 8) & 0xff] << 8) | SBOX[a & 0xff]
    bs = [z3.simplify(z3.Extract(8 * i + 7, 8 * i, a)) for i in (3, 2, 1, 0)]
    out = []
    for b in bs:
        out.append(z3.BitVecVal(SBOX[b.as_long()], 8) if z3.is_bv_value(b) else sbox_hook(b))
    return z3.simplify(z3.Concat(*out))


def L(b):
    return b ^ rotl(b, 2) ^ rotl(b, 10) ^ rotl(b, 18) ^ rotl(b, 24)


def Lp(b):
    return b ^ rotl(b, 13) ^ rotl(b, 23)


def T(a):
    return L(tau(a))


def Tp(a):
    return Lp(tau(a))


def s(x):
    return z3.simplify(x) if not isinstance(x, int) else x


def expand_key(mk):
    """mk: 4 words -> 32 round keys"""
    k = [mk[i] ^ FK[i] for i in range(4)]
    rk = []
    for i in range(32):
        n = s(k[0] ^ Tp(s(k[1] ^ k[2] ^ k[3] ^ CK[i])))
        rk.append(n)
        k = [k[1], k[2], k[3], n]
    return rk


def crypt_words(x, rk):
    x = list(x)
    for i in range(32):
        n = s(x[0] ^ T(s(x[1] ^ x[2] ^ x[3] ^ rk[i])))
        x = [x[1], x[2], x[3], n]
    return [x[3], x[2], x[1], x[0]]


def words(b16):
    out = []
    for i in range(4):
        bs = b16[4 * i:4 * i + 4]
        if all(isinstance(b, int) for b in bs):
            out.append((bs[0] << 24) | (bs[1] << 16) | (bs[2] << 8) | bs[3])
        else:
            out.append(z3.simplify(z3.Concat(*[z3.BitVecVal(b, 8) if isinstance(b, int) else b for b in bs])))
    return out


def unwords(w4):
    out = []
    for w in w4:
        if isinstance(w, int):
            out += [(w >> 24) & 0xff, (w >> 16) & 0xff, (w >> 8) & 0xff, w & 0xff]
        else:
            out += [z3.simplify(z3.Extract(8 * i + 7, 8 * i, w)) for i in (3, 2, 1, 0)]
    return out


def encrypt_block(key16, block16):
    rk = expand_key(words(list(key16)))
    return unwords(crypt_words(words(list(block16)), rk))


def decrypt_block(key16, block16):
    rk = expand_key(words(list(key16)))
    return unwords(crypt_words(words(list(block16)), rk[::-1]))


if __name__ == '__main__':
    assert SBOX[0] == 0xd6 and SBOX[1] == 0x90 and SBOX[2] == 0xe9 and SBOX[255] == 0x48, [hex(v) for v in SBOX[:4]]
    key = bytes.fromhex('0123456789abcdeffedcba9876543210')
    ct = bytes(encrypt_block(key, key))
    assert ct.hex() == '681edf34d206965e86b3e94f536e4246', ct.hex()
    assert bytes(decrypt_block(key, ct)) == key
    assert sorted(SBOX) == list(range(256))
    import subprocess, os
    try:
        pt = os.urandom(16)
        k2 = os.urandom(16)
        r = subprocess.run(['openssl', 'enc', '-sm4-ecb', '-K', k2.hex(), '-nopad'], input=pt, capture_output=True)
        if r.returncode == 0 and len(r.stdout) == 16:
            assert r.stdout == bytes(encrypt_block(k2, pt))
            print('openssl agrees')
    except FileNotFoundError:
        pass
    print('sm4 spec ok')
