# Renes-Costello-Batina complete addition law for short Weierstrass curves y^2 = x^3 + ax + b in homogeneous
# projective coordinates, written as OUTPUT POLYNOMIALS (eprint 2015/1060, section 3), not as a step list.
# Works on python ints and z3 Int terms.  Validated in __main__ against the affine chord-tangent law on SM2.


def add(X1, Y1, Z1, X2, Y2, Z2, a, b):
    t = X1 * Z2 + X2 * Z1
    u = a * X1 * X2 + 3 * b * t - a * a * Z1 * Z2
    v = Y1 * Y2 - a * t - 3 * b * Z1 * Z2
    w = Y1 * Y2 + a * t + 3 * b * Z1 * Z2
    X3 = (X1 * Y2 + X2 * Y1) * v - (Y1 * Z2 + Y2 * Z1) * u
    Y3 = (3 * X1 * X2 + a * Z1 * Z2) * u + w * v
    Z3 = (Y1 * Z2 + Y2 * Z1) * w + (X1 * Y2 + X2 * Y1) * (3 * X1 * X2 + a * Z1 * Z2)
    return X3, Y3, Z3


def double(X, Y, Z, a, b):
    """exception-free doubling output polynomials (same paper); projectively equal to add(P, P) on the curve but
    not identical as polynomials (add(P,P) carries an extra common factor)"""
    u = a * X * X + 6 * b * X * Z - a * a * Z * Z
    v = Y * Y - 2 * a * X * Z - 3 * b * Z * Z
    w = Y * Y + 2 * a * X * Z + 3 * b * Z * Z
    X3 = 2 * X * Y * v - 2 * Y * Z * u
    Y3 = w * v + (3 * X * X + a * Z * Z) * u
    Z3 = 8 * Y * Y * Y * Z
    return X3, Y3, Z3


if __name__ == '__main__':
    import random, sm2 as ref
    P, B = ref.P, ref.B
    rng = random.Random(7)

    def proj(pt):
        if pt is None:
            return (0, rng.randrange(1, P), 0)
        z = rng.randrange(1, P)
        return (pt[0] * z % P, pt[1] * z % P, z)

    def aff(X, Y, Z):
        if Z % P == 0:
            return None
        zi = pow(Z, -1, P)
        return (X * zi % P, Y * zi % P)
    pts = [ref.mul(rng.randrange(1, ref.N)) for _ in range(6)]
    cases = [(p, q) for p in pts[:3] for q in pts[3:]] + [(pts[0], pts[0]), (pts[1], ref.neg(pts[1])), (pts[2], None), (None, pts[3]), (None, None), (ref.G, ref.G), (ref.G, ref.mul(2))]
    for p, q in cases:
        x = add(*proj(p), *proj(q), -3, B)
        assert aff(*x) == ref.add(p, q), (p, q)
        assert any(c % P for c in x)   # never (0,0,0)
    for p in pts + [ref.G, None]:
        x = double(*proj(p), -3, B)
        assert aff(*x) == ref.add(p, p), p
    print('rcb spec ok: %d cases incl. doubling, inverse, infinity' % len(cases))
