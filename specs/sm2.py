# GM/T 0003-2012 (SM2) reference, written from the standard with python integers (affine arithmetic).
import sm3 as _sm3

P = 0xFFFFFFFEFFFFFFFFFFFFFFFFFFFFFFFFFFFFFFFF00000000FFFFFFFFFFFFFFFF
A = P - 3
B = 0x28E9FA9E9D9F5E344D5A9E4BCF6509A7F39789F515AB8F92DDBCBD414D940E93
N = 0xFFFFFFFEFFFFFFFFFFFFFFFFFFFFFFFF7203DF6B21C6052B53BBF40939D54123
GX = 0x32C4AE2C1F1981195F9904466A39C9948FE30BBFF2660BE1715A4589334C74C7
GY = 0xBC3736A2F4F6779C59BDCEE36B692153D0A9877CC62A474002DF32E52139F0A0
G = (GX, GY)
INF = None


def on_curve(pt):
    if pt is None:
        return True
    x, y = pt
    return 0 <= x < P and 0 <= y < P and (y * y - (x * x * x + A * x + B)) % P == 0


def add(p1, p2):
    if p1 is None:
        return p2
    if p2 is None:
        return p1
    x1, y1 = p1
    x2, y2 = p2
    if x1 == x2:
        if (y1 + y2) % P == 0:
            return None
        lam = (3 * x1 * x1 + A) * pow(2 * y1, -1, P) % P
    else:
        lam = (y2 - y1) * pow(x2 - x1, -1, P) % P
    x3 = (lam * lam - x1 - x2) % P
    y3 = (lam * (x1 - x3) - y1) % P
    return (x3, y3)


def neg(p):
    return None if p is None else (p[0], (-p[1]) % P)


def mul(k, pt=G):
    r = None
    q = pt
    while k > 0:
        if k & 1:
            r = add(r, q)
        q = add(q, q)
        k >>= 1
    return r


def b32(v):
    return v.to_bytes(32, 'big')


def za(ident, px, py):
    entl = (len(ident) * 8) & 0xffff
    data = entl.to_bytes(2, 'big') + bytes(ident) + b32(A) + b32(B) + b32(GX) + b32(GY) + b32(px) + b32(py)
    return _sm3.digest(data)


def sign_k(d, e, k):
    """one candidate of the signing loop: returns (r, s) or None when the standard demands another k"""
    if not (1 <= k <= N - 1):
        return None
    x1 = mul(k)[0]
    r = (e + x1) % N
    if r == 0 or r + k == N:
        return None
    s = pow(1 + d, -1, N) * (k - r * d) % N
    if s == 0:
        return None
    return (r, s)


def sign_stream(d, e, stream):
    """stream: bytes; consumes 32-byte units; returns (r, s, consumed) or None if the stream runs out"""
    pos = 0
    while pos + 32 <= len(stream):
        k = int.from_bytes(stream[pos:pos + 32], 'big')
        pos += 32
        rs = sign_k(d, e, k)
        if rs:
            return rs[0], rs[1], pos
    return None


def verify(px, py, e, r, s):
    if not (1 <= r <= N - 1 and 1 <= s <= N - 1):
        return False
    t = (r + s) % N
    if t == 0:
        return False
    if not on_curve((px, py)):
        return False
    pt = add(mul(s), mul(t, (px, py)))
    if pt is None:
        return False
    return (e + pt[0]) % N == r


if __name__ == '__main__':
    assert on_curve(G) and mul(N) is None
    # GM/T 0003.5 example (standard vector used by the repo tests)
    d = 0x3945208F7B2144B13F36E38AC6D39F95889393692860B51A42FB81EF4DF7C5B8
    pub = mul(d)
    assert pub[0] == 0x09F9DF311E5421A150DD7D161E4BC5C672179FAD1833FC076BB08FF356F35020
    z = za(b'1234567812345678', pub[0], pub[1])
    assert z.hex().upper() == 'B2E14C5C79C6DF5B85F4FE7ED8DB7A262B9DA7E07CCB0EA9F4747B8CCDA8A4F3'
    e = int.from_bytes(_sm3.digest(z + b'message digest'), 'big')
    k = 0x59276E27D506861A16680F3AD9C02DCCEF3CC1FA3CDBE4CE6D54B80DEAC1BC21
    r, s = sign_k(d, e, k)
    assert r == 0xF5A03B0648D2C4630EEAC513E1BB81A15944DA3827D5B74143AC7EACEEE720B3
    assert s == 0xB1B6AA29DF212FD8763182BC0D421CA1BB9038FD1F7F42D4840B69C485BBC1AA
    assert verify(pub[0], pub[1], e, r, s)
    print('sm2 spec ok')
