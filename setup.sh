#!/bin/bash
# offline build of the framework's only compiled component
set -e
cd "$(dirname "$0")"
export GOFLAGS=-mod=mod GOPROXY=off GOSUMDB=off GOTOOLCHAIN=local
mkdir -p out/bin evidence
(cd tools/ssajson && go build -o ../../out/bin/ssajson .)
python3-vt -c "import z3; print('z3', z3.get_version_string())"
