#!/usr/bin/env python3
# Translator validation (run by hand / by tools/runtier.sh selftest; not a property check): the same CONCRETE inputs are
# pushed through (a) the encoders - gosym over the go/ssa of the current tree, asmsym over the assembler listing - and
# (b) the real build (one go test through -overlay); all outputs must agree byte for byte.  This is what ties the
# symbolic results to the compiled code beyond the replay of counterexamples.
import sys, os, json, subprocess
sys.path.insert(0, os.path.join(os.path.dirname(os.path.abspath(__file__)), '..', 'checks'))
from sm4lib import *
import models

UT = MOD + '/utils'
SM3 = MOD + '/sm3'
INT = MOD + '/sm2/internal'
FIAT = MOD + '/sm2/internal/fiat'


def conc(v):
    v = force(v)
    if isinstance(v, int):
        return v
    v = z3.simplify(v)
    return v.as_long()


def main():
    ck = Check('SELFTEST')
    prog = dump_ssa('selftest')
    L = load_listing()
    rng = ck.rng
    got = {}
    key = bytes.fromhex('0123456789abcdeffedcba9876543210')
    msgs = [b'', b'abc', bytes(range(55)), bytes(range(64)), bytes(rng.getrandbits(8) for _ in range(200))]
    blocks = [bytes(rng.getrandbits(8) for _ in range(16)) for _ in range(3)] + [key]
    gcm_cases = [(12, 16, 0, 0), (12, 16, 17, 3), (12, 12, 64, 20), (13, 16, 300, 33), (200, 13, 1000, 129)]
    gcm_in = [(bytes(rng.getrandbits(8) for _ in range(ns)), bytes(rng.getrandbits(8) for _ in range(pl)), bytes(rng.getrandbits(8) for _ in range(al)), ts) for ns, ts, pl, al in gcm_cases]
    scalars = [bytes([0] * 31 + [1]), bytes(rng.getrandbits(8) for _ in range(32)), bytes([0xff] * 32)]
    felems = [[rng.getrandbits(64) for _ in range(4)] for _ in range(4)]
    felems[3] = [2 ** 64 - 1, 2 ** 64 - 1, 0, 0]
    nafs = [bytes(rng.getrandbits(8) for _ in range(32)) for _ in range(3)]

    # ---- encoders
    for cando in (True, False):
        eng = new_engine(prog, cando_asm=cando)
        asmbridge.install(eng, L)

        def run(e, cando=cando):
            tag = 'asm' if cando else 'go'
            blk, _ = e.call(SM4 + '.NewCipher', [e.new_slice(list(key))])
            T = blk.t[1:]
            for i, b in enumerate(blocks):
                dst = e.new_slice([0] * 16)
                e.call('(*%s).Encrypt' % T, [blk.v, dst, e.new_slice(list(b))])
                got['sm4.%s.enc%d' % (tag, i)] = bytes(conc(x) for x in e.slice_list(dst))
                d2 = e.new_slice([0] * 16)
                e.call('(*%s).Decrypt' % T, [blk.v, d2, e.new_slice(list(b))])
                got['sm4.%s.dec%d' % (tag, i)] = bytes(conc(x) for x in e.slice_list(d2))
            if cando:
                for i, (nonce, pt, aad, ts) in enumerate(gcm_in):
                    aead, _ = e.call('(*%s.sm4CipherAsm).NewGCM' % SM4, [blk.v, len(nonce), ts])
                    out = e.call('(*%s.sm4GcmAsm).Seal' % SM4, [aead.v, NILSLICE, e.new_slice(list(nonce)), e.new_slice(list(pt)) if pt else e.new_slice([]), e.new_slice(list(aad)) if aad else e.new_slice([])])
                    ct = bytes(conc(x) for x in e.slice_list(out))
                    got['gcm.seal%d' % i] = ct
                    p2, err = e.call('(*%s.sm4GcmAsm).Open' % SM4, [aead.v, NILSLICE, e.new_slice(list(nonce)), e.new_slice(list(ct)), e.new_slice(list(aad)) if aad else e.new_slice([])])
                    got['gcm.open%d' % i] = (b'ok:' + bytes(conc(x) for x in e.slice_list(p2))) if err is None else b'error'
        eng.explore(run)
        ck.absorb(eng)

    eng = new_engine(prog)

    def run2(e):
        for i, m in enumerate(msgs):
            out = e.call(SM3 + '.SumSM3', [e.new_slice(list(m)) if m else e.new_slice([])])
            got['sm3.%d' % i] = bytes(conc(x) for x in (out if isinstance(out, list) else e.slice_list(out)))
        a, b = bytes(range(32)), bytes(range(1, 33))
        got['cmp'] = bytes([conc(e.call(UT + '.ConstantTimeCmp', [e.new_slice(list(x)), e.new_slice(list(y)), 32])) & 0xff for x, y in ((a, b), (b, a), (a, a))])
        for i, s in enumerate(nafs):
            out = e.new_slice([0] * 257)
            e.call(UT + '.DecomposeNAF', [out, e.new_slice(list(s)), 257, 4])
            got['naf.%d' % i] = bytes(conc(x) & 0xff for x in e.slice_list(out))
        for pre, nm in (('sm2', 'p'), ('sm2Scalar', 'n')):
            oa, ob, oo = e.new_obj(list(felems[0]), 'arr'), e.new_obj(list(felems[1]), 'arr'), e.new_obj([0] * 4, 'arr')
            for op in ('Mul', 'Add', 'Sub'):
                e.call(FIAT + '.%s%s' % (pre, op), [Ptr(oo, ()), Ptr(oa, ()), Ptr(ob, ())])
                got['fiat.%s.%s' % (nm, op)] = b''.join(conc(x).to_bytes(8, 'little') for x in e.heap[oo][0])
            oc = e.new_obj(list(felems[3]), 'arr')
            e.call(FIAT + '.%sSquare' % pre, [Ptr(oo, ()), Ptr(oc, ())])
            got['fiat.%s.Square' % nm] = b''.join(conc(x).to_bytes(8, 'little') for x in e.heap[oo][0])
        for i, k in enumerate(scalars):
            p, err = e.call(INT + '.ScalarBaseMult', [e.new_slice(list(k))])
            enc = e.call('(*%s.SM2Point).Bytes' % INT, [p])
            got['basemult.%d' % i] = bytes(conc(x) for x in e.slice_list(enc))
        g = e.call(INT + '.NewSM2Generator', [])
        p, err = e.call(INT + '.ScalarMult', [g, e.new_slice(list(scalars[1]))])
        got['mult'] = bytes(conc(x) for x in e.slice_list(e.call('(*%s.SM2Point).Bytes' % INT, [p])))
    eng.max_instrs = 2_000_000_000
    eng.explore(run2)
    ck.absorb(eng)

    # ---- real build
    def gb(b):
        return go_bytes(list(b))
    limbs = lambda l: '[4]uint64{%s}' % ','.join(str(x) for x in l)
    src = '''package sm2
import ("testing"; "os"; "encoding/json"; "encoding/hex"; "encoding/binary"; "crypto/cipher"
	"github.com/bilibili/smgo/sm3"; "github.com/bilibili/smgo/sm4"; "github.com/bilibili/smgo/utils"; "github.com/bilibili/smgo/sm2/internal")
type gcmAble interface{ NewGCM(int, int) (cipher.AEAD, error) }
func TestVerifReplay(t *testing.T) {
	out := map[string]string{}
	put := func(k string, v []byte) { out[k] = hex.EncodeToString(v) }
	key := %s
	blocks := [][]byte{%s}
	for _, mode := range []string{"asm", "go"} {
		var c cipher.Block
		if mode == "asm" { c, _ = sm4.NewCipher(key) } else { c, _ = sm4.VerifGeneric(key) }
		for i, b := range blocks {
			d := make([]byte, 16); c.Encrypt(d, b); put("sm4."+mode+".enc"+string(rune('0'+i)), d)
			d2 := make([]byte, 16); c.Decrypt(d2, b); put("sm4."+mode+".dec"+string(rune('0'+i)), d2)
		}
	}
	c, _ := sm4.NewCipher(key)
	gc := []struct{ n, p, a []byte; ts int }{%s}
	for i, g := range gc {
		a, err := c.(gcmAble).NewGCM(len(g.n), g.ts)
		if err != nil { t.Fatal(err) }
		ct := a.Seal(nil, g.n, g.p, g.a); put("gcm.seal"+string(rune('0'+i)), ct)
		p, err := a.Open(nil, g.n, ct, g.a)
		if err != nil { put("gcm.open"+string(rune('0'+i)), []byte("error")) } else { put("gcm.open"+string(rune('0'+i)), append([]byte("ok:"), p...)) }
	}
	for i, m := range [][]byte{%s} { h := sm3.SumSM3(m); put("sm3."+string(rune('0'+i)), h[:]) }
	a, b := %s, %s
	put("cmp", []byte{byte(utils.ConstantTimeCmp(a, b, 32)), byte(utils.ConstantTimeCmp(b, a, 32)), byte(utils.ConstantTimeCmp(a, a, 32))})
	for i, s := range [][]byte{%s} {
		o := make([]int, 257); utils.DecomposeNAF(o, s, 257, 4)
		ob := make([]byte, 257); for j, v := range o { ob[j] = byte(v) }
		put("naf."+string(rune('0'+i)), ob)
	}
	le := func(l [4]uint64) []byte { o := make([]byte, 32); for i, w := range l { binary.LittleEndian.PutUint64(o[8*i:], w) }; return o }
	for k, v := range internal.VerifFiat(%s, %s, %s) { put(k, le(v)) }
	for i, k := range [][]byte{%s} { p, _ := internal.ScalarBaseMult(k); put("basemult."+string(rune('0'+i)), p.Bytes()) }
	p, _ := internal.ScalarMult(internal.NewSM2Generator(), %s); put("mult", p.Bytes())
	js, _ := json.Marshal(out)
	os.WriteFile(os.Getenv("VERIF_SELFTEST_OUT"), js, 0644)
}''' % (gb(key), ','.join(gb(b) for b in blocks), ','.join('{%s, %s, %s, %d}' % (gb(n), gb(p), gb(a), ts) for n, p, a, ts in gcm_in),
        ','.join(gb(m) for m in msgs), gb(bytes(range(32))), gb(bytes(range(1, 33))), ','.join(gb(s) for s in nafs),
        limbs(felems[0]), limbs(felems[1]), limbs(felems[3]), ','.join(gb(k) for k in scalars), gb(scalars[1]))
    # the fiat word functions are unexported in package fiat: a helper file in sm2/internal/fiat exposes them to the
    # test through package internal (both files exist only in the overlay)
    fiat_helper = '''package fiat
func VerifFiat(a, b, c [4]uint64) map[string][4]uint64 {
	r := map[string][4]uint64{}
	var o sm2MontgomeryDomainFieldElement
	x, y, z := sm2MontgomeryDomainFieldElement(a), sm2MontgomeryDomainFieldElement(b), sm2MontgomeryDomainFieldElement(c)
	sm2Mul(&o, &x, &y); r["fiat.p.Mul"] = o
	sm2Add(&o, &x, &y); r["fiat.p.Add"] = o
	sm2Sub(&o, &x, &y); r["fiat.p.Sub"] = o
	sm2Square(&o, &z); r["fiat.p.Square"] = o
	var so sm2ScalarMontgomeryDomainFieldElement
	sx, sy, sz := sm2ScalarMontgomeryDomainFieldElement(a), sm2ScalarMontgomeryDomainFieldElement(b), sm2ScalarMontgomeryDomainFieldElement(c)
	sm2ScalarMul(&so, &sx, &sy); r["fiat.n.Mul"] = so
	sm2ScalarAdd(&so, &sx, &sy); r["fiat.n.Add"] = so
	sm2ScalarSub(&so, &sx, &sy); r["fiat.n.Sub"] = so
	sm2ScalarSquare(&so, &sz); r["fiat.n.Square"] = so
	return r
}'''
    int_helper = '''package internal
import "github.com/bilibili/smgo/sm2/internal/fiat"
func VerifFiat(a, b, c [4]uint64) map[string][4]uint64 { return fiat.VerifFiat(a, b, c) }'''
    sm4_helper = '''package sm4
import "crypto/cipher"
func VerifGeneric(key []byte) (cipher.Block, error) { return newCipherGeneric(key) }'''
    hp3 = os.path.join(ck.outdir, 'sm4_helper.go')
    open(hp3, 'w').write(sm4_helper)
    hp1 = os.path.join(ck.outdir, 'fiat_helper.go')
    hp2 = os.path.join(ck.outdir, 'int_helper.go')
    open(hp1, 'w').write(fiat_helper)
    open(hp2, 'w').write(int_helper)
    tp = os.path.join(ck.outdir, 'selftest_test.go')
    open(tp, 'w').write(src)
    outp = os.path.join(ck.outdir, 'real.json')
    ov = {'Replace': {os.path.join(REPO, 'sm2', 'zz_verif_selftest_test.go'): tp,
                      os.path.join(REPO, 'sm4', 'zz_verif_helper.go'): hp3,
                      os.path.join(REPO, 'sm2/internal/fiat', 'zz_verif_helper.go'): hp1,
                      os.path.join(REPO, 'sm2/internal', 'zz_verif_helper.go'): hp2}}
    ovp = os.path.join(ck.outdir, 'overlay.json')
    json.dump(ov, open(ovp, 'w'))
    r = subprocess.run(['go', 'test', '-vet=off', '-count=1', '-run', 'TestVerifReplay', '-overlay', ovp, './sm2'], cwd=REPO, env=dict(GOENV, VERIF_SELFTEST_OUT=outp), capture_output=True, text=True, timeout=600)
    if r.returncode != 0:
        print('real build run failed:', (r.stdout + r.stderr)[-800:])
        sys.exit(2)
    real = json.load(open(outp))
    bad = 0
    for k in sorted(got):
        ok = real.get(k) == got[k].hex()
        if not ok:
            bad += 1
            print('MISMATCH %s\n   encoder %s\n   real    %s' % (k, got[k].hex()[:96], (real.get(k) or 'missing')[:96]))
    missing = sorted(set(real) - set(got))
    print('SELFTEST: %d outputs compared (%s), %d mismatches, %d real outputs without encoder counterpart %s' % (len(got), ', '.join(sorted({k.split('.')[0] for k in got})), bad, len(missing), missing[:5]))
    sys.exit(1 if bad or missing else 0)


if __name__ == '__main__':
    main()
