// ssajson: load packages of the repository under verification with go/packages,
// build go/ssa and dump the SSA of selected packages as JSON for the Python
// symbolic executor (engine/gosym.py).
package main

import (
	"encoding/json"
	"flag"
	"fmt"
	"go/constant"
	"go/token"
	"go/types"
	"os"
	"sort"
	"strings"

	"golang.org/x/tools/go/packages"
	"golang.org/x/tools/go/ssa"
	"golang.org/x/tools/go/ssa/ssautil"
)

type Val struct {
	K string `json:"k"`           // reg const global func builtin nil
	N string `json:"n,omitempty"` // name
	T string `json:"t,omitempty"` // type id
	V string `json:"v,omitempty"` // const value
}

type Instr struct {
	Op   string            `json:"op"`
	Name string            `json:"name,omitempty"`
	T    string            `json:"t,omitempty"`
	A    []Val             `json:"a,omitempty"`
	X    map[string]any    `json:"x,omitempty"`
	Pos  string            `json:"pos,omitempty"`
}

type Block struct {
	Idx     int     `json:"idx"`
	Comment string  `json:"comment,omitempty"`
	Preds   []int   `json:"preds"`
	Succs   []int   `json:"succs"`
	Instrs  []Instr `json:"instrs"`
	Idom    int     `json:"idom"`
}

type Func struct {
	Name     string   `json:"name"`
	Pkg      string   `json:"pkg"`
	Sig      string   `json:"sig"`
	Params   []Val    `json:"params"`
	FreeVars []Val    `json:"freevars,omitempty"`
	Results  []string `json:"results"`
	Blocks   []Block  `json:"blocks"`
	External bool     `json:"external"`
	Pos      string   `json:"pos,omitempty"`
	Synth    string   `json:"synth,omitempty"`
}

type TypeDesc struct {
	Kind   string   `json:"kind"`
	Name   string   `json:"name,omitempty"`
	Elem   string   `json:"elem,omitempty"`
	Key    string   `json:"key,omitempty"`
	Len    int64    `json:"len,omitempty"`
	Fields []Field  `json:"fields,omitempty"`
	Under  string   `json:"under,omitempty"`
	Bits   int      `json:"bits,omitempty"`
	Signed bool     `json:"signed,omitempty"`
	Elems  []string `json:"elems,omitempty"`
	Methods map[string]string `json:"methods,omitempty"`
}

type Field struct {
	Name string `json:"name"`
	T    string `json:"t"`
	Emb  bool   `json:"emb,omitempty"`
}

type Global struct {
	Name string `json:"name"`
	T    string `json:"t"` // pointer type
	Pkg  string `json:"pkg"`
}

type Out struct {
	Funcs   map[string]*Func     `json:"funcs"`
	Types   map[string]*TypeDesc `json:"types"`
	Globals map[string]*Global   `json:"globals"`
	Inits   []string             `json:"inits"`
}

var out = Out{Funcs: map[string]*Func{}, Types: map[string]*TypeDesc{}, Globals: map[string]*Global{}}
var prog *ssa.Program
var fset *token.FileSet

func tid(t types.Type) string {
	if t == nil {
		return ""
	}
	t = types.Unalias(t)
	id := types.TypeString(t, nil)
	if _, ok := out.Types[id]; ok {
		return id
	}
	d := &TypeDesc{}
	out.Types[id] = d
	switch tt := t.(type) {
	case *types.Basic:
		d.Kind = "basic"
		d.Name = tt.Name()
		switch tt.Kind() {
		case types.Bool, types.UntypedBool:
			d.Name = "bool"
		case types.Int8:
			d.Bits, d.Signed = 8, true
		case types.Int16:
			d.Bits, d.Signed = 16, true
		case types.Int32, types.UntypedRune:
			d.Bits, d.Signed = 32, true
		case types.Int64, types.Int, types.UntypedInt:
			d.Bits, d.Signed = 64, true
		case types.Uint8:
			d.Bits = 8
		case types.Uint16:
			d.Bits = 16
		case types.Uint32:
			d.Bits = 32
		case types.Uint64, types.Uint, types.Uintptr:
			d.Bits = 64
		case types.String, types.UntypedString:
			d.Name = "string"
		case types.Float64, types.Float32, types.UntypedFloat:
			d.Name = "float"
		case types.UnsafePointer:
			d.Name = "unsafeptr"
		case types.UntypedNil:
			d.Name = "nil"
		}
	case *types.Pointer:
		d.Kind = "pointer"
		d.Elem = tid(tt.Elem())
	case *types.Array:
		d.Kind = "array"
		d.Elem = tid(tt.Elem())
		d.Len = tt.Len()
	case *types.Slice:
		d.Kind = "slice"
		d.Elem = tid(tt.Elem())
	case *types.Struct:
		d.Kind = "struct"
		for i := 0; i < tt.NumFields(); i++ {
			f := tt.Field(i)
			d.Fields = append(d.Fields, Field{Name: f.Name(), T: tid(f.Type()), Emb: f.Embedded()})
		}
	case *types.Named:
		d.Kind = "named"
		d.Name = id
		d.Under = tid(tt.Underlying())
	case *types.Interface:
		d.Kind = "interface"
	case *types.Tuple:
		d.Kind = "tuple"
		for i := 0; i < tt.Len(); i++ {
			d.Elems = append(d.Elems, tid(tt.At(i).Type()))
		}
	case *types.Signature:
		d.Kind = "signature"
	case *types.Map:
		d.Kind = "map"
		d.Key = tid(tt.Key())
		d.Elem = tid(tt.Elem())
	case *types.Chan:
		d.Kind = "chan"
		d.Elem = tid(tt.Elem())
	default:
		d.Kind = "other"
	}
	// method sets for concrete (non-interface) types
	if _, isIface := t.Underlying().(*types.Interface); !isIface {
		switch t.(type) {
		case *types.Named, *types.Pointer:
			ms := prog.MethodSets.MethodSet(t)
			if ms.Len() > 0 {
				d.Methods = map[string]string{}
				for i := 0; i < ms.Len(); i++ {
					sel := ms.At(i)
					fn := prog.MethodValue(sel)
					if fn != nil {
						d.Methods[sel.Obj().Name()] = fname(fn)
						want(fn)
					}
				}
			}
		}
	}
	return id
}

func fname(f *ssa.Function) string {
	return f.String()
}

var wantPkgs = map[string]bool{}
var wantFuncs = map[string]bool{}
var queue []*ssa.Function
var seen = map[*ssa.Function]bool{}

func fpkg(f *ssa.Function) string {
	if f.Pkg != nil {
		return f.Pkg.Pkg.Path()
	}
	if f.Object() != nil && f.Object().Pkg() != nil {
		return f.Object().Pkg().Path()
	}
	if o := f.Origin(); o != nil && o != f {
		return fpkg(o)
	}
	if p := f.Parent(); p != nil {
		return fpkg(p)
	}
	return ""
}

func want(f *ssa.Function) {
	if f == nil || seen[f] {
		return
	}
	p := fpkg(f)
	if wantPkgs[p] || wantFuncs[fname(f)] || (f.Synthetic != "" && wantSynth(f)) {
		seen[f] = true
		queue = append(queue, f)
	}
}

func wantSynth(f *ssa.Function) bool {
	// wrappers / bound methods / thunks / instantiations whose target is in a wanted package
	if f.Object() != nil && f.Object().Pkg() != nil && wantPkgs[f.Object().Pkg().Path()] {
		return true
	}
	return false
}

func pos(p token.Pos) string {
	if !p.IsValid() {
		return ""
	}
	ps := fset.Position(p)
	return fmt.Sprintf("%s:%d", ps.Filename, ps.Line)
}

func val(v ssa.Value) Val {
	switch x := v.(type) {
	case nil:
		return Val{K: "none"}
	case *ssa.Const:
		t := tid(x.Type())
		if x.Value == nil {
			return Val{K: "const", T: t, V: "nil"}
		}
		switch x.Value.Kind() {
		case constant.Bool:
			if constant.BoolVal(x.Value) {
				return Val{K: "const", T: t, V: "true"}
			}
			return Val{K: "const", T: t, V: "false"}
		case constant.String:
			return Val{K: "const", T: t, V: "s:" + constant.StringVal(x.Value)}
		case constant.Int:
			return Val{K: "const", T: t, V: x.Value.ExactString()}
		case constant.Float:
			if b, ok := x.Type().Underlying().(*types.Basic); ok && b.Info()&types.IsInteger != 0 {
				return Val{K: "const", T: t, V: constant.ToInt(x.Value).ExactString()}
			}
			return Val{K: "const", T: t, V: "f:" + x.Value.ExactString()}
		default:
			return Val{K: "const", T: t, V: "?" + x.Value.ExactString()}
		}
	case *ssa.Global:
		tid(x.Type())
		name := x.String()
		if _, ok := out.Globals[name]; !ok {
			out.Globals[name] = &Global{Name: name, T: tid(x.Type()), Pkg: x.Pkg.Pkg.Path()}
		}
		return Val{K: "global", N: name, T: tid(x.Type())}
	case *ssa.Function:
		want(x)
		return Val{K: "func", N: fname(x), T: tid(x.Type())}
	case *ssa.Builtin:
		return Val{K: "builtin", N: x.Name()}
	case *ssa.Parameter:
		return Val{K: "reg", N: x.Name(), T: tid(x.Type())}
	case *ssa.FreeVar:
		return Val{K: "reg", N: "fv:" + x.Name(), T: tid(x.Type())}
	default:
		return Val{K: "reg", N: v.Name(), T: tid(v.Type())}
	}
}

func vals(vs ...ssa.Value) []Val {
	r := make([]Val, len(vs))
	for i, v := range vs {
		r[i] = val(v)
	}
	return r
}

func instr(in ssa.Instruction) Instr {
	r := Instr{Pos: pos(in.Pos())}
	if v, ok := in.(ssa.Value); ok {
		r.Name = v.Name()
		r.T = tid(v.Type())
	}
	x := map[string]any{}
	switch i := in.(type) {
	case *ssa.Alloc:
		r.Op = "Alloc"
		x["heap"] = i.Heap
		x["comment"] = i.Comment
	case *ssa.BinOp:
		r.Op = "BinOp"
		x["op"] = i.Op.String()
		r.A = vals(i.X, i.Y)
	case *ssa.UnOp:
		r.Op = "UnOp"
		x["op"] = i.Op.String()
		x["commaok"] = i.CommaOk
		r.A = vals(i.X)
	case *ssa.Call:
		r.Op = "Call"
		callCommon(&i.Call, &r, x)
	case *ssa.Defer:
		r.Op = "Defer"
		callCommon(&i.Call, &r, x)
	case *ssa.Go:
		r.Op = "Go"
		callCommon(&i.Call, &r, x)
	case *ssa.ChangeType:
		r.Op = "ChangeType"
		r.A = vals(i.X)
	case *ssa.Convert:
		r.Op = "Convert"
		r.A = vals(i.X)
	case *ssa.MultiConvert:
		r.Op = "Convert"
		r.A = vals(i.X)
	case *ssa.ChangeInterface:
		r.Op = "ChangeInterface"
		r.A = vals(i.X)
	case *ssa.SliceToArrayPointer:
		r.Op = "SliceToArrayPointer"
		r.A = vals(i.X)
	case *ssa.MakeInterface:
		r.Op = "MakeInterface"
		r.A = vals(i.X)
	case *ssa.TypeAssert:
		r.Op = "TypeAssert"
		r.A = vals(i.X)
		x["asserted"] = tid(i.AssertedType)
		x["commaok"] = i.CommaOk
		_, isI := i.AssertedType.Underlying().(*types.Interface)
		x["iface"] = isI
		if isI {
			it := i.AssertedType.Underlying().(*types.Interface)
			var ms []string
			for k := 0; k < it.NumMethods(); k++ {
				ms = append(ms, it.Method(k).Name())
			}
			x["methods"] = ms
		}
	case *ssa.Extract:
		r.Op = "Extract"
		r.A = vals(i.Tuple)
		x["index"] = i.Index
	case *ssa.Field:
		r.Op = "Field"
		r.A = vals(i.X)
		x["field"] = i.Field
	case *ssa.FieldAddr:
		r.Op = "FieldAddr"
		r.A = vals(i.X)
		x["field"] = i.Field
	case *ssa.Index:
		r.Op = "Index"
		r.A = vals(i.X, i.Index)
	case *ssa.IndexAddr:
		r.Op = "IndexAddr"
		r.A = vals(i.X, i.Index)
	case *ssa.Lookup:
		r.Op = "Lookup"
		r.A = vals(i.X, i.Index)
		x["commaok"] = i.CommaOk
	case *ssa.Slice:
		r.Op = "Slice"
		r.A = vals(i.X, i.Low, i.High, i.Max)
	case *ssa.MakeSlice:
		r.Op = "MakeSlice"
		r.A = vals(i.Len, i.Cap)
	case *ssa.MakeMap:
		r.Op = "MakeMap"
	case *ssa.MakeChan:
		r.Op = "MakeChan"
	case *ssa.MakeClosure:
		r.Op = "MakeClosure"
		r.A = append(vals(i.Fn), vals(i.Bindings...)...)
	case *ssa.Phi:
		r.Op = "Phi"
		r.A = vals(i.Edges...)
		x["comment"] = i.Comment
	case *ssa.If:
		r.Op = "If"
		r.A = vals(i.Cond)
	case *ssa.Jump:
		r.Op = "Jump"
	case *ssa.Return:
		r.Op = "Return"
		r.A = vals(i.Results...)
	case *ssa.Panic:
		r.Op = "Panic"
		r.A = vals(i.X)
	case *ssa.Store:
		r.Op = "Store"
		r.A = vals(i.Addr, i.Val)
	case *ssa.MapUpdate:
		r.Op = "MapUpdate"
		r.A = vals(i.Map, i.Key, i.Value)
	case *ssa.Range:
		r.Op = "Range"
		r.A = vals(i.X)
	case *ssa.Next:
		r.Op = "Next"
		r.A = vals(i.Iter)
		x["isstring"] = i.IsString
	case *ssa.RunDefers:
		r.Op = "RunDefers"
	case *ssa.Select:
		r.Op = "Select"
	case *ssa.Send:
		r.Op = "Send"
	case *ssa.DebugRef:
		r.Op = "DebugRef"
	default:
		r.Op = fmt.Sprintf("Unknown:%T", in)
	}
	if len(x) > 0 {
		r.X = x
	}
	return r
}

func callCommon(c *ssa.CallCommon, r *Instr, x map[string]any) {
	if c.IsInvoke() {
		x["invoke"] = c.Method.Name()
		r.A = append(vals(c.Value), vals(c.Args...)...)
	} else {
		r.A = append(vals(c.Value), vals(c.Args...)...)
		if f := c.StaticCallee(); f != nil {
			x["static"] = fname(f)
		}
	}
}

func dumpFunc(f *ssa.Function) {
	name := fname(f)
	fo := &Func{Blocks: []Block{}, Results: []string{}, Params: []Val{}, Name: name, Pkg: fpkg(f), Sig: tid(f.Signature), Pos: pos(f.Pos()), Synth: f.Synthetic}
	for _, p := range f.Params {
		fo.Params = append(fo.Params, val(p))
	}
	for _, p := range f.FreeVars {
		fo.FreeVars = append(fo.FreeVars, val(p))
	}
	res := f.Signature.Results()
	for i := 0; i < res.Len(); i++ {
		fo.Results = append(fo.Results, tid(res.At(i).Type()))
	}
	if len(f.Blocks) == 0 {
		fo.External = true
	}
	for _, b := range f.Blocks {
		bo := Block{Idx: b.Index, Comment: b.Comment, Preds: []int{}, Succs: []int{}, Idom: -1}
		for _, p := range b.Preds {
			bo.Preds = append(bo.Preds, p.Index)
		}
		for _, s := range b.Succs {
			bo.Succs = append(bo.Succs, s.Index)
		}
		if d := b.Idom(); d != nil {
			bo.Idom = d.Index
		}
		for _, in := range b.Instrs {
			if _, ok := in.(*ssa.DebugRef); ok {
				continue
			}
			bo.Instrs = append(bo.Instrs, instr(in))
		}
		fo.Blocks = append(fo.Blocks, bo)
	}
	for _, af := range f.AnonFuncs {
		want(af)
	}
	out.Funcs[name] = fo
}

func main() {
	dir := flag.String("dir", "/repo", "module directory")
	pkgsFlag := flag.String("pkgs", "", "comma separated package paths whose functions are dumped")
	funcsFlag := flag.String("funcs", "", "comma separated extra function names (ssa String form) to dump")
	goarch := flag.String("goarch", "", "GOARCH override")
	tags := flag.String("tags", "", "build tags")
	overlay := flag.String("overlay", "", "json file {virtual path: real path}")
	tests := flag.Bool("tests", false, "load test files")
	outFile := flag.String("o", "", "output file")
	flag.Parse()
	for _, p := range strings.Split(*pkgsFlag, ",") {
		if p != "" {
			wantPkgs[p] = true
		}
	}
	for _, p := range strings.Split(*funcsFlag, ",") {
		if p != "" {
			wantFuncs[p] = true
		}
	}
	cfg := &packages.Config{Mode: packages.LoadAllSyntax, Dir: *dir, Tests: *tests}
	cfg.Env = append(os.Environ(), "GOFLAGS=-mod=mod", "GOPROXY=off", "GOSUMDB=off", "GOTOOLCHAIN=local")
	if *goarch != "" {
		cfg.Env = append(cfg.Env, "GOARCH="+*goarch)
	}
	if *tags != "" {
		cfg.BuildFlags = []string{"-tags=" + *tags}
	}
	if *overlay != "" {
		b, err := os.ReadFile(*overlay)
		if err != nil {
			fatal(err)
		}
		m := map[string]string{}
		if err := json.Unmarshal(b, &m); err != nil {
			fatal(err)
		}
		cfg.Overlay = map[string][]byte{}
		for k, v := range m {
			c, err := os.ReadFile(v)
			if err != nil {
				fatal(err)
			}
			cfg.Overlay[k] = c
		}
	}
	pats := flag.Args()
	if len(pats) == 0 {
		pats = []string{"./..."}
	}
	initial, err := packages.Load(cfg, pats...)
	if err != nil {
		fatal(err)
	}
	if packages.PrintErrors(initial) > 0 {
		os.Exit(2)
	}
	fset = cfg.Fset
	if fset == nil && len(initial) > 0 {
		fset = initial[0].Fset
	}
	var spkgs []*ssa.Package
	prog, spkgs = ssautil.AllPackages(initial, ssa.InstantiateGenerics)
	_ = spkgs
	prog.Build()

	all := ssautil.AllFunctions(prog)
	var names []*ssa.Function
	for f := range all {
		names = append(names, f)
	}
	sort.Slice(names, func(i, j int) bool { return names[i].String() < names[j].String() })
	for _, f := range names {
		want(f)
	}
	for _, p := range prog.AllPackages() {
		if wantPkgs[p.Pkg.Path()] {
			for _, m := range p.Members {
				switch mm := m.(type) {
				case *ssa.Function:
					want(mm)
				case *ssa.Global:
					val(mm)
				case *ssa.Type:
					tid(mm.Type())
					tid(types.NewPointer(mm.Type()))
				}
			}
		}
	}
	for len(queue) > 0 {
		f := queue[0]
		queue = queue[1:]
		dumpFunc(f)
	}
	// package init order: dependencies first
	visited := map[*types.Package]bool{}
	var order func(p *types.Package)
	order = func(p *types.Package) {
		if visited[p] {
			return
		}
		visited[p] = true
		for _, imp := range p.Imports() {
			order(imp)
		}
		if wantPkgs[p.Path()] {
			out.Inits = append(out.Inits, p.Path()+".init")
		}
	}
	for _, p := range initial {
		order(p.Types)
	}
	var w *os.File = os.Stdout
	if *outFile != "" {
		w, err = os.Create(*outFile)
		if err != nil {
			fatal(err)
		}
		defer w.Close()
	}
	enc := json.NewEncoder(w)
	if err := enc.Encode(&out); err != nil {
		fatal(err)
	}
}

func fatal(err error) {
	fmt.Fprintln(os.Stderr, "ssajson:", err)
	os.Exit(2)
}
