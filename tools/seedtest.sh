#!/bin/bash
# usage: tools/seedtest.sh <seed name under /verif/seeded> <check id> : apply the seeded change to /repo, run the check, undo
d=/verif/seeded/$1
git -C /repo diff --quiet || { echo "repo dirty"; exit 2; }
git -C /repo apply $d/patch.diff || exit 2
cd /verif && timeout 1500 ./check $2 --tier ${3:-quick} 2>&1 | grep -v "^  \[" | tail -${4:-4} | cut -c1-300
git -C /repo checkout -- .
git -C /repo status --short
