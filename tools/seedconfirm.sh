#!/bin/bash
# usage: tools/seedconfirm.sh [-j N] [seed names...]
# Confirms each seeded change independently of the sub-agent that proposed it, in a scratch worktree under /tmp:
#   with the patch: go build ./... ok, the unedited suite passes, demo_test.go FAILS; without the patch: demo_test.go passes.
# Outcome -> /verif/seeded/<name>/confirm.txt
J=4
if [ "$1" = "-j" ]; then J=$2; shift 2; fi
export GOFLAGS=-mod=mod GOPROXY=off GOSUMDB=off GOTOOLCHAIN=local
cd /verif
names=("$@")
[ ${#names[@]} -eq 0 ] && names=($(ls seeded | grep -E '^C[0-9]+_'))
one() {
  name=$1; d=/verif/seeded/$name; wt=/tmp/seedconf/$name
  rm -rf $wt; mkdir -p /tmp/seedconf
  git -C /repo worktree add --detach -f $wt HEAD >/dev/null 2>&1 || { echo "$name worktree failed"; return; }
  cd $wt
  pkg=$(grep -m1 '^package ' $d/demo_test.go | awk '{print $2}')
  case $pkg in sm2) dir=sm2;; internal) dir=sm2/internal;; fiat) dir=sm2/internal/fiat;; sm3) dir=sm3;; sm4) dir=sm4;; utils) dir=utils;; *) dir=$pkg;; esac
  tests=$(grep -oE '^func (Test[A-Za-z0-9_]+)' $d/demo_test.go | awk '{print $2}' | paste -sd'|')
  # arm64 seeds port the logic and keep a test of the changed copy that fails on every tree: confirm_tests.txt names the tests that look at the tree
  [ -f $d/confirm_tests.txt ] && tests=$(paste -sd'|' $d/confirm_tests.txt)
  git apply $d/patch.diff || { echo "$name: patch does not apply" > $d/confirm.txt; cd /; git -C /repo worktree remove --force $wt; return; }
  b=$(go build ./... >/dev/null 2>&1 && GOARCH=arm64 go build ./... >/dev/null 2>&1 && echo ok || echo FAIL)
  s=$(go test -vet=off -count=1 ./... >/tmp/seedconf/$name.suite 2>&1 && echo ok || echo FAIL)
  cp $d/demo_test.go $dir/zz_seed_demo_test.go
  go test -vet=off -count=1 -run "^($tests)\$" ./$dir > /tmp/seedconf/$name.with 2>&1; w=$?
  git checkout -- . ; cp $d/demo_test.go $dir/zz_seed_demo_test.go
  go test -vet=off -count=1 -run "^($tests)\$" ./$dir > /tmp/seedconf/$name.without 2>&1; wo=$?
  { echo "seed=$name repo_commit=$(git -C /repo rev-parse --short HEAD) demo_package=$dir tests=$tests"
    echo "with patch: go build ./... = $b ; go test -vet=off -count=1 ./... = $s ; demo exit=$w ($( [ $w -ne 0 ] && echo fails || echo passes ))"
    echo "without patch: demo exit=$wo ($( [ $wo -ne 0 ] && echo fails || echo passes ))"
    grep -m3 -E -- '--- FAIL|panic:' /tmp/seedconf/$name.with | cut -c1-200
  } > $d/confirm.txt
  echo "$name build=$b suite=$s demo_with=$w demo_without=$wo"
  cd /; git -C /repo worktree remove --force $wt; rm -f /tmp/seedconf/$name.*
}
export -f one
printf '%s\n' "${names[@]}" | xargs -P $J -I{} bash -c 'one {}'
git -C /repo worktree prune; rmdir /tmp/seedconf 2>/dev/null
