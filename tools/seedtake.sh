#!/bin/bash
# usage: tools/seedtake.sh <ID> <suffix> : copy /tmp/seed/<ID><suffix>/_seed into /verif/seeded/<ID>_<suffix>, confirm and run the check
id=$1; sfx=$2; name=${id}_${sfx}
mkdir -p /verif/seeded/$name && cp /tmp/seed/${id}${sfx}/_seed/* /verif/seeded/$name/ || exit 1
cd /verif; tools/seedconfirm.sh -j 1 $name | tail -1; tools/seedmatrix.sh -j 1 $name | tail -1; cut -c1-330 seeded/$name/result.txt
