#!/usr/bin/env python3
# Cross-check of the encodings on independent solvers (run by hand after encoding changes; not a registered command).
#   1. every check is run once (quick tier) with VERIF_DUMP_SMT, which writes up to 3 queries per solver call site
#      as SMT-LIB2 text together with the verdict of the in-process z3 5.1;
#   2. each file is given to /usr/bin/z3 (4.8.12), z3-new (5.1.0 CLI) and cvc5 (1.0.x); any '(error' line or timeout
#      counts as "no answer"; a sat/unsat DISAGREEMENT is reported.
# usage: tools/crosscheck.py [ids...]      -> out/crosscheck/report.txt
import os, sys, subprocess, glob, re, json, concurrent.futures as cf
HERE = os.path.dirname(os.path.dirname(os.path.abspath(__file__)))
D = os.path.join(HERE, 'out', 'crosscheck')
ids = sys.argv[1:] or ['C%02d' % i for i in range(1, 21)]
os.makedirs(D, exist_ok=True)


def dump(i):
    d = os.path.join(D, i)
    os.makedirs(d, exist_ok=True)
    for f in glob.glob(d + '/*.smt2'):
        os.unlink(f)
    env = dict(os.environ, VERIF_DUMP_SMT=d, VERIF_OUT=os.path.join(D, 'run_' + i))
    subprocess.run([os.path.join(HERE, 'check'), i, '--tier', 'quick'], env=env, capture_output=True, text=True, timeout=3600)
    return i, len(glob.glob(d + '/*.smt2'))


def ask(cmd, f):
    try:
        r = subprocess.run(cmd + [f], capture_output=True, text=True, timeout=90)
    except subprocess.TimeoutExpired:
        return 'timeout'
    out = r.stdout + r.stderr
    if '(error' in out or 'rror' in out.split('\n')[0]:
        return 'error'
    m = re.search(r'^(sat|unsat|unknown)\s*$', out, re.M)
    return m.group(1) if m else 'error'


def one(f):
    exp = open(f).readline().split(':')[1].strip()
    res = dict(expected=exp,
               z3_4_8=ask(['/usr/bin/z3', '-smt2', '-T:60'], f),
               z3_5_1=ask(['z3-new', '-smt2', '-T:60'], f),
               cvc5=ask(['cvc5', '--tlimit=60000'], f))
    return f, res


with cf.ThreadPoolExecutor(4) as ex:
    for i, n in ex.map(dump, ids):
        print('dumped', i, n, flush=True)
files = sorted(glob.glob(D + '/C*/*.smt2'))
rows, bad = [], []
with cf.ThreadPoolExecutor(12) as ex:
    for f, res in ex.map(one, files):
        rows.append((os.path.relpath(f, D), res))
        definite = {v for v in res.values() if v in ('sat', 'unsat')}
        if len(definite) > 1:
            bad.append((f, res))
summary = {}
for f, res in rows:
    k = f.split('/')[0]
    s = summary.setdefault(k, dict(queries=0, agree_z3_4_8=0, agree_z3_5_1=0, agree_cvc5=0, no_answer_z3_4_8=0, no_answer_cvc5=0))
    s['queries'] += 1
    for sv in ('z3_4_8', 'z3_5_1', 'cvc5'):
        if res[sv] == res['expected'] and res[sv] in ('sat', 'unsat'):
            s['agree_' + sv] += 1
        elif res[sv] not in ('sat', 'unsat') and 'no_answer_' + sv in s:
            s['no_answer_' + sv] += 1
with open(os.path.join(D, 'report.txt'), 'w') as o:
    for k in sorted(summary):
        o.write('%s %s\n' % (k, json.dumps(summary[k])))
    o.write('DISAGREEMENTS: %d\n' % len(bad))
    for f, res in bad:
        o.write('  %s %s\n' % (f, res))
print(open(os.path.join(D, 'report.txt')).read())
