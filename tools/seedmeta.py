#!/usr/bin/env python3
# writes /verif/seeded/<name>/meta.json from the hand-kept table below, the sub-agent's meta.txt and the last
# tools/seedmatrix.sh outcome (result.txt).  Run after tools/seedmatrix.sh.
import os, json, re
HERE = os.path.dirname(os.path.dirname(os.path.abspath(__file__)))
S = os.path.join(HERE, 'seeded')

T = {
 'C01_a': dict(change='sm2/sm2.go VerifyHashed: t = (r+s) mod n handed to the double-scalar routine without left padding (t.Bytes() instead of ensure32Bytes)',
               needs='(r+s) mod n < 2^248 (leading zero byte, probability 2^-8 per signature): verification of a genuine signature panics',
               strengthened='no (this is the defect the check had found in the original tree, re-introduced)'),
 'C02_a': dict(change='sm2/sm2.go SignHashed: nonce range test ConstantTimeCmp(K, n) >= 0 became > 0',
               needs='the randomness stream delivers exactly the 32 bytes of n as a candidate (2^-256): k = n is used, [n]G is the point at infinity and the signature leaks d',
               strengthened='no; detection takes ~19 min because the counterexample needs an integer (NIA) search after the linear abstraction fails to prove'),
 'C03_a': dict(change='sm2/sm2.go VerifyHashed: sInt.Cmp(n) >= 0 became > 0', needs='s exactly equal to n: a forged (r, n) pair is accepted', strengthened='no'),
 'C04_a': dict(change='sm3/sm3.go checkSum: padding branch nx > maxTail became nx >= maxTail', needs='message length congruent to 55 mod 64: silently wrong digest', strengthened='no (the original tree had the opposite off-by-one, found by the check)'),
 'C05_a': dict(change='sm4/asm_amd64.s cryptoBlockAsmX2: the two output registers are stored in swapped order', needs='accelerated two-block kernel with two different input blocks', strengthened='no'),
 'C06_a': dict(change='sm4/gcm_amd64.s calculateJ0Branch2: JE last became JE doneJ0 after the 4-way GHASH loop over the nonce', needs='nonce length L >= 128 with (L/16)%4 == 0 and L%16 != 0 (129..143, 193..207, ...): trailing partial nonce block skipped, wrong J0', strengthened='no (nonce lengths up to 300 in the quick sweep of the J0 derivation)'),
 'C07_a': dict(change='sm4/gcm_amd64.s constantTimeCompare: byte tail loop guard CMPQ l,$1 became CMPQ l,$2', needs='tag size 12..15 (not a multiple of 8) and a modification confined to the last tag byte: forgery accepted', strengthened='no'),
 'C08_a': dict(change='sm2/internal/sm2_curve.go scalarBaseMult_SkipBitExtration: the final remainder-table selection and addition wrapped in if bits > 0',
               needs='low nibble of the secret scalar zero (1 in 16): one table scan and one point addition fewer; results identical',
               strengthened='YES: the first run missed it - the "verdict branch" exemption accepted any arm that only returns; it now requires the arm to return verdict values only (constants / error values, at least one), so `return ret, nil` after skipped work is reported'),
 'C09_a': dict(change='sm4/gcm_amd64.s constantTimeCompare slowCmp loop: JNE cmpDone after ORB (early exit on the first differing tag byte)', needs='tag size not a multiple of 8 and a forged tag: number of loop iterations depends on the position of the first wrong (secret-derived) tag byte', strengthened='YES (engine): the listing interpreter did not model flags after ORB and aborted; flags after logic/arithmetic instructions were added and aborts now surface as INCONCLUSIVE instead of a crash'),
 'C10_a': dict(change='sm4/helper_amd64.s copyAsm: ADDQ $4, SI removed from the 4-byte step', needs='Seal/Open with a non-empty dst prefix that forces reallocation and len(dst)%8 in {5,6,7}: returned prefix is not dst', strengthened='YES: a sweep of prefix lengths 0..40 through ensureCapacity/copyAsm was added'),
 'C11_a': dict(change='sm4/gcm_amd64.s CalculateSMid: 1..15-byte ciphertext tail fetched with one 16-byte load', needs='tag size 12..15 and body length with 16-(len%16) > tagSize: reads up to 3 bytes past the ciphertext slice', strengthened='YES (engine): indexed addressing (SI)(R11*1) was not supported by the listing interpreter'),
 'C12_a': dict(change='sm2/internal/fiat/sm2_element.go SetBytes: ConstantTimeCmp(...) > 0 became > 1', needs='a coordinate in [p, 2^256) congruent to an on-curve coordinate: CheckOnCurve accepts a non-canonical pair', strengthened='YES: the real coordinate-decoding obligation (fiat SetBytes on all 2^256 strings) was added to C12; before, decoding was a trusted contract there'),
 'C13_a': dict(change='sm2/sm2.go ZA: entl >= 1<<16 became entl > 1<<16', needs='an id of exactly 8192 bytes: ENTL wraps to 0, non-standard ZA accepted', strengthened='no (the original tree had this defect; found by the check)'),
 'C14_a': dict(change='sm2/internal/sm2_curve.go ScalarMixedMult_Unsafe: `skip = false` removed after the comb-table addition',
               needs='s with no recoding digit at position >= 14 (s < ~2^13, probability 2^-240): comb additions accumulate without doublings and are overwritten by the first digit of s',
               strengthened='YES: the loop-step obligation failed symbolically but the fixed replay scalars did not reproduce it (reported INCONCLUSIVE); the replay now builds whole (g, s) pairs that reach the failing loop state from the solver model (comb columns above the position cleared, s with its only digit at the position)'),
 'C15_a': dict(change='sm2/internal/fiat/sm2_element.go SetBytes: > 0 became > 1 (same edit as C12_a, proposed independently for C15)',
               needs='04||X||Y with X or Y written as c+p: accepted, and decode/encode does not round-trip',
               strengthened='YES: C15 trusted the field-element decoding contract; the real coordinate-decoding obligation with a replay through SM2Point.SetBytes was added'),
 'C16_a': dict(change='sm2/internal/fiat/fiat_sm2_64_scalar.go sm2ScalarAdd: limb 2 summed without carry-in, carry added afterwards with a wrapping +=',
               needs='Montgomery limbs with arg1[2]+arg2[2] == 2^64-1 and a carry out of limb 1 (2^-65 for random operands)',
               strengthened='YES: integer mode refused wrapping `+` (check aborted, INCONCLUSIVE); wrapping +/- are now modelled with an explicit lost carry, and solver counterexamples (Montgomery limb vectors) are converted to canonical inputs for the replay'),
 'C17_a': dict(change='sm4: Open scratch block moved from the stack into the sm4GcmAsm value', needs='two goroutines calling Open on one AEAD: spurious authentication failures / wrong plaintext; invisible to -race (writes happen in assembly)', strengthened='no'),
 'C18_a': dict(change='sm2/internal/sm2_tables.go: one limb of entry 18 of sub table 2 of the unused 5_3_17 comb table off by one', needs='any use of the 5_3_17 scheme with the matching window value (benchmarks only in the suite)', strengthened='no'),
 'C19_a': dict(change='sm2/sm2.go SignHashed: io.ErrUnexpectedEOF from io.ReadFull is ignored', needs='the randomness stream ends 1..31 bytes into a nonce draw: signature produced from a partially filled nonce with nil error', strengthened='YES (engine): partially filled buffers mixed byte cells and integers and hung the solver; mixed cells are now refused early and the replay reader feeds 0xff for rejected draws'),
 'C20_a': dict(change='utils/utils.go getBits: high part additionally masked with 0x3f', needs='window width 7 and a window starting on the top bit of a byte with bit 6 of the next byte set: digit sum differs from the input', strengthened='no'),
}

T.update({
 'C01_b': dict(change='sm2/sm2.go SignHashed: d+1 padded by len(priv) instead of len((d+1).Bytes())', needs='private key encoding with a leading zero byte: the library rejects its own signature', strengthened='YES: witness construction pinned a random key (never one with a leading zero byte); key strategies added (key left to the solver, keys below 2^247, small keys)'),
 'C02_b': dict(change='sm2/sm2.go SignHashed: s == 0 retry test moved before the reduction mod n', needs='k = r*d mod n (2^-256)', strengthened='no (C02 now stops re-proving a claim once a counterexample is in hand: 77 s instead of ~19 min)'),
 'C03_b': dict(change='sm2/sm2.go VerifyHashed: t.Mod(n) replaced by a conditional subtraction with > instead of >=', needs='r + s = n exactly: universal forgery', strengthened='no'),
 'C04_b': dict(change='sm3/sm3.go Write: all whole blocks of one call handed to a single cf call', needs='one Write / SumSM3 with at least 128 bytes after completing the buffer', strengthened='no'),
 'C05_b': dict(change='sm4/sm4.go NewCipher accepts 24- and 32-byte keys', needs='such a key', strengthened='YES: the symbolic run flagged it but the replay did not test key lengths; replay of lengths 0..64 added'),
 'C06_b': dict(change='sm4/gcm_amd64.s CalculateSPre: scratch block no longer zeroed before the partial aad block', needs='nonce length not 12 and not a multiple of 16, aad tail shorter than the nonce tail', strengthened='no'),
 'C07_b': dict(change='sm4/gcm_amd64.s constantTimeCompare: fold of the top accumulator byte dropped', needs='forged tag differing only in byte 7 (or 15)', strengthened='no'),
 'C08_b': dict(change='sm2/internal/sm2_curve.go ScalarMult: leading zero bytes of the scalar skip the loop body', needs='secret scalar with a zero most significant byte', strengthened='no (after the first-round tightening)'),
 'C09_b': dict(change='sm4/gcm_amd64.s gHashBlocksLoopBy1: VPTESTMQ/KORTESTW/JEQ skip of mul+reduce when accumulator xor block is zero', needs='all-zero first ciphertext or aad block', strengthened='YES (engine): VPTESTM/KORTEST were unsupported and a data-dependent branch outside openAsm aborted the run; both added, branches are recorded and execution continues'),
 'C10_b': dict(change='sm4/gcm_amd64.s constantTimeCompare tail loop XORs into the received tag in memory', needs='tag size 12..15', strengthened='no'),
 'C11_b': dict(change='sm4/sm4_gcm_amd64.go Open: short-ciphertext guard compares with gcmMinimumTagSize instead of g.tagSize', needs='12 <= len(ciphertext) < tagSize, non-nil dst: read in front of the ciphertext', strengthened='YES: probes for every length below the tag with nil and non-nil dst; replay with a PROT_NONE page in front of the ciphertext'),
 'C12_b': dict(change='sm2/sm2.go GenerateKey: candidate test without the zero test', needs='all-zero 32-byte candidate from the reader', strengthened='no'),
 'C13_b': dict(change='sm2/sm2.go ZA: ENTL high byte computed from the byte length', needs='ids of 32 bytes or more', strengthened='no'),
 'C14_b': dict(change='sm2/internal/sm2_curve.go ScalarMult: scalars shorter than 32 bytes copied left-aligned into a 32-byte array', needs='any scalar shorter than 32 bytes', strengthened='YES: symbolic length sweep flagged it, replay rows for short scalars added'),
 'C15_b': dict(change='sm2/internal/sm2_point.go SetBytes assigns the receiver before the on-curve test', needs='off-curve encoding decoded into a live receiver', strengthened='YES: symbolic run flagged it, replay "failed decode leaves the receiver untouched" added'),
 'C16_b': dict(change='sm2/internal/fiat/fiat_sm2_64.go sm2ToMontgomery: carry of the first reduction round replaced by the constant 1', needs='decoded value whose low 64-bit limb is 0', strengthened='no (after the first-round work on model-derived vectors)'),
 'C17_b': dict(change='sm2/internal/sm2_point.go GetAffineX_Unsafe keeps z^-1 in a package-level big.Int', needs='two goroutines signing/verifying at once', strengthened='YES: C17 covered SM2 only through contracts; it now executes the real SM2 layers concretely, logs writes to math/big receivers and replays with go test -race in package sm2'),
 'C18_b': dict(change='sm4/asm_arm64.s: one byte of the arm64 S-box copy (0xdd -> 0xdb at index 0xc5)', needs='arm64 only; S-box input 0xc5', strengthened='no'),
 'C19_b': dict(change='sm2/sm2.go GenerateKey: rand.Read instead of io.ReadFull', needs='a reader that returns short reads without error', strengthened='no'),
 'C20_b': dict(change='utils/utils.go ConstantTimeCmp: diff |= d became diff ^= d', needs='a > b with per-byte differences that cancel under xor', strengthened='no'),
})

T.update({
 'C01_c': dict(change='sm2/sm2.go SignHashed: the len(rkBytes) == 32 guard before the r+k == n comparison removed', needs='r + k < 2^248 (both with a leading zero byte, ~2^-17): signing panics', strengthened='YES: the comparison contract did not cover a 33-byte operand (check aborted); prefix-of-longer-encoding support added; Sign.panic now needs a feasible path and a solver-built replay (nonce strategies small/free added)'),
 'C02_c': dict(change='sm2/sm2.go SignHashed: d+1 padded by len(priv) (same edit as C01_b, proposed independently for C02)', needs='private key encoding with leading zero bytes or a short all-ones key: s is not the standard value', strengthened='YES: special-vector replay (keys with leading zero bytes, short and all-ones encodings) and a time budget added to C02; the symbolic phase is slow on this tree (data-dependent copy lengths)'),
 'C03_c': dict(change='sm2/internal/fiat/sm2_element.go SetBytes bound compares with n-1 instead of p-1', needs='public key with a coordinate in [n, p-1] (2^-128): valid signatures rejected', strengthened='YES: C03 trusted the decoding contract; the real coordinate-decoding obligation and a solved family "key with x in [n,p)" (signature built without the private key) added'),
 'C04_c': dict(change='sm3/sm3.go Sum finalises the receiver in place and restores only h, nx, len', needs='Sum with 56..63 bytes buffered, then another Sum/Write', strengthened='no'),
 'C05_c': dict(change='sm4/sm4.go ssX2: high-lane s3 lookup indexed with the low lane byte', needs='portable two-block path with two different blocks', strengthened='no'),
 'C06_c': dict(change='sm4/gcm_amd64.s cryptoBlocksAsm tail: CMPQ len,$0 became $1', needs='plaintext length = 1 mod 16', strengthened='no'),
 'C07_c': dict(change='sm4/gcm_amd64.s CalculateSPre: JE withRemain became JE endSPre after the 4-way aad loop', needs='len(aad) >= 128, (len/16)%4 == 0, len%16 != 0: aad tail not authenticated', strengthened='YES: C07 had only short aad lengths; 16 aad length classes up to 271 added'),
 'C08_c': dict(change='utils/utils.go ConstantTimeCmp: early return -1 when a[0] < b[0]', needs='secret whose top byte is below 0xFF vs not', strengthened='YES: the verdict-branch exemption accepted an early constant return; it now also requires that the other arm does no further work, or that the returning arm is the API reject outcome'),
 'C09_c': dict(change='sm4/asm_amd64.s expandKeyAsm: S-box by VPGATHERDD from the Go table sbox indexed by key-derived bytes', needs='any key: 128 key-indexed loads per key expansion', strengthened='YES (engine): Go-global operands, VPGATHERDD, VPMOVZXBD, VPMOVDB and mask-register logic added to the listing interpreter'),
 'C10_c': dict(change='sm4/helper_amd64.s needExpand: SUBQ arrayLen removed (compares cap instead of cap-len)', needs='non-empty dst with cap-len < needed <= cap: Seal/Open panic', strengthened='no'),
 'C11_c': dict(change='sm4/gcm_amd64.s: Seal stores the tag 16 bytes wide directly to dst', needs='tag size 12..15 and dst ending exactly at the end of its capacity', strengthened='YES: the out-of-range store was found from the listing but had no replay template; Seal into a destination that ends at a PROT_NONE page added'),
 'C12_c': dict(change='sm2/sm2.go DerivePublic tests the key for literal zero instead of the point for infinity', needs='d = n: panic', strengthened='no'),
 'C13_c': dict(change='sm2/sm2.go ZA hashes big.Int(x).Bytes() (leading zero bytes of coordinates dropped)', needs='public key coordinate with a leading zero byte', strengthened='YES: the hash model refused inputs of data-dependent length (check aborted); late case split on the encoding length, replays with leading-zero coordinates and a time budget added'),
 'C14_c': dict(change='sm2/internal/sm2_curve.go fixed-base comb: remainder step guarded by remainder > 1', needs='5_3_17 parameter set and an odd scalar', strengthened='no'),
 'C15_c': dict(change='sm2/internal/sm2_point.go bytes(): infinity early return only on the fast path', needs='Bytes() of the point at infinity', strengthened='no'),
 'C16_c': dict(change='sm2/internal/fiat/fiat_sm2_64.go sm2Sub: low-limb add-back rewritten as x1-(x9&1)', needs='a < b with equal low Montgomery limbs (2^-64)', strengthened='no'),
 'C17_c': dict(change='sm3/sm3.go: message schedule buffer w of cf hoisted to a package-level variable', needs='two goroutines hashing at once', strengthened='no'),
 'C18_c': dict(change='sm4/gcm_amd64.s Shuffle1 data: entry 4 changed from 0x03 to 0x0b', needs='additional data of 2 MiB or more', strengthened='no'),
 'C19_c': dict(change='sm2/sm2.go GenerateKey: range test moved before the read-error test', needs='reader failing 1..31 bytes into a draw', strengthened='no'),
 'C20_c': dict(change='utils/utils.go DecomposeNAF guard: w > 7 became w >= 7', needs='w = 7: panic', strengthened='YES: a panic in the concrete validation section aborted the check and discarded earlier results; guarded_main now keeps what was established, the validation reports panics with a replay'),
})

T.update({
 'C05_d': dict(change='arm64: sm4/asm_arm64.s storeOutputX2 stores Z1.S[0] instead of Z1.S[1] for block 1', needs='arm64 two-block kernel with two different blocks', strengthened='no (arm64 seed: demonstration by a Go port; the arm64 code cannot run on this host)'),
 'C06_d': dict(change='arm64: sm4/sm4_gcm_arm64.go fillSingleBlock carries a counter overflow into bytes 8..11', needs='non-12-byte nonce whose J0 low word is within the block count of 2^32', strengthened='YES: the arm64 part of C06 had no counter-wrap nonces; the solved wrap nonces are now crossed with the arm64 glue as well'),
 'C07_d': dict(change='arm64: Open compares only the first 12 tag bytes', needs='forgery that alters tag bytes 12..tagSize-1', strengthened='no'),
 'C09_d': dict(change='arm64: Open compares the tag with an early-exit loop', needs='rejected message: iteration count depends on the first wrong tag byte', strengthened='no'),
 'C10_d': dict(change='arm64: cryptoBlocks 8-block arm writes the key stream into out before xoring (no tmp)', needs='in-place use and block count mod 16 in 8..15', strengthened='YES: the arm64 part of C10 stopped at 100 bytes; lengths 129, 200, 271 added'),
 'C11_d': dict(change='arm64: Seal writes the tag with xor16 directly into out (16-byte store)', needs='tag size 12..15: 1..4 bytes past the result', strengthened='no'),
})

T.update({
 'C01_e': dict(change='sm2/internal/fiat/sm2_scalar_element.go SetBytes: n-1 rejected (> 0 became >= 0)', needs='private key n-2: d+1 = n-1 is refused, the error ignored, own signature rejected', strengthened='no'),
 'C02_e': dict(change='sm2/sm2.go TestPrivateKey: early return for short keys moved before the zero test', needs='all-zero key shorter than 32 bytes: signed with d = 0', strengthened='no'),
 'C03_e': dict(change='sm2/sm2.go VerifyHashed: final comparison through R.Bytes() with a length-32 test', needs='valid signature with r < 2^248', strengthened='no'),
 'C04_e': dict(change='sm3/sm3.go Sum: in-place fast path writes the digest at offset 0 of the prefix', needs='Sum(prefix) with >= 32 bytes spare capacity', strengthened='no'),
 'C05_e': dict(change='sm4/sm4_asm.go newCipher fallback: enc/dec key schedules exchanged', needs='CPU without the accelerated instructions (candoAsm false)', strengthened='YES: the symbolic run of the fallback dispatch flagged it but the replay never forced the fallback; the replay now sets candoAsm=false and checks the known answer'),
 'C06_e': dict(change='sm4/gcm_amd64.s fillCounterX16: VPADDD became VPADDW (16-bit carry lost)', needs='message > 256 bytes and counter low 16 bits >= 0xfff0', strengthened='YES (engine): VPADDW unsupported (check aborted); added'),
 'C07_e': dict(change='sm4/sm4_gcm_amd64.go Open: short-ciphertext guard compares with 12 (same edit as C11_b, proposed for C07)', needs='12 <= len < tagSize: panic / read in front of the buffer', strengthened='YES: the glue witness used a fixed 5-byte ciphertext; it now uses the failing length'),
 'C08_e': dict(change='fiat MultiSelect: shortcut when fallbackCond == 0 (window value zero)', needs='secret scalar with a zero window', strengthened='no'),
 'C09_e': dict(change='sm4/gcm_amd64.s copyAsm macro: compare-and-skip of the final byte store', needs='odd copy length: branch on a data byte', strengthened='YES (engine): CMPB unsupported; narrow compares added'),
 'C10_e': dict(change='sm2/sm2.go ZA: hash.Write(append(pubx, puby...))', needs='pubx with >= 32 bytes spare capacity: the bytes behind it are overwritten', strengthened='YES: inputs had exact capacity and only SignHashed/VerifyHashed were covered; inputs are now sub-slices with a canary behind them, ZA/CheckOnCurve/DerivePublic added, and a canary replay on the real build covers all SM2/SM3 entry points'),
 'C11_e': dict(change='sm4/helper_amd64.s copyAsm: 8-byte loop threshold 8 -> 1', needs='dst prefix length not a multiple of 8 with reallocation: reads/writes up to 7 bytes too far', strengthened='YES: found from the listing but no replay template for copyAsm; guard-page replay added'),
 'C12_e': dict(change='sm2/sm2.go GenerateKey: returns the first (rejected) candidate with the public key of a later one', needs='first candidate out of range', strengthened='no'),
 'C13_e': dict(change='sm2/sm2.go Verify substitutes the default id when the id is empty', needs='empty or nil id', strengthened='YES: the wrapper obligation only used 16-byte ids; id lengths 0, nil, 1, 33 added (symbolic and replay)'),
 'C14_e': dict(change='ScalarMixedMult_Unsafe builds its table from NewFromXY(P.x, P.y) (drops Z)', needs='P given with Z != 1', strengthened='YES: the abstract-group run could not execute the coordinate access and aborted the check; abstraction loss is now reported as such and the replay includes points with Z != 1'),
 'C15_e': dict(change='GetAffineX_Unsafe: infinity guard removed (nil dereference)', needs='point at infinity', strengthened='YES: symbolic run flagged the panic, replay now calls both affine conversions on every infinity representative'),
 'C16_e': dict(change='sm2ScalarMul: Mul64(x20, 2^64-1) rewritten as (x20-1, -x20)', needs='x20 == 0 (2^-63)', strengthened='YES (engine): unary minus unsupported in integer mode; added'),
 'C17_e': dict(change='ScalarMixedMult_Unsafe: NAF digit buffer at package level', needs='concurrent verifications', strengthened='no'),
 'C18_e': dict(change='sm2Precomputed_7_3_12 sub table 3: entries 100 and 101 swapped', needs='7_3_12 scheme', strengthened='no'),
 'C19_e': dict(change='sm2/sm2.go SignZa: shadowed results, bare return swallows the error', needs='failing reader through SignZa/Sign', strengthened='YES: only GenerateKey and SignHashed were under fault schedules; SignZa and Sign added'),
 'C20_e': dict(change='DecomposeNAF: final carry stored at out[len(out)-1] instead of out[n-1]', needs='digit buffer longer than n and a carry out of the top bit', strengthened='YES: buffers always had length n; longer buffers added (symbolic and replay)'),
})

T.update({
 'C01_f': dict(change='ScalarMixedMult_Unsafe: `skip = false` removed after the comb addition (same edit as C14_a, proposed for C01)', needs='t = (r+s) mod n below ~2^13: own signature rejected', strengthened='YES: C01 sees the group layer only through its contract (C14 discharges it); rare intermediate values (small t, r, s) solved for the digest were added to the special vectors on the real build'),
 'C02_f': dict(change='SignHashed draws the nonce with rand.Read instead of io.ReadFull', needs='reader delivering short reads without error', strengthened='YES: short reads are C19 territory; the C02 special vectors are now also signed through readers delivering 16, 1 and 31 bytes per call'),
 'C03_f': dict(change='utils.ConstantTimeCmp loop stops at i > 0 (most significant byte never compared)', needs='public-key coordinate XX FF FF FF.. with XX < FF: valid signatures rejected', strengthened='YES: the decoding obligation found it but no fixed family hit the region; keys are now built at the solver witness and judged on the real build'),
 'C04_f': dict(change='sm3 Write returns the length of the unprocessed tail', needs='Write that completes a block or carries >= 64 bytes', strengthened='no'),
 'C05_f': dict(change='cryptoBlockAsm stores its result with the aligned VMOVDQA32', needs='dst not 16-byte aligned: fault', strengthened='YES: the interpreter flagged the aligned form but the replay used aligned buffers; blocks at every buffer offset added, and a crash of the replay binary now counts as a failed replay'),
 'C06_f': dict(change='calculateJ0Branch2 entry guard JL became JLE', needs='nonce of exactly 16 bytes', strengthened='no'),
 'C07_f': dict(change='Open skips openAsm (and the tag check) when the plaintext is empty', needs='tag-only message: any tag accepted', strengthened='YES: glue failures carried a fixed unrelated witness; every glue finding now carries its own lengths'),
 'C08_f': dict(change='SM2Point.Add returns early when p2 is the point at infinity', needs='zero window of the secret scalar', strengthened='no'),
 'C09_f': dict(change='constantTimeCompare folds the accumulator with a data-dependent loop (ORB/SHRQ/JNE)', needs='rejected tag: 1..8 iterations', strengthened='YES (engine): flags after shifts were not modelled and the constant branch oracle never left the loop; both fixed'),
 'C10_f': dict(change='sm3 Sum appends to in[:0]', needs='non-empty prefix', strengthened='no'),
 'C11_f': dict(change='makeCounterNew loads 16 bytes from the 12-byte nonce', needs='nonce ending within 4 bytes of unmapped memory', strengthened='YES: found from the listing, but the replay only guarded the ciphertext; nonce, additional data and text are now all placed at page ends'),
 'C12_f': dict(change='TestPrivateKey accepts everything except n-1 above the range', needs='key or candidate >= n', strengthened='no'),
 'C13_f': dict(change='Sign: shadowed err, bare return after a ZA failure', needs='id of 8192 bytes or more: (nil, nil, nil)', strengthened='no'),
 'C14_f': dict(change='ScalarBaseMult normalises k >= n through big.Int.Bytes()', needs='scalar in [n, 2^256): error instead of [k]G', strengthened='no'),
 'C15_f': dict(change='Add: fast path to Double when x and z are equal (y not compared)', needs='P + (-P) in the same representative', strengthened='no (detected, but only after 36 min: time budgets added to C15 so that the replay is reached sooner)'),
 'C16_f': dict(change='scalar SetBytes compares against p-1 instead of n-1', needs='32-byte value in [n, p-1]', strengthened='no'),
 'C17_f': dict(change='VerifyZa reuses one package-level sm3 digest', needs='concurrent verifications', strengthened='YES: the real-code audit covered only the digest-level entry points; Sign/Verify/VerifyZa/SignZa/ZA with the real SM3 added, race replay extended'),
 'C18_f': dict(change='arm64 CK[25] data word', needs='arm64 only', strengthened='no'),
 'C19_f': dict(change='GenerateKey retry loop bounded to 8 attempts, falls through', needs='8 or more rejected candidates, then the source ends', strengthened='YES: beyond the symbolic bound on candidates; concrete runs of 0..40 rejected candidates followed by EOF / a partial draw / a good draw added'),
 'C20_f': dict(change='ConstantTimeCmp consumes 32-bit words', needs='l not a multiple of 4', strengthened='no'),
})

T.update({
 'C01_g': dict(change='SignHashed: r == 0 retry test moved before the reduction mod n', needs='x1 + e = n: r = 0 emitted, own signature rejected', strengthened='no'),
 'C02_g': dict(change='SignHashed: k != 0 test by four Uint64 loads, K[16:] loaded twice and K[24:] never', needs='nonce below 2^64 treated as zero and skipped', strengthened='YES (replay readers returned (0,nil) at the end of their stream and stalled io.ReadFull on a tree that rejects more nonces; readers now deliver filler, special vectors decide)'),
 'C03_g': dict(change='VerifyHashed: IsInfinity rejection removed', needs='(r, s) with [s]G+[t]P at infinity and r = e mod n', strengthened='no'),
 'C04_g': dict(change='sm3 Write: buffered-tail branch requires nx < BlockSize', needs='message length 63 mod 64', strengthened='no'),
 'C05_g': dict(change='portable cryptoBlockX2 loads the third word of the high lane from block 0', needs='two different blocks on the portable X2 path', strengthened='no'),
 'C06_g': dict(change='CalculateSPre 4-way aad loop exits on JGE (remainder of exactly 3 blocks takes another 4-block step)', needs='aad >= 128 bytes with block count 3 mod 4', strengthened='YES: aad and nonce lengths did not cover every residue of the block count mod 4 above the 4-way threshold; 144, 160, 176, 183, 240 added (amd64 and arm64 parts)'),
 'C07_g': dict(change='constantTimeCompare 8-byte loop overwrites instead of accumulating', needs='16-byte tag, forgery confined to tag bytes 0..7', strengthened='no'),
 'C08_g': dict(change='TestPrivateKey zero scan breaks at the first non-zero byte', needs='key with leading zero bytes', strengthened='no'),
 'C09_g': dict(change='GHASH reduce macro skips the second fold when the first product is zero', needs='top 64 bits of the carry-less product zero', strengthened='no'),
 'C10_g': dict(change='ensureCapacity copies the prefix with copy(head[:asked], array)', needs='reallocation with len(dst) > output size', strengthened='no'),
 'C11_g': dict(change='sm4CipherAsm.Decrypt checks checkBlock(src, src)', needs='dst of 1..15 bytes', strengthened='no'),
 'C12_g': dict(change='GenerateKey reads with rand.Read', needs='reader with short reads', strengthened='YES: chunked-reader key generation added to the C12 validation replay (short reads were C19 territory)'),
 'C13_g': dict(change='VerifyZa hashes sm3.SumSM3(append(za, msg...))', needs='za with live data in its spare capacity (e.g. za||pubx||puby in one buffer)', strengthened='YES: the wrappers replay now always runs and includes adjacent-slice argument layouts'),
 'C14_g': dict(change='ScalarMult keeps only the last 32 bytes of a longer scalar', needs='scalar longer than 32 bytes with non-zero leading bytes', strengthened='no'),
 'C15_g': dict(change='SM2Point.SetBytes accepts the hybrid prefixes 06/07', needs='65-byte encoding with prefix 06 or 07', strengthened='YES: symbolic run flagged it; hybrid, compressed and over-long encodings added to the replay'),
 'C16_g': dict(change='sm2Opp add-back mask from the borrow of the lowest limb', needs='non-zero element with Montgomery limb 0 equal to 0', strengthened='no'),
 'C17_g': dict(change='SignHashed caches 1/(1+d) in unsynchronised package-level variables', needs='concurrent signing with two keys', strengthened='no'),
 'C18_g': dict(change='arm64 gHashBlocks: reduction constant immediate 0x87 -> 0xC2', needs='arm64 only', strengthened='YES: C18 read DATA blocks only; the arm64 gHashBlocks is now interpreted from the listing and compared with the specification GHASH'),
 'C19_g': dict(change='SignHashed redraws a rejected nonce in place without checking the read error', needs='rejected candidate followed by a failing draw', strengthened='no'),
 'C20_g': dict(change='ConstantTimeCmp loop starts at len(a)-1 instead of l-1', needs='l < len(a)', strengthened='no'),
})

T.update({
 'C05_h': dict(change='sm4_asm.go: accelerated Decrypt passes (src, dst) to a kernel that expects (dst, src)', needs='NewCipher block, Decrypt with dst and src different buffers: dst untouched, src overwritten', strengthened='YES: the symbolic dispatch obligation failed but the replay only decrypted in place; replay now decrypts into a separate buffer and checks that the source block is preserved'),
 'C06_h': dict(change='gcm_amd64.s gHashBlocksLoopBy4New folds the stale tag register instead of the running accumulator', needs='nonce of 128 bytes or more (4-way GHASH step of the J0 derivation)', strengthened='no'),
 'C07_h': dict(change='gcm_amd64.s calculateJ0Branch2: JL last became JLE last', needs='16-byte nonce: every nonce gives the same J0, Open accepts under any other 16-byte nonce', strengthened='no'),
 'C09_h': dict(change='asm_amd64.s cryptoBlockAsm: VPTEST/JEQ shortcut that skips the byte swap for an all-zero block', needs='branch on plaintext/ciphertext block data', strengthened='YES: the assembly interpreter did not know VPTEST and the check aborted (INCONCLUSIVE); VPTEST/PTEST added, the jump is now reported as a branch on secret data'),
 'C10_h': dict(change='VerifyZa computes e with hash.Sum(za[:0])', needs='caller reuses its za buffer after VerifyZa', strengthened='no'),
 'C11_h': dict(change='gcm_amd64.s: tail of 1..15 bytes read as a full 16-byte block straight from src', needs='plaintext length not a multiple of 16 ending at a page boundary', strengthened='no'),
 'C12_h': dict(change='fiat SM2Element.Equal compares only the first 31 bytes of the encodings', needs='off-curve pair whose y^2 and x^3-3x+b differ in the lowest byte only', strengthened='YES: Equal/IsZero were taken by contract and never executed; new obligation field_equality runs the real Equal/IsZero (over crypto/subtle) on arbitrary canonical encodings, replay builds an accepted off-curve pair from the counterexample'),
 'C13_h': dict(change='sm3 checkSum: nx > maxTail became nx >= maxTail', needs='hashed length 55 mod 64: id of 53 mod 64 bytes or message of 23 mod 64 bytes', strengthened='YES: C13 takes the hash object by contract (C04 proves it) and its concrete reference runs used 7 id lengths and one message length; reference runs now cover id and message lengths 0..129, i.e. every residue of the hashed length mod 64'),
 'C15_h': dict(change='SM2Point.SetBytes infinity case zeroes only z and keeps the receiver x, y', needs='00 decoded into a receiver holding a finite point: (X : Y : 0) with X != 0 is not neutral for Add', strengthened='YES: the decode obligation only asked for Z = 0; it now asks for a point of the projective curve (X = 0, Y != 0, Z = 0) from an arbitrary symbolic receiver, replay decodes 00 into used receivers and checks neutrality'),
 'C17_h': dict(change='SignZa hashes append(za, msg...)', needs='za with spare capacity shared by goroutines: msg bytes are written behind za in the caller buffer', strengthened='YES: audited inputs had cap == len so an append reallocated; inputs of the message-level audit now sit in buffers with spare capacity (and za is listed as an input), the race replay shares a za record between workers'),
})

T.update({
 'C01_h': dict(change='VerifyHashed range check compares r, s with n-1 instead of n', needs='signature with r = n-1 or s = n-1 (legitimately produced) is rejected', strengthened='no'),
 'C02_h': dict(change='SignHashed reduces r+k mod n before the r+k = n test', needs='first candidate with r + k = n: the rule is dead, s = k is emitted', strengthened='no'),
 'C03_h': dict(change='ScalarMixedMult_Unsafe: skip flag not cleared in the base-table branch', needs='t = r+s below about 2^14: R wrong, valid signature rejected', strengthened='YES: the double multiplication is a contract in C03 (C14 owns it) and the solved families used random t; families with tiny, sparse and near-n values of t and s added'),
 'C04_h': dict(change='sm3 checkSum writes the bit length as two 32-bit words, high word shifted by 32 instead of 29', needs='2^29 bytes or more hashed', strengthened='no'),
 'C08_h': dict(change='multiSelectConditioned scans only the first bits entries of the table', needs='scan length = secret window value', strengthened='no'),
 'C14_h': dict(change='ScalarMult dispatches to ScalarBaseMult when P is the generator with Z = 1', needs='P == G and a scalar whose length is not 32: error instead of [k]G', strengthened='YES: the code now inspects the coordinates of the point the obligation keeps abstract and the interpreter crashed (check aborted, INCONCLUSIVE); such loads are now an Unsupported verdict for that obligation only, and the replay multiplies G (Z = 1 and Z != 1) and O by scalars of every length class'),
 'C16_h': dict(change='field sm2Add: final-reduction selector is the complement of the carry-out instead of the borrow of the trial subtraction', needs='canonical operands whose limb sum lies in [p, 2^256): non-canonical result, later operations wrong', strengthened='YES: integer mode did not know the exclusive or of two flag bits (check aborted), and once it did the counterexample was not reproduced because Bytes() reduces; single-bit xor added, the replay checks that raw result limbs are below the modulus'),
 'C18_h': dict(change='sm2Precomputed_4_2_32 sub table 2 entry 10: Y replaced by p - Y', needs='table only read by a benchmark-only multiplication', strengthened='no'),
 'C19_h': dict(change='Sign wraps the source in io.MultiReader(rand, crypto/rand.Reader)', needs='caller source ends: nonce topped up from the system generator, no error', strengthened='YES: io.MultiReader is outside the dumped code and the whole check aborted; a symbolic abort is now per entry point, and the concrete end-of-source schedules cover Sign and SignZa as well as GenerateKey and SignHashed'),
 'C20_h': dict(change='DecomposeNAF fold threshold from a table whose w = 6 entry is 46 instead of 64', needs='window width 6 (unused by the library), odd window value 47..63', strengthened='no'),
})

T.update({
 'C03_i': dict(change='VerifyHashed compares x1 with (r - e) mod n without reducing x1', needs='verification point with affine x in [n, p-1] (2^-128): valid signature rejected', strengthened='YES: the symbolic obligation reported reject-valid but no solved family reproduced it; a family that picks R with x >= n first and solves the key from R = [s]G + [t]P added'),
 'C12_i': dict(change='ConstantTimeCmp never compares the least significant byte', needs='operands agreeing in their first 31 bytes: n-2 rejected as a key, x = p accepted as a coordinate', strengthened='no'),
 'C13_i': dict(change='zBytes gets spare capacity and ZA hashes append(append(zBytes, x...), y...)', needs='concurrent ZA/Sign/Verify calls for different keys overwrite each other in the shared backing array', strengthened='YES: C13 compared the hashed byte sequence only; the ZA obligation now also requires that the call stores into no object that existed before it (package-level state, arguments), replay runs ZA from 8 goroutines against the serial results'),
 'C14_i': dict(change='DecomposeNAF fast-forwards over an all-zero aligned 32-bit word without delivering a pending carry', needs='scalar s with a recoding carry arriving at a zero word (2^-30)', strengthened='YES: the recoding is a contract inside C14 (C20 owns it) and the replay scalars were random or tiny; carry-into-zero-word patterns at every word position added'),
 'C16_i': dict(change='field sm2Square: limb-2 trial subtraction rewritten as add-one, borrow wrong when the limb is all ones with a borrow in', needs='Montgomery result p - d with a borrow from the low 128 bits (2^-64)', strengthened='YES: field.Square failed symbolically but the carry-critical vectors did not reproduce it; operands are now solved (division / square root) so that Mul and Square results land on m - d for d up to 64, on limb boundaries and on 0/1'),
 'C19_i': dict(change='GenerateKey substitutes crypto/rand.Reader for a nil source', needs='GenerateKey(nil) returns a key and no error', strengthened='no'),
})

T.update({
 'C04_j': dict(change='sm3 Sum finalises on the receiver and restores h, nx and len afterwards, but not the block buffer x', needs='Sum with 56..63 bytes pending (padding spills into a second block and zeroes x[0:56]) followed by a second Sum or by Write+Sum on the same hash', strengthened='no'),
 'C15_j': dict(change='SM2Point.bytes takes the infinity shortcut when X or Z is zero', needs='one of the two finite points with x = 0, (0, +-sqrt(b)), in any projective representative: encoded as the single byte 00, round trip broken', strengthened='YES: the symbolic obligation failed (Bytes.infinity, Bytes_Unsafe.infinity) but the special pairs of the replay had no point with a zero coordinate (reported INCONCLUSIVE); the pairs now contain (0, +-sqrt(b)) as operands and as results of additions with Z != 1'),
 'C17_j': dict(change='tag-only branch of Open hands openAsm a 32-byte scratch field of the shared sm4GcmAsm value instead of the stack array', needs='two goroutines running Open on ciphertext == tag through one AEAD; invisible to the race detector (assembly writes)', strengthened='no'),
 'C18_j': dict(change='y coordinate of one entry (sub table 3, window value 91) of the unused 7_3_12 comb table replaced by p - y', needs='use or enumeration of the 7_3_12 scheme (benchmark only)', strengthened='no'),
 'C20_j': dict(change='getBits high-byte mask (1<<bitsHi)-1 became 0x3f >> (6-bitsHi), zero at bitsHi == 7', needs='DecomposeNAF with w = 7 and a digit starting at bit 7 of a byte with low bits of the next byte set (the library only uses w = 4)', strengthened='no'),
})

T.update({
 'C05_j': dict(change='sm4.go ssX2: the high-lane s2 lookup indexes with t>>8 (a byte of the low lane) instead of t>>40', needs='portable two-block path with two different blocks (the suite feeds identical blocks to both lanes)', strengthened='no'),
 'C07_j': dict(change='gcm_amd64.s constantTimeCompare: byte-tail loop exit JL became JLE', needs='tag size 12..15 and a forgery confined to the last tag byte', strengthened='no'),
 'C10_j': dict(change='helper_amd64.s copyAsm: 2-byte tail step advances the source pointer by 1', needs='Seal/Open with a non-empty dst that must be reallocated and len(dst) % 4 == 3, prefix bytes not all equal', strengthened='no'),
 'C12_j': dict(change='TestPrivateKey compares only the low 31 bytes with n-1', needs='a valid key whose low 31 bytes exceed those of n-1 (e.g. 7FFF..FF): rejected, and skipped by GenerateKey; the usual boundary values behave', strengthened='no'),
 'C13_j': dict(change='ZA narrows len(id) to uint16 before the too-long test', needs='an id of 65536 bytes or more with len mod 65536 < 8192: accepted with a wrapped ENTL', strengthened='YES: the quick tier enumerated id lengths up to 16384 only (the thorough tier had 70000); both tiers now include 65535, 65536, 65552, 73727 and 131072'),
})

T.update({
 'C01_j': dict(change='SignHashed reduces r + k mod n before the "r + k == n, retry" test, so the test never fires', needs='nonce and digest with x(kG) + e = n - k mod n (2^-256): s = n - r is returned and the library rejects its own signature (r + s = n)', strengthened='no'),
 'C16_j': dict(change='fiat sm2Sub: the conditional add-back of p reuses the borrow flag as the carry into limb 1 instead of the carry out of limb 0', needs='arg1 < arg2 with equal low Montgomery limbs (2^-64): result off by 2^64', strengthened='no'),
 'C19_j': dict(change='GenerateKey tests the source error against a byte counter that accumulates across rejected candidates', needs='at least one rejected candidate, then a failure 1..31 bytes into a later draw: a key made of stale and new bytes is returned with a nil error', strengthened='no'),
})

for name, t in sorted(T.items()):
    d = os.path.join(S, name)
    if not os.path.isdir(d):
        continue
    prop = name.split('_')[0]
    res = open(os.path.join(d, 'result.txt')).read().strip().split('\n') if os.path.exists(os.path.join(d, 'result.txt')) else []
    detected = any(l.startswith('VIOLATION') for l in res)
    key = next((l.strip() for l in res if l.strip().startswith('key=')), '')
    meta = dict(
        seed=name, property=prop, origin='fresh sub-agent given only the property text and a scratch worktree of /repo' + (' (asked for a change in the arm64 implementation; demonstration by a Go port of the changed logic, since arm64 code cannot run on this host)' if name.endswith('_d') else '') + (' (fifth/sixth round: one sub-agent handled four properties in turn, each in its own worktree)' if name.endswith(('_f', '_g')) else '') + (' (seventh/eighth round: one sub-agent handled two properties in turn, each in its own worktree)' if name.endswith(('_h', '_i')) else ''),
        change=t['change'], needs_to_manifest=t['needs'],
        compiles=True, existing_suite_passes=True,
        confirmed_by_me='applied patch.diff in a scratch worktree: go build ./... and go test -vet=off -count=1 ./... pass; demo_test.go fails with the change and passes without it (C08/C09/C11: structural demonstration, see meta.txt)',
        files=dict(patch='patch.diff', demonstration='demo_test.go', agent_notes='meta.txt', check_outcome='result.txt'),
        check_run='tools/seedmatrix.sh %s  (= ./check %s --tier quick against a scratch worktree with the patch applied)' % (name, prop),
        detected=detected, detected_by=key, check_summary=res[0] if res else 'not run',
        check_strengthened=t['strengthened'])
    json.dump(meta, open(os.path.join(d, 'meta.json'), 'w'), indent=1)
    print(name, 'detected' if detected else 'NOT DETECTED', key[:100])
