CHECKS = {
 'C04': dict(level='model_checking',
   technique='SMT (z3) over symbolic execution of go/ssa: cut-point round equivalence of cf, one-step inductive Write/Sum obligations with cf uninterpreted',
   text='Bounded symbolic model checking of the real sm3 code: (1) the compression function is proved equal to the GB/T 32905 round function for all chaining values and blocks (64 per-round solver queries at loop cut points); (2) from an arbitrary state satisfying the representation invariant one Write of every length in the bound and one Sum are executed symbolically and compared with the standard padding/fold, so histories of any length are covered by induction; counterexamples are replayed as go tests.',
   note='Trusted: go/ssa reflects the compiler, z3, the inductive composition argument. Bounds: per-Write length <= 191 bytes, total length < 2^61 bytes, quick tier uses boundary (nx,len) pairs.'),
}
NOT_APPLICABLE = {}
