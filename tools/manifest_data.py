CHECKS = {
 'C04': dict(level='model_checking',
   technique='SMT (z3) over symbolic execution of go/ssa: cut-point round equivalence of cf, one-step inductive Write/Sum obligations with cf uninterpreted',
   text='Bounded symbolic model checking of the real sm3 code: (1) the compression function is proved equal to the GB/T 32905 round function for all chaining values and blocks (64 per-round solver queries at loop cut points); (2) from an arbitrary state satisfying the representation invariant one Write of every length in the bound and one Sum are executed symbolically and compared with the standard padding/fold, so histories of any length are covered by induction; counterexamples are replayed as go tests.',
   note='Trusted: go/ssa reflects the compiler, z3, the inductive composition argument. Bounds: per-Write length <= 191 bytes, total length < 2^61 bytes, quick tier uses boundary (nx,len) pairs.'),

 'C20': dict(level='model_checking',
   technique='SMT (z3) over symbolic execution of go/ssa: per-path equivalence with lexicographic order; NAF by exhaustive forking at small n and one-step loop induction at n=257',
   text='ConstantTimeCmp is executed symbolically for every l in the bound with all byte contents symbolic and each path result is proved equal to the sign of the big-endian comparison. DecomposeNAF is (a) run end-to-end on all inputs of 8/16 bits for w=1..7 (paths forked, digit-set and weighted-sum properties proved per path) and (b) for the production size n=257 one loop iteration is executed from every (position, carry) state with all 256 input bits symbolic and shown to preserve the recoding invariant, which gives all 2^256 inputs by induction.',
   note='Trusted: go/ssa reflects the compiler, z3, the loop-induction argument and the stated invariant. Quick tier: w=4 at all positions, w=1,2,7 at boundary positions; thorough: w=1..7 at all positions.'),

 'C02': dict(level='model_checking',
   technique='SMT (z3): symbolic execution of SignHashed/TestPrivateKey from go/ssa with math/big as mathematical integers; linear-abstraction proofs with hypothesis-product lemmas, NIA counterexamples replayed as go tests',
   text='The real SignHashed (retry loop, range checks, big.Int arithmetic, left-padding) is executed symbolically for all private-key byte strings of each length in the bound, all digests and all nonce streams of up to N candidates; the group, scalar-field and comparison layers are replaced by contracts that other properties discharge. On every path the solver proves that skipped candidates are exactly those the standard rejects, that the accepted candidate and the (r,s) output satisfy the standard\'s equations, and that errors occur exactly for keys outside [1,n-2]. Each rejection rule is additionally hit by a solver-constructed stream replayed on the real build.',
   note='Trusted: contracts listed in evidence (C14/C15/C16/C20 discharge them), z3 linear arithmetic + the soundness of the monomial abstraction, go/ssa. Bounds: up to 2 (quick) / 3 (thorough) nonce candidates, key lengths listed in evidence.'),

 'C01': dict(level='model_checking',
   technique='SMT (z3): symbolic execution of SignHashed+VerifyHashed (and Sign/Verify) from go/ssa on one path; acceptance proved by linear abstraction with product lemmas; panic paths witnessed by solver-completed inputs with true curve values',
   text='On every explored path the real signing code is followed by the real verification code on the produced (r,s) and the derived public key, with big.Int as mathematical integers and the group layer as an abstract prime-order group; the solver proves that the verification equation holds (dlog of [s]G+[t]P equals k) and that no panic/error/reject path is feasible. Feasible failing paths are turned into concrete (d,e,k) by pinning d,k, substituting true curve values (refinement loop) and solving for e, then replayed.',
   note='Trusted: the contracts listed in evidence (discharged by C14/C15/C16/C20), prime order of the group, z3. Bounds: key lengths and number of nonce candidates as listed in evidence.'),
 'C03': dict(level='model_checking',
   technique='SMT (z3): symbolic execution of VerifyHashed from go/ssa for all 32-byte inputs, equivalence with the standard predicate over an abstract group; solved counterexample families replayed on the real build',
   text='VerifyHashed is executed for arbitrary symbolic 32-byte pubx, puby, e, r, s (and every wrong-length combination in the bound); on each path the solver proves accept => each condition of the standard and standard-accept => accept. Counterexamples are made concrete by pinning the key to a real point, substituting true curve values (refinement loop) and solving for e, r, s; in addition ~60 solved inputs per run (valid signatures, r/s+n, r+s=n, infinity, off-curve, non-canonical, bit flips) are judged on the real build against the reference.',
   note='Trusted: contracts for point decoding / double-scalar multiplication (C14, C15), prime order (every on-curve point is [u]G), z3. Outside: argument lengths not listed.'),
}
NOT_APPLICABLE = {}
