#!/bin/bash
# usage: tools/seedmatrix.sh [-j N] [seed names ...]
# For each seeded change under /verif/seeded/<PROP>_<x>/ : make a scratch worktree of /repo under /tmp, apply patch.diff
# there, run the property's quick check against it (VERIF_REPO/VERIF_OUT keep /repo, /verif/out and /verif/evidence
# untouched), record the outcome in /verif/seeded/<name>/result.txt and remove the worktree again.
# /repo itself is never modified, so the matrix can run next to ordinary check runs.
J=3
if [ "$1" = "-j" ]; then J=$2; shift 2; fi
cd /verif
names=("$@")
[ ${#names[@]} -eq 0 ] && names=($(ls seeded | grep -E '^C[0-9]+_'))
run_one() {
  name=$1; prop=${name%%_*}
  wt=/tmp/seedrun/$name; out=/tmp/seedrun/out_$name
  rm -rf $wt $out; mkdir -p /tmp/seedrun
  git -C /repo worktree add --detach -f $wt HEAD >/dev/null 2>&1 || { echo "$name: worktree failed"; return; }
  if ! git -C $wt apply /verif/seeded/$name/patch.diff; then echo "$name: patch does not apply" | tee /verif/seeded/$name/result.txt; else
    t0=$(date +%s)
    VERIF_REPO=$wt VERIF_OUT=$out timeout 3000 ./check $prop --tier quick > $out.log 2>&1
    rc=$?
    t1=$(date +%s)
    { echo "seed=$name check=$prop tier=quick exit=$rc wall=$((t1-t0))s repo_commit=$(git -C /repo rev-parse --short HEAD)"
      grep -E "^VIOLATION|^  key=|^KNOWN-FINDING|^INCONCLUSIVE|^ENCODER-MISMATCH|^C[0-9]+ tier=" $out.log | sed "s#$wt#/repo#g; s#$out#/verif/out#g" | cut -c1-400
    } > /verif/seeded/$name/result.txt
    echo "$name: exit=$rc $(grep -c '^VIOLATION' $out.log) violation line(s), $((t1-t0))s"
  fi
  git -C /repo worktree remove --force $wt; rm -rf $out $out.log
}
export -f run_one
printf '%s\n' "${names[@]}" | xargs -P $J -I{} bash -c 'run_one {}'
git -C /repo worktree prune
