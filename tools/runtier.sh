#!/bin/bash
# usage: tools/runtier.sh <tier> [-j N] [ids...] : run the given tier of the listed checks on /repo (evidence and scratch under out/tier_<tier>/)
tier=$1; shift
J=4
if [ "$1" = "-j" ]; then J=$2; shift 2; fi
cd /verif
ids=("$@")
[ ${#ids[@]} -eq 0 ] && ids=(C01 C02 C03 C04 C05 C06 C07 C08 C09 C10 C11 C12 C13 C14 C15 C16 C17 C18 C19 C20)
mkdir -p out/tier_$tier
one() { t0=$(date +%s); VERIF_OUT=/verif/out/tier_$2/$1 timeout 14400 ./check $1 --tier $2 > out/tier_$2/$1.log 2>&1; rc=$?; echo "$1 $2 exit=$rc wall=$(( $(date +%s) - t0 ))s $(grep -c '^VIOLATION' out/tier_$2/$1.log) violations $(grep -c '^INCONCLUSIVE' out/tier_$2/$1.log) inconclusive"; }
export -f one
printf '%s\n' "${ids[@]}" | xargs -P $J -I{} bash -c "one {} $tier"
