#!/usr/bin/env python3
# regenerates MANIFEST.json from the table below (single source of truth for registered checks)
import json, os
HERE = os.path.dirname(os.path.dirname(os.path.abspath(__file__)))
props = [json.loads(l) for l in open(os.path.join(HERE, 'properties.jsonl'))]
from manifest_data import CHECKS, NOT_APPLICABLE
m = {"version": 1, "setup_cmd": "./setup.sh",
     "hooks": {"guard": "verif", "enable": "no source hooks are needed: harnesses and replays are injected with go/packages Overlay and go test -overlay; nothing is compiled into /repo",
               "baseline_off_cmd": "cd /repo && go test -vet=off -count=1 ./...", "source_commits": [], "add_only": True},
     "engines": [
         {"name": "ssajson", "path": "tools/ssajson", "serves_properties": sorted(CHECKS), "kind_free_text": "go/packages + go/ssa (x/tools v0.29.0) dump of /repo's current tree as JSON, regenerated on every run"},
         {"name": "gosym", "path": "engine/gosym.py", "serves_properties": sorted(CHECKS), "kind_free_text": "symbolic interpreter for the SSA dump over z3 terms (decision-replay path exploration, bit-vector semantics, panics as path ends, loop cut points, taint mode, write-set log); stdlib models in engine/models.py"},
         {"name": "asmsym", "path": "engine/asmsym.py", "serves_properties": ["C05", "C06", "C07", "C09", "C10", "C11", "C17", "C18"], "kind_free_text": "symbolic interpreter for the amd64 assembler listing (go tool asm -S of the current tree): region-relative addresses, AVX-512/GFNI/VPCLMULQDQ semantics, GF(2)-affine value domain, taint mode, access log"},
         {"name": "arm64sym", "path": "engine/arm64sym.py", "serves_properties": ["C05", "C06", "C07", "C09", "C10", "C11", "C17"], "kind_free_text": "symbolic interpreter for the arm64 (NEON) assembler listing; composed with the arm64 Go glue (go/ssa GOARCH=arm64) through checks/arm64lib.py"},
         {"name": "asmbridge", "path": "engine/asmbridge.py", "serves_properties": ["C05", "C06", "C07", "C09", "C10", "C11", "C17"], "kind_free_text": "executes body-less Go functions of package sm4 in the assembly interpreters on regions that mirror the gosym heap (slice length, not capacity, bounds the region)"},
         {"name": "intprove", "path": "engine/intprove.py", "serves_properties": ["C01", "C02", "C03", "C12", "C15", "C19"], "kind_free_text": "integer-level prover: linear abstraction with hypothesis-product lemmas (unsat = proof), NIA / pinned models for counterexamples, cvc5 as second opinion"},
         {"name": "intmode", "path": "engine/intmode.py", "serves_properties": ["C16"], "kind_free_text": "integer mode for word-by-word Montgomery code: one exact linear equation per bits.Add64/Sub64/Mul64, shared word products"},
         {"name": "sm2model", "path": "engine/sm2model.py", "serves_properties": ["C01", "C02", "C03", "C10", "C12", "C13", "C17", "C19"], "kind_free_text": "protocol-level contracts (group layer, comparison, reader stub with fault schedules, hash object) used when the SM2 entry points are executed; each contract is discharged by C14/C15/C16/C20/C04"},
     ],
     "checks": [], "notes": "Solver-based checking of the real code; see DESIGN.md. ./check <id> --tier quick|thorough",
     "not_applicable": []}
for p in props:
    pid = p['id']
    if pid in CHECKS:
        c = CHECKS[pid]
        m['checks'].append({"property_id": pid, "quick_cmd": "./check %s --tier quick" % pid, "thorough_cmd": "./check %s --tier thorough" % pid,
                            "evidence_file": "evidence/%s.json" % pid, "engine": c.get('engine', 'gosym'),
                            "level_claimed": {"category": c['level'], "text": c['text'], "design_ref": "DESIGN.md section 3 / " + pid},
                            "level_note": c['note'], "technique": c['technique']})
    else:
        m['not_applicable'].append({"property_id": pid, "reason": NOT_APPLICABLE.get(pid, "check not built yet (framework under construction); planned in DESIGN.md section 3")})
json.dump(m, open(os.path.join(HERE, 'MANIFEST.json'), 'w'), indent=1)
print('checks:', [c['property_id'] for c in m['checks']])
